typedef struct { char b[10]; unsigned long n; unsigned long cap; } S;
typedef struct { S first; S second; } P;
typedef struct { P b[5]; unsigned long n; unsigned long cap; } V;
typedef struct { S type; S file; V params; } U;
unsigned long nondet_ulong(void);
int main(void) {
  U u;
  for (int k = 0; k < 3; k++) { u.params.b[k].second.b[0] = (char)(k + 10); u.params.b[k].first.b[0] = (char)(k + 20); }
  unsigned long f = nondet_ulong(); __CPROVER_assume(f < 3);
  S *o = &u.params.b[f].second;
  __CPROVER_assert(o->b[0] == (char)(f + 10), "pointer-to-member read is right");
  __CPROVER_assert(u.params.b[f].second.b[0] == (char)(f + 10), "direct read is right");
  S *o1 = &u.params.b[f].first;
  __CPROVER_assert(o1->b[0] == (char)(f + 20), "pointer-to-first-member read is right");
  return 0;
}
