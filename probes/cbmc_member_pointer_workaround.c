typedef struct { char b[10]; unsigned long n; unsigned long cap; } S;
typedef struct { S first; S second; } P;
typedef struct { P b[5]; unsigned long n; unsigned long cap; } V;
typedef struct { S type; S file; V params; } U;
unsigned long nondet_ulong(void);
static P *elem(V *v, unsigned long i) { unsigned long k; for (k = 0; k + 1 < 5; k++) if (k == i) return &v->b[k]; return &v->b[4]; }
static char rd(S *s) { return s->b[0]; }
int main(void) {
  U u;
  for (int k = 0; k < 3; k++) { u.params.b[k].second.b[0] = (char)(k + 10); u.params.b[k].first.b[0] = (char)(k + 20); }
  unsigned long f = nondet_ulong(); __CPROVER_assume(f < 3);
  S *o2 = &elem(&u.params, f)->second;
  __CPROVER_assert(o2->b[0] == (char)(f + 10), "H' via case-splitting element function");
  __CPROVER_assert(rd(&elem(&u.params, f)->first) == (char)(f + 20), "I' passing member pointer to a function");
  S cp = *o2;
  __CPROVER_assert(cp.b[0] == (char)(f + 10), "K' struct copy");
  return 0;
}
