"""Units: a driver TU + specs -> per-function C files with contracts and
harnesses -> jobs for cbmcrun.  See DESIGN.md 3.3."""
import os, re, json
from collections import OrderedDict
import astload, cxx2c, extractor
from astload import ExtractionBreak
from cxx2c import Ty, X, parse_type

VERIF = os.path.dirname(os.path.dirname(os.path.abspath(__file__)))


def c_expr(s):
    """spec expression -> CBMC C text"""
    s = re.sub(r"\bRET\b", "__CPROVER_return_value", s)
    s = re.sub(r"\bOLD\(", "__CPROVER_old(", s)
    s = s.replace("==>", "==>")
    return s


class FnSpec:
    def __init__(self, name, **kw):
        self.name = name
        self.fname = kw.pop("fname", name)     # extracted function this spec is about (variants share it)
        self.primary = kw.pop("primary", True)  # the contract callers see when the function is replaced
        self.requires = list(kw.pop("requires", []))
        self.ensures = OrderedDict(kw.pop("ensures", {}))
        self.assigns = kw.pop("assigns", [])
        self.frees = kw.pop("frees", None)
        self.loops = kw.pop("loops", {})
        self.arrays = kw.pop("arrays", {})
        self.noalias = kw.pop("noalias", False)
        self.alias = kw.pop("alias", None)  # explicit list of (p,q) pairs allowed to alias
        self.inline = set(kw.pop("inline", []))
        self.replace = kw.pop("replace", None)
        self.harness = kw.pop("harness", None)
        self.flags = kw.pop("flags", [])
        self.noflags = kw.pop("noflags", [])
        self.solver = kw.pop("solver", None)
        self.timeout = kw.pop("timeout", 300)
        self.ptr_requires = kw.pop("ptr_requires", True)
        self.must_fire = kw.pop("must_fire", {})
        self.known = kw.pop("known", {})
        self.tier = kw.pop("tier", "quick")
        self.objbits = kw.pop("objbits", None)
        self.pre_call = kw.pop("pre_call", "")
        self.post_call = kw.pop("post_call", "")
        self.in_ranges = kw.pop("in_ranges", {})
        self.nullable = kw.pop("nullable", [])
        self.rec = kw.pop("rec", False)
        self.mathreq = kw.pop("mathreq", None)
        self.extra = kw
        self.is_lemma = False
        self.assumed = kw.pop("assumed", False) if "assumed" in kw else False


class Lemma:
    def __init__(self, name, params, body, uses, **kw):
        self.name = name
        self.params = params      # [(ctype text, name)] ; objects of record/scalar type, passed by pointer for records
        self.body = body          # C text using ASSERT(label, cond) and ASSUME(cond)
        self.uses = uses          # contract-bearing functions called
        self.requires = kw.pop("requires", [])
        self.flags = kw.pop("flags", [])
        self.solver = kw.pop("solver", None)
        self.timeout = kw.pop("timeout", 300)
        self.tier = kw.pop("tier", "quick")
        self.known = kw.pop("known", {})
        self.inline = set(kw.pop("inline", []))
        self.alias = kw.pop("alias", None)
        self.arrays = kw.pop("arrays", {})
        self.objbits = kw.pop("objbits", None)
        self.noflags = kw.pop("noflags", [])
        self.is_lemma = True


class Unit:
    """One driver TU, extracted once per run."""

    def __init__(self, name, cpp, defines=(), opts=None, helpers="", stubs="", std="c++11", gen=None):
        self.name = name
        self.gen = gen
        self.cpp = os.path.join(VERIF, cpp)
        self.defines = list(defines)
        self.opts = opts or {}
        self.helpers = helpers     # C text: spec helper functions (pure, used in contracts)
        self.stubs = stubs         # C text: stub declarations with assumed contracts
        self.specs = OrderedDict()
        self.mspecs = OrderedDict()
        self.math_models = {}
        self.lemmas = OrderedDict()
        self.stub_contracts = OrderedDict()  # name -> description (assumed)
        self.std = std
        self.tr = None
        self.wrappers = {}

    def fn(self, name, variant=None, **kw):
        """variant: an additional contract (differently guarded) for the same function, enforced in its own run"""
        if variant:
            s = FnSpec(name + "#" + variant, fname=name, primary=False, **kw)
        else:
            s = FnSpec(name, **kw)
        self.specs[s.name] = s
        return s

    def mfn(self, name, mode, ensures, **kw):
        """math-back-end spec: ensures = {label: lambda P, RET, Q: z3 formula}"""
        import mathrun
        m = mathrun.MSpec(name, mode, ensures, **kw)
        self.mspecs[name + "@" + mode] = m
        return m

    def mlemma(self, name, mode, fn, **kw):
        """math-back-end lemma: fn(ctx) -> (assumptions, {label: goal}) over calls into the extracted IR"""
        import mathrun
        m = mathrun.MLemma(name, mode, fn, **kw)
        self.mspecs[name] = m
        return m

    def lemma(self, name, params, body, uses, **kw):
        l = Lemma(name, params, body, uses, **kw)
        self.lemmas[name] = l
        return l

    def stub(self, name, doc):
        self.stub_contracts[name] = doc

    # ------------------------------------------------------------ extraction
    def extract(self, workdir):
        out = os.path.join(workdir, self.name)
        if self.gen is not None:
            self.gen(self.cpp)
        self.clang_cmd = astload.run_clang(self.cpp, out, defines=self.defines, std=self.std)
        ast = astload.AST(out)
        self.ast = ast
        opts = dict(self.opts)
        opts["unit_dir"] = os.path.dirname(self.cpp) + "/"
        tr = extractor.Extractor(ast, opts=opts)
        cls = self.opts.get("extractor_class")
        if cls:
            tr = cls(ast, opts=opts)
        self.tr = tr
        tr.rec_alias.update(opts.get("rec_alias", {}))
        for c in opts.get("force_records", ()):
            tr.need_record(c)      # records the unit's stubs mention in every target's text
        aliases = {}
        for t in ast.tops:
            if t.get("kind") == "NamespaceDecl" and t.get("name") == "verif_use":
                for f in t.get("inner", []):
                    if f.get("kind") != "FunctionDecl":
                        continue
                    if self.opts.get("only") and f.get("name") not in self.opts["only"]:
                        continue
                    body = [c for c in f.get("inner", []) if c.get("kind") == "CompoundStmt"]
                    if not body:
                        continue
                    fid = self.first_call_target(body[0])
                    if fid is None:
                        # no call: the wrapper's body is itself library text (a macro expansion): extract the wrapper
                        fid = f["id"]
                        self.self_wrappers = getattr(self, "self_wrappers", set())
                        self.self_wrappers.add(f["name"])
                    did = ast.D.get(fid, {}).get("def", fid)
                    if did in aliases and aliases[did] != f["name"]:
                        # two wrappers naming the same function: keep first, remember synonym
                        self.wrappers[f["name"]] = f
                        continue
                    aliases[did] = f["name"]
                    self.wrappers[f["name"]] = f
        tr.aliases = aliases
        self.alias_ids = aliases
        for did in aliases:
            tr.request(did)
        tr.run()
        if hasattr(tr, "compute_may_throw"):
            tr.compute_may_throw()
        for m in self.mspecs.values():
            if not m.is_lemma and m.name not in tr.funcs:
                raise ExtractionBreak("math spec for '%s' but no such extracted function" % m.name)
        for name in list(self.specs):
            if self.specs[name].fname not in tr.funcs and not self.specs[name].assumed:
                raise ExtractionBreak("spec for '%s' but no such extracted function (renamed or signature changed?)" % name)
        return tr

    def first_call_target(self, n):
        ast = self.ast
        k = n.get("kind")
        if k in ("CallExpr", "CXXOperatorCallExpr"):
            c = n["inner"][0]
            while c.get("kind") in ("ImplicitCastExpr", "ParenExpr"):
                c = c["inner"][0]
            if c.get("kind") == "DeclRefExpr":
                q = ast.finfo(c["referencedDecl"]["id"]).get("qname", "")
                if q not in ("std::move", "std::forward"):
                    return c["referencedDecl"]["id"]
        if k == "CXXMemberCallExpr":
            me = n["inner"][0]
            if me.get("kind") == "MemberExpr":
                return me["referencedMemberDecl"]
        if k in ("CXXConstructExpr", "CXXTemporaryObjectExpr") and not n.get("elidable"):
            info = ast.E.get(n["id"], {})
            ci = ast.finfo(info.get("ctor", ""))
            if not ("trivial" in ci and ("copyctor" in ci or "movector" in ci)):
                return info.get("ctor")
        if k == "CXXNewExpr" or k == "CXXDeleteExpr":
            pass
        for c in n.get("inner", []):
            if isinstance(c, dict):
                r = self.first_call_target(c)
                if r:
                    return r
        return None

    # ------------------------------------------------------------ C generation
    def closure(self, roots, stop, follow_roots=True):
        """functions reachable from roots; calls into `stop` functions are not followed"""
        seen, order = set(), []
        stack = list(roots)
        # extracted functions that generated model code calls (e.g. the element destructor behind a shared_ptr model): always
        # part of the program text, whichever function triggers them
        stdl0 = getattr(self.tr, "stdlib", None)
        if stdl0 is not None:
            for k, deps in getattr(stdl0, "model_deps", {}).items():
                for d in deps:
                    if d in self.tr.funcs and d not in stop:
                        stack.append(d)
        while stack:
            n = stack.pop()
            if n in seen:
                continue
            seen.add(n)
            f = self.tr.funcs.get(n)
            if f is None:
                for d in getattr(self, "stub_deps", {}).get(n, []):
                    if d not in seen:
                        stack.append(d)
                stdl = getattr(self.tr, "stdlib", None)
                if stdl is not None:
                    for d in stdl.deps_of(n):
                        if d not in seen:
                            stack.append(d)
                continue
            order.append(n)
            if n in stop and (n not in roots or not follow_roots):
                continue
            for c in f.calls:
                if c not in seen:
                    stack.append(c)
        return order

    def subst_params(self, e, f):
        if f is None or "$" not in e:
            return e
        names = [n for (n, _) in f.params]
        return re.sub(r"\$(\d+)", lambda m: names[int(m.group(1))], e)

    def contract_text(self, spec, f, lines, with_ptr=True):
        """returns list of contract lines; `lines` collects (label) per emitted ensures line index"""
        out = []
        S = lambda e: self.subst_params(e, f)
        if spec.ptr_requires and f is not None and with_ptr:
            for (pn, pt) in f.params:
                if pt.kind == "ptr" and pt.to.kind != "func" and not (pt.to.kind == "builtin" and pt.to.name == "void"):
                    if pn in spec.nullable:
                        continue
                    n = spec.arrays.get(pn)
                    if n is None and pt.to.kind in ("builtin", "ptr") and pn != "self" and pn not in spec.extra.get("scalar_ptrs", ()):  # pointer to scalar: needs an explicit size
                        if pn not in spec.extra.get("single", ()) and not self.is_cxx_ref(f, pn):
                            continue
                    sz = "sizeof(*%s)" % pn if n is None else "(%s)*sizeof(*%s)" % (n, pn)
                    out.append("__CPROVER_requires(__CPROVER_r_ok(%s, %s))" % (pn, sz))
        for r in spec.requires:
            out.append("__CPROVER_requires(%s)" % c_expr(S(r)))
        # is_fresh clauses first: when a contract is used to REPLACE a call, an is_fresh ensures assigns the pointer,
        # so facts relating that pointer to other state must be assumed after it
        ens = sorted(spec.ensures.items(), key=lambda kv: 0 if "__CPROVER_is_fresh" in kv[1] else 1)
        for lab, e in ens:
            lines.append((len(out), lab))
            out.append("__CPROVER_ensures(%s)" % c_expr(S(e)))
        if spec.assigns is not None:
            asg = [S(x) for x in spec.assigns]
            if f is not None and getattr(self.tr, "may_throw", {}).get(f.cname) and "__verif_exc" not in asg:
                asg.append("__verif_exc")
            out.append("__CPROVER_assigns(%s)" % ", ".join(asg))
        if spec.frees is not None:
            out.append("__CPROVER_frees(%s)" % ", ".join(S(x) for x in spec.frees))
        return out

    def is_cxx_ref(self, f, pn):
        idx = [n for (n, _) in f.params].index(pn)
        if f.is_method:
            if idx == 0:
                return True
            idx -= 1
        if idx < len(f.cxx_params):
            return parse_type(f.cxx_params[idx]).kind == "ref"
        return False

    def loop_annotations(self, spec):
        ann = {}
        for lid, l in spec.loops.items():
            a = []
            if "assigns" in l:
                a.append("__CPROVER_assigns(%s)" % ", ".join(l["assigns"]))
            for inv in l.get("invariant", []):
                a.append("__CPROVER_loop_invariant(%s)" % c_expr(inv))
            if "decreases" in l:
                a.append("__CPROVER_decreases(%s)" % l["decreases"])
            ann[lid] = a
        return ann

    def flatten(self, ty, cpath, name, out, arr_n=None):
        """flatten object of C-level type ty into scalar leaves: out gets (inname, ctype, c-lvalue-path, Ty)"""
        tr = self.tr
        if ty.kind == "rec" and ty.name in tr.ast.Rname:
            cn = tr.need_record(ty.name)
            info = tr.rec_info.get(cn)
            if info is None:
                raise ExtractionBreak("cannot flatten opaque record " + cn)
            for (fname, fty, _) in info["fields"]:
                self.flatten(tr.lower(fty), cpath + "." + fname, name + "_" + fname, out)
            return
        if ty.kind == "arr":
            for i in range(ty.n):
                self.flatten(ty.to, "%s[%d]" % (cpath, i), "%s_%d" % (name, i), out)
            return
        if ty.kind == "ptr":
            out.append((name, None, cpath, ty))   # pointer leaf: harness decides
            return
        out.append((name, tr.ctype(ty), cpath, ty))

    def auto_harness(self, spec, f):
        """returns (harness C text, inputs description) ; inputs: list of dicts for replay"""
        tr = self.tr
        L = []
        inputs = []   # (in-name, ctype, path expression on harness objects)
        objs = []     # (objname, ctype text, param name, array n)
        call_args = []
        ptr_params = []
        for (pn, pt) in f.params:
            if pt.kind == "ptr" and pt.to.kind != "func":
                n = spec.arrays.get(pn)
                et = pt.to
                if et.kind == "builtin" and et.name == "void":
                    # untyped memory: null, or a heap block of symbolic length
                    L.append("  _Bool in_%s_isnull = nondet__Bool(); unsigned long in_%s_len = nondet_unsigned_long(); __CPROVER_assume(in_%s_len <= %d);" % (pn, pn, pn, spec.extra.get("max_bytes", 1000000)))
                    L.append("  void *p_%s = in_%s_isnull ? (void *)0 : verif_malloc(in_%s_len);" % (pn, pn, pn))
                    inputs.append(dict(name="in_%s_isnull" % pn, ctype="_Bool"))
                    inputs.append(dict(name="in_%s_len" % pn, ctype="unsigned long"))
                    call_args.append("p_" + pn)
                    continue
                oname = "o_" + pn
                if n is None:
                    L.append("  %s;" % tr.cdecl(et, oname))
                    leaves = []
                    self.flatten(et, oname, "in_" + pn, leaves)
                else:
                    L.append("  %s;" % tr.cdecl(Ty("arr", to=et, n=n), oname))
                    leaves = []
                    self.flatten(Ty("arr", to=et, n=n), oname, "in_" + pn, leaves)
                for (iname, cty, path, lty) in leaves:
                    if cty is None:
                        L.append("  %s = (void*)0; /* pointer leaf: null unless a custom harness sets it */" % path)
                        continue
                    L.append("  %s %s = nondet_%s(); %s = %s;" % (cty, iname, cxx2c.sanitize(cty), path, iname))
                    inputs.append(dict(name=iname, ctype=cty, path=path))
                objs.append((oname, et, pn, n))
                ptr_params.append((pn, et, n))
                L.append("  %s = %s;" % (tr.cdecl(pt, "p_" + pn), ("&" + oname) if n is None else oname))
                call_args.append("p_" + pn)
            elif pt.kind == "ptr":
                raise ExtractionBreak("auto harness: function pointer parameter")
            elif pt.kind == "rec":
                oname = "o_" + pn
                L.append("  %s;" % tr.cdecl(pt, oname))
                leaves = []
                self.flatten(pt, oname, "in_" + pn, leaves)
                for (iname, cty, path, lty) in leaves:
                    if cty is None:
                        L.append("  %s = (void*)0;" % path)
                        continue
                    L.append("  %s %s = nondet_%s(); %s = %s;" % (cty, iname, cxx2c.sanitize(cty), path, iname))
                    inputs.append(dict(name=iname, ctype=cty, path=path))
                call_args.append(oname)
            else:
                cty = tr.ctype(pt)
                L.append("  %s in_%s = nondet_%s();" % (cty, pn, cxx2c.sanitize(cty)))
                inputs.append(dict(name="in_" + pn, ctype=cty, path=None, param=pn))
                call_args.append("in_" + pn)
        # aliasing among same-typed pointer params
        aliases = []
        if not spec.noalias:
            for i in range(len(ptr_params)):
                for j in range(i):
                    (pa, ta, na), (pb, tb, nb) = ptr_params[i], ptr_params[j]
                    if ta.key() == tb.key() and na == nb:
                        if spec.alias is not None and (pa, pb) not in spec.alias and (pb, pa) not in spec.alias:
                            continue
                        nm = "in_alias_%s_%s" % (pa, pb)
                        L.append("  _Bool %s = nondet__Bool(); if (%s) p_%s = p_%s;" % (nm, nm, pa, pb))
                        inputs.append(dict(name=nm, ctype="_Bool", alias=(pa, pb)))
                        aliases.append((pa, pb))
        for (nm, (lo, hi)) in spec.in_ranges.items():
            L.append("  __CPROVER_assume(%s >= %s && %s <= %s);" % (nm, lo, nm, hi))
        L.append("  verif_lib_anchor();")
        L.append("  __verif_exc = 0;")
        names = [n for (n, _) in f.params]
        AT = lambda t: re.sub(r"@(\d+)", lambda m: names[int(m.group(1))], t)
        if spec.pre_call:
            L.append(AT(spec.pre_call))
        rt = f.ret
        call = "%s(%s)" % (f.cname, ", ".join(call_args))
        if rt.kind == "builtin" and rt.name == "void":
            L.append("  %s;" % call)
        else:
            L.append("  %s = %s;" % (tr.cdecl(rt, "ret"), call))
        if spec.post_call:
            L.append(AT(spec.post_call))
        L.append("  __CPROVER_assert(0, \"VERIF_CANARY reachable end of harness\");")
        txt = "void h_%s(void)\n{\n%s\n}\n" % (f.cname, "\n".join(L))
        return txt, inputs

    def nondet_decls(self):
        tys = ["_Bool", "char", "signed char", "unsigned char", "short", "unsigned short", "int", "unsigned int", "long",
               "unsigned long", "long long", "unsigned long long", "float", "double"]
        return "\n".join("%s nondet_%s(void);" % (t, cxx2c.sanitize(t)) for t in tys) + "\n"

    def build_c(self, target, workdir):
        """C file for enforcing contract of function `target` (or proving lemma `target`).
        Returns dict(job description)."""
        tr = self.tr
        is_lemma = target in self.lemmas
        spec = self.lemmas[target] if is_lemma else self.specs[target]
        contract_fns = set(s.fname for n, s in self.specs.items() if s.primary)
        key = target
        if not is_lemma:
            target = spec.fname
        if is_lemma:
            roots = list(spec.uses)
            direct = set(spec.uses)
        else:
            roots = [target] + list(spec.extra.get("harness_calls", ()))   # functions a hand-written harness calls besides the target
            direct = None
        stop = set(n for n in contract_fns if n not in spec.inline and n != target)
        order = self.closure(roots, stop, follow_roots=not is_lemma)
        # which contract-bearing functions are actually called (replaced)
        replaced = []
        for n in order:
            if n in stop and (is_lemma or n != target):
                replaced.append(n)
        if not is_lemma and spec.replace is not None:
            replaced = [n for n in replaced if n in spec.replace]
        parts = []
        parts.append('#include "verif_prelude.h"\n')
        parts.append("int __verif_exc;\nunsigned long verif_atomic_ops;\nunsigned long verif_gi, verif_gj, verif_hi, verif_hj, verif_mm;\nunsigned long verif_sp_dest_i, verif_sp_dest_j, verif_sp_src_i, verif_sp_src_j, verif_sp_kept;\n")
        parts.append(self.nondet_decls())
        # records/globals are global to the translator: emit all that exist (cheap)
        body_parts = []
        has_inlined_loops = False
        ens_lines = {}
        protos = []
        fn_texts = []
        linemap = {}
        for n in order:
            f = tr.funcs[n]
            s = self.specs.get(n)
            if n == target and not is_lemma:
                s = spec
            if n in replaced or (n == target and not is_lemma):
                lines = []
                ct = self.contract_text(s, f, lines)
                ann = self.loop_annotations(s) if n == target else None
                if n in replaced:
                    # replaced by its contract: declaration + contract only (the body is not part of this proof)
                    text = "%s\n%s;\n" % (tr.signature(f), "\n".join(ct))
                else:
                    text = tr.function_text(f, contract="\n".join(ct) + "\n", loopann=ann, ghost_entry=[self.subst_params(g, f) for g in s.extra.get("ghost_entry", ())])
                ens_lines[n] = (lines, ct)
                fn_texts.append((n, text))
            elif n in tr.opts.get("stub_bodies", ()):
                pass   # defined by self.stubs
            else:
                # not under (replaced) contract in this proof: body is analysed; its own loop contracts still apply
                s2 = self.specs.get(n)
                ann2 = self.loop_annotations(s2) if (s2 is not None and s2.loops) else None
                if ann2:
                    has_inlined_loops = True
                text = tr.function_text(f, static=False, loopann=ann2)
                fn_texts.append((n, text))
            protos.append(tr.signature(f) + ";")
        exc_defs = "".join("#define EXC_%s %d\n" % (cxx2c.sanitize(c), k) for c, k in getattr(tr, "exc_classes", {}).items())
        std_text = ""
        std_contracts = ""
        stdl = getattr(tr, "stdlib", None)
        if stdl is not None:
            std_text = "".join((v() if callable(v) else v) for v in stdl.text.values())
            used = set()
            for n in order:
                f = tr.funcs.get(n)
                if f is not None and n not in replaced:
                    used.update(c for c in f.calls if c in stdl.contracts)
            # (model helper texts may call contract functions too; declare all that exist)
            for cn, decl in stdl.contracts.items():
                std_contracts += decl + ";\n"
                if cn in used:
                    replaced.append(cn)
        # prototypes of every extracted function (model texts may refer to functions outside this proof's closure)
        inorder = set(order)
        for n2, f2 in tr.funcs.items():
            if f2 is not None and n2 not in inorder:
                protos.append(tr.signature(f2) + ";")
        head = "".join(parts) + exc_defs + self.opts.get("pre_records", "") + tr.records_text() + "\n".join(tr.globals.values()) + "\n" + "\n".join(protos) + "\n" + std_contracts + std_text + "\n" + self.stubs + "\n" + self.helpers + "\n"
        text = head
        for n, t in fn_texts:
            start = text.count("\n") + 1
            text += t + "\n"
            if n in ens_lines:
                lines, ct = ens_lines[n]
                # contract lines start on the line after the signature
                for (idx, lab) in lines:
                    linemap[(n, start + 1 + idx)] = lab
        inputs = []
        if is_lemma:
            htxt, inputs = self.lemma_harness(spec)
            hname = "h_" + target
        else:
            f = tr.funcs[target]
            if spec.harness:
                htxt, inputs = spec.harness(self, spec, f) if callable(spec.harness) else (spec.harness, [])
            else:
                htxt, inputs = self.auto_harness(spec, f)
            hname = "h_" + target
        hstart = text.count("\n") + 1
        text += htxt
        cfile = os.path.join(workdir, "%s__%s.c" % (self.name, key.replace("#", "__")))
        with open(cfile, "w") as fh:
            fh.write(text)
        # must-fire rules
        fallback_unwind = None
        if not is_lemma:
            f = tr.funcs[target]
            for r, cnt in spec.must_fire.items():
                if f.rules.get(r, 0) < cnt:
                    raise ExtractionBreak("function %s: must-fire rule '%s' fired %d < %d times" % (target, r, f.rules.get(r, 0), cnt))
            for lid in spec.loops:
                if lid > f.loops:
                    raise ExtractionBreak("function %s: loop contract for loop %d but only %d loops" % (target, lid, f.loops))
            if f.loops and not spec.loops and not spec.extra.get("unwind"):
                # a loop the contracts do not know (the code changed): bounded attempt instead of giving up on the whole property --
                # failures on paths inside the bound are real; if the loop exceeds the bound the unwinding assertion makes the result inconclusive
                fallback_unwind = 6
        has_loops = ((not is_lemma) and (bool(spec.loops) or bool(spec.extra.get("apply_loops")))) or has_inlined_loops
        return dict(unit=self.name, target=key, fname=target, cfile=cfile, harness=hname, enforce=None if is_lemma else target,
                    replaced=replaced, loops=has_loops, loops_optional=((not is_lemma) and spec.extra.get("apply_loops") == "auto" and not spec.loops and not has_inlined_loops), unwind=(None if is_lemma else (spec.extra.get("unwind") or fallback_unwind)), fallback_bounded=bool(fallback_unwind), linemap=linemap, inputs=inputs, spec=spec, is_lemma=is_lemma,
                    hstart=hstart, functions=order, text=text, rec=(not is_lemma and spec.rec))

    def lemma_harness(self, lem):
        tr = self.tr
        L = []
        inputs = []
        for (cty, pn) in lem.params:
            ty = self.ctype_to_ty(cty)
            n = lem.arrays.get(pn)
            oname = pn
            leaves = []
            if n is not None:
                ty = Ty("arr", to=ty, n=n)
            L.append("  %s;" % tr.cdecl(ty, oname))
            self.flatten(ty, oname, "in_" + pn, leaves)
            for (iname, c, path, lty) in leaves:
                if c is None:
                    L.append("  %s = (void*)0;" % path)
                    continue
                L.append("  %s %s = nondet_%s(); %s = %s;" % (c, iname, cxx2c.sanitize(c), path, iname))
                inputs.append(dict(name=iname, ctype=c, path=path))
        L.append("  verif_lib_anchor();")
        L.append("  __verif_exc = 0;")
        for r in lem.requires:
            L.append("  __CPROVER_assume(%s);" % r)
        body = lem.body
        body = re.sub(r"\bASSERT\(\s*(\w+)\s*,", lambda m: "__CPROVER_assert(VERIF_LABEL_%s, " % m.group(1), body)
        # turn ASSERT(label, cond) into __CPROVER_assert(cond, "label")
        body = self.rewrite_asserts(lem.body)
        L.append(body)
        L.append("  __CPROVER_assert(0, \"VERIF_CANARY reachable end of harness\");")
        return "void h_%s(void)\n{\n%s\n}\n" % (lem.name, "\n".join(L)), inputs

    def rewrite_asserts(self, body):
        out = ""
        i = 0
        while True:
            m = re.search(r"\b(ASSERT|ASSUME)\(", body[i:])
            if not m:
                out += body[i:]
                break
            out += body[i:i + m.start()]
            j = i + m.end()
            depth, k = 1, j
            while depth:
                if body[k] == "(":
                    depth += 1
                elif body[k] == ")":
                    depth -= 1
                k += 1
            inner = body[j:k - 1]
            if m.group(1) == "ASSERT":
                lab, _, cond = inner.partition(",")
                out += "__CPROVER_assert(%s, \"LEMMA %s\")" % (cond.strip(), lab.strip())
            else:
                out += "__CPROVER_assume(%s)" % inner
            i = k
        return out

    def ctype_to_ty(self, cty):
        cty = cty.strip()
        inv = {v: k for k, v in self.tr.rec_names.items()}
        if cty in inv:
            return Ty("rec", name=inv[cty])
        b = {v: k for k, v in cxx2c.BUILTIN.items()}
        if cty in b:
            return Ty("builtin", name=b[cty])
        if cty in cxx2c.BUILTIN:
            return Ty("builtin", name=cty)
        raise ExtractionBreak("lemma parameter type '%s' unknown" % cty)
