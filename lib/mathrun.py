"""Math-back-end jobs: VC generation from extracted IR + z3 (DESIGN.md 3.6)."""
import time, os, json, re, subprocess
import z3
import mathvc
from mathvc import Evaluator, State, C, Ptr, View, prove
from astload import ExtractionBreak
from cxx2c import Ty


class MSpec:
    def __init__(self, name, mode, ensures, requires=None, arrays=None, models=None, timeout=60, tier="quick", known=None, alias=None, tol=1e-4, nonneg=False):
        self.name, self.mode, self.ensures = name, mode, ensures
        self.requires = requires
        self.arrays = arrays or {}
        self.models = models or {}
        self.timeout = timeout
        self.tier = tier
        self.known = known or {}
        self.is_lemma = False
        self.tol = tol
        self.solver = "z3-" + ("Real" if mode == "real" else "Int")


def setup_call(U, ms, ev, st):
    """allocate symbolic arguments; returns (args, pre-views, inputs description)"""
    tr = U.tr
    f = tr.funcs[ms.name]
    fr = C([], "frame")
    st.frame = fr
    args, objs = [], []
    for (pn, pt) in f.params:
        if pt.kind == "ptr":
            n = ms.arrays.get(pn)
            et = pt.to
            if n is not None:
                et = Ty("arr", to=et, n=n)
            v = ev.alloc(st, et, "in_" + pn)
            fr.keys.append("o_" + pn)
            st.heap[(fr.id, "o_" + pn)] = v
            if n is not None:
                args.append(Ptr(v, 0))
            else:
                args.append(Ptr(fr, "o_" + pn))
            objs.append(("o_" + pn, et))
        else:
            v = ev.alloc(st, pt, "in_" + pn)
            args.append(v)
            objs.append((None, pt))
    return f, args, objs


def views(st, f, args):
    out = []
    for a in args:
        if isinstance(a, Ptr):
            v = a.get(st) if not (isinstance(a.c, C) and a.c.kind == "array") else a.c
            if isinstance(v, C):
                out.append(View(st, v))
            elif isinstance(a.c, C) and a.c.kind == "array":
                out.append(View(st, a.c))
            else:
                out.append(v)
        elif isinstance(a, C):
            out.append(View(st, a))
        else:
            out.append(a)
    return out


def run_mjob(job):
    U, ms = job["U"], job["spec"]
    t0 = time.time()
    res = dict(unit=U.name, target=ms.name, status="unknown", obligations=[], time=0.0, cmds=["z3 (python API %s) on VCs from lib/mathvc.py, mode=%s" % (z3.get_version_string(), ms.mode)],
               reason="", is_lemma=False, replaced=[], functions=[ms.name], backend="z3-" + ms.mode, solver_time=0.0)
    try:
        ev = Evaluator(U.tr, ms.mode, models=dict(U.math_models, **ms.models))
        st = State()
        f, args, objs = setup_call(U, ms, ev, st)
        pre = st.fork()
        P = views(pre, f, args)
        ret = ev.call(ms.name, list(args), st)
        Q = views(st, f, args)
        RET = View(st, ret) if isinstance(ret, C) else ret
        assumptions = []
        if ms.requires is not None:
            r = ms.requires(P)
            assumptions = list(r) if isinstance(r, (list, tuple)) else [r]
        goals = []
        for lab, fn in ms.ensures.items():
            g = fn(P, RET, Q)
            if isinstance(g, (list, tuple)):
                g = z3.And(*g)
            goals.append(("ensures", lab, g))
        seen = set()
        for (lab, g) in ev.oblig:
            key = lab + str(g)
            if key in seen:
                continue
            seen.add(key)
            goals.append(("safety", lab, g))
        # canary: assumptions + side constraints must be satisfiable
        s = z3.Solver()
        s.set("timeout", 20000)
        for a in assumptions + ev.side:
            s.add(a)
        cr = s.check()
        if cr == z3.unsat:
            res["status"] = "vacuous"
            res["reason"] = "requires + definitional side constraints are unsatisfiable"
            return res
        n_fail = n_unk = 0
        for i, (kind, lab, g) in enumerate(goals):
            stt, model, dt, solver = prove(ev, assumptions, g, timeout_ms=int(ms.timeout * 1000))
            res["solver_time"] += dt
            ob = dict(id="%s.math.%d" % (ms.name, i + 1), kind="math-" + kind, label=lab if kind == "ensures" else None,
                      status={"proved": "SUCCESS", "refuted": "FAILURE", "unknown": "UNKNOWN"}[stt], desc="%s %s [z3 %s, %.2fs]" % (kind, lab, ms.mode, dt), line=0, fn=ms.name)
            if stt == "refuted":
                n_fail += 1
                vals = {}
                for d in model.decls():
                    nm = d.name()
                    if nm.startswith("in_"):
                        v = model[d]
                        vals[nm] = dict(data=str(v), binary=None, type=ms.mode)
                ob["cex"] = vals
                # predicted outputs at the model
                try:
                    ob["predicted"] = predicted_outputs(model, RET, Q, solver)
                except Exception as ex:
                    ob["predicted"] = {"error": str(ex)}
            elif stt == "unknown":
                n_unk += 1
            res["obligations"].append(ob)
        if not goals:
            res["status"] = "error"
            res["reason"] = "no goals"
        elif n_fail:
            res["status"] = "refuted"
        elif n_unk:
            res["status"] = "unknown"
            res["reason"] = "%d goals undecided by z3 within %ss" % (n_unk, ms.timeout)
        else:
            res["status"] = "proved"
    except ExtractionBreak as ex:
        res["status"] = "error"
        res["reason"] = "mathvc: %s" % ex
    res["time"] = time.time() - t0
    return res


def flat_view(prefix, v, out):
    if isinstance(v, View):
        for k in v._c.keys:
            flat_view("%s.%s" % (prefix, k) if not isinstance(k, int) else "%s[%d]" % (prefix, k), getattr(v, k) if not isinstance(k, int) else v[k], out)
    elif v is not None and not isinstance(v, (Ptr,)):
        out.append((prefix, v))


def predicted_outputs(model, RET, Q, solver):
    out = {}
    items = []
    flat_view("RET", RET, items)
    for i, q in enumerate(Q):
        flat_view("post%d" % i, q, items)
    for name, term in items:
        try:
            v = model.eval(mathvc.tonum(term) if not z3.is_bool(term) else term, model_completion=True)
            out[name] = str(v)
        except Exception:
            pass
    return out


class MLemma:
    def __init__(self, name, mode, fn, uses=(), timeout=60, tier="quick", models=None, tol=1e-4):
        self.name, self.mode, self.fn, self.uses = name, mode, fn, list(uses)
        self.timeout, self.tier = timeout, tier
        self.models = models or {}
        self.is_lemma = True
        self.tol = tol
        self.solver = "z3-" + ("Real" if mode == "real" else "Int")


class Ctx:
    """harness context of a math lemma: symbolic objects + calls into the extracted IR"""
    def __init__(self, U, ev):
        self.U, self.ev = U, ev
        self.st = State()
        self.fr = C([], "frame")
        self.st.frame = self.fr
        self.where = {}
        self.called = []

    def new(self, cname, name):
        ty = self.U.ctype_to_ty(cname)
        v = self.ev.alloc(self.st, ty, "in_" + name)
        self.fr.keys.append(name)
        self.st.heap[(self.fr.id, name)] = v
        if isinstance(v, C):
            self.where[v.id] = name
            return View(self.st, v)
        return v

    def scalar(self, name, nonneg=False):
        return self.ev.sym("in_" + name)

    def const(self, v):
        return self.ev.num(v)

    def call(self, fname, *args):
        f = self.U.tr.funcs.get(fname)
        if f is None:
            raise ExtractionBreak("math lemma: no extracted function '%s'" % fname)
        if len(args) != len(f.params):
            raise ExtractionBreak("math lemma: %s expects %d arguments" % (fname, len(f.params)))
        cargs = []
        for (pn, pt), a in zip(f.params, args):
            if isinstance(a, View):
                if pt.kind == "ptr":
                    nm = self.where.get(a._c.id)
                    if nm is None:
                        # temporary aggregate (a call result): park it
                        nm = "!tmp%d" % len(self.fr.keys)
                        self.fr.keys.append(nm)
                        self.st.heap[(self.fr.id, nm)] = a._c
                        self.where[a._c.id] = nm
                    cargs.append(Ptr(self.fr, nm))
                else:
                    cargs.append(a._c)
            elif pt.kind == "ptr" and not isinstance(a, Ptr):
                # scalar passed by const reference
                nm = "!s%d" % len(self.fr.keys)
                self.fr.keys.append(nm)
                self.st.heap[(self.fr.id, nm)] = a if not isinstance(a, (int, float)) else self.ev.num(a)
                cargs.append(Ptr(self.fr, nm))
            else:
                cargs.append(a if not isinstance(a, (int, float)) else self.ev.num(a))
        self.called.append(fname)
        saved = self.st.frame
        r = self.ev.call(fname, cargs, self.st)
        self.st.frame = saved
        if isinstance(r, C):
            return View(self.st, r)
        if isinstance(r, Ptr):
            t = r.get(self.st)
            return View(self.st, t) if isinstance(t, C) else t
        return r


def run_mlemma(job):
    U, ml = job["U"], job["spec"]
    t0 = time.time()
    res = dict(unit=U.name, target=ml.name, status="unknown", obligations=[], time=0.0, cmds=["z3 (python API %s) on VCs from lib/mathvc.py, mode=%s" % (z3.get_version_string(), ml.mode)],
               reason="", is_lemma=True, replaced=[], functions=[], backend="z3-" + ml.mode, solver_time=0.0)
    try:
        ev = Evaluator(U.tr, ml.mode, models=dict(U.math_models, **ml.models))
        ctx = Ctx(U, ev)
        assumptions, goals = ml.fn(ctx)
        res["functions"] = sorted(set(ctx.called))
        assumptions = list(assumptions)
        s = z3.Solver()
        s.set("timeout", 20000)
        for a in assumptions + ev.side:
            s.add(a)
        if s.check() == z3.unsat:
            res["status"] = "vacuous"
            res["reason"] = "lemma hypotheses + definitional side constraints are unsatisfiable"
            return res
        n_fail = n_unk = 0
        allgoals = [("lemma", lab, g) for lab, g in goals.items()]
        seen = set()
        if job.get("check_side", True):
            for (lab, g) in ev.oblig:
                key = lab + str(g)
                if key not in seen:
                    seen.add(key)
                    allgoals.append(("safety", lab, g))
        for i, (kind, lab, g) in enumerate(allgoals):
            if isinstance(g, (list, tuple)):
                g = z3.And(*g)
            stt, model, dt, solver = prove(ev, assumptions, g, timeout_ms=int(ml.timeout * 1000))
            res["solver_time"] += dt
            ob = dict(id="%s.math.%d" % (ml.name, i + 1), kind="math-" + kind, label=lab if kind == "lemma" else None,
                      status={"proved": "SUCCESS", "refuted": "FAILURE", "unknown": "UNKNOWN"}[stt], desc="%s %s [z3 %s, %.2fs]" % (kind, lab, ml.mode, dt), line=0, fn=ml.name)
            if stt == "refuted":
                n_fail += 1
                ob["cex"] = {d.name(): dict(data=str(model[d]), binary=None, type=ml.mode) for d in model.decls() if d.name().startswith("in_")}
            elif stt == "unknown":
                n_unk += 1
            res["obligations"].append(ob)
        if n_fail:
            res["status"] = "refuted"
        elif n_unk:
            res["status"] = "unknown"
            res["reason"] = "%d goals undecided by z3 within %ss" % (n_unk, ml.timeout)
        else:
            res["status"] = "proved"
    except ExtractionBreak as ex:
        res["status"] = "error"
        res["reason"] = "mathvc: %s" % ex
    res["time"] = time.time() - t0
    return res
