"""Math-back-end jobs: VC generation from extracted IR + z3 (DESIGN.md 3.6)."""
import time, os, json, re, subprocess
import z3
import mathvc
from mathvc import Evaluator, State, C, Ptr, View, prove
from astload import ExtractionBreak
from cxx2c import Ty


class MSpec:
    def __init__(self, name, mode, ensures, requires=None, arrays=None, models=None, timeout=60, tier="quick", known=None, alias=None, tol=1e-4, nonneg=False, ranges=False, replay_native=None, exact_f32=False, prefer=None, unroll=0, rounding=False, rounding_types=()):
        self.ranges = ranges
        self.unroll = unroll
        self.rounding, self.rounding_types = rounding, rounding_types
        self.prefer = prefer
        self.exact_f32 = exact_f32
        self.replay_native = replay_native
        self.name, self.mode, self.ensures = name, mode, ensures
        self.requires = requires
        self.arrays = arrays or {}
        self.models = models or {}
        self.timeout = timeout
        self.tier = tier
        self.known = known or {}
        self.is_lemma = False
        self.tol = tol
        self.solver = "z3-" + ("Real" if mode == "real" else "Int")


def setup_call(U, ms, ev, st):
    """allocate symbolic arguments; returns (args, pre-views, inputs description)"""
    tr = U.tr
    f = tr.funcs[ms.name]
    fr = C([], "frame")
    st.frame = fr
    args, objs = [], []
    for (pn, pt) in f.params:
        if pt.kind == "ptr":
            n = ms.arrays.get(pn)
            et = pt.to
            if n is not None:
                et = Ty("arr", to=et, n=n)
            v = ev.alloc(st, et, "in_" + pn)
            fr.keys.append("o_" + pn)
            st.heap[(fr.id, "o_" + pn)] = v
            if n is not None:
                args.append(Ptr(v, 0))
            else:
                args.append(Ptr(fr, "o_" + pn))
            objs.append(("o_" + pn, et))
        else:
            v = ev.alloc(st, pt, "in_" + pn)
            args.append(v)
            objs.append((None, pt))
    return f, args, objs


def views(st, f, args):
    out = []
    for a in args:
        if isinstance(a, Ptr):
            v = a.get(st) if not (isinstance(a.c, C) and a.c.kind == "array") else a.c
            if isinstance(v, C):
                out.append(View(st, v))
            elif isinstance(a.c, C) and a.c.kind == "array":
                out.append(View(st, a.c))
            else:
                out.append(v)
        elif isinstance(a, C):
            out.append(View(st, a))
        else:
            out.append(a)
    return out


def run_mjob(job):
    U, ms = job["U"], job["spec"]
    t0 = time.time()
    res = dict(unit=U.name, target=ms.name, status="unknown", obligations=[], time=0.0, cmds=["z3 (python API %s) on VCs from lib/mathvc.py, mode=%s" % (z3.get_version_string(), ms.mode)],
               reason="", is_lemma=False, replaced=[], functions=[ms.name], backend="z3-" + ms.mode, solver_time=0.0)
    try:
        ev = Evaluator(U.tr, ms.mode, models=dict(U.math_models, **ms.models), ranges=ms.ranges)
        ev.unroll = getattr(ms, 'unroll', 0)
        ev.rounding, ev.rounding_types = getattr(ms, 'rounding', False), getattr(ms, 'rounding_types', ())
        ev.exact_f32 = getattr(ms, 'exact_f32', False)
        st = State()
        f, args, objs = setup_call(U, ms, ev, st)
        pre = st.fork()
        P = views(pre, f, args)
        ret = ev.call(ms.name, list(args), st)
        Q = views(st, f, args)
        RET = View(st, ret) if isinstance(ret, C) else ret
        assumptions = []
        if ms.requires is not None:
            r = ms.requires(P)
            assumptions = list(r) if isinstance(r, (list, tuple)) else [r]
        goals = []
        G = {k[1]: v for k, v in st.heap.items() if k[0] == ev.globals.id}   # ghost/global variables written by models
        for lab, fn in ms.ensures.items():
            g = fn(P, RET, Q, G) if fn.__code__.co_argcount >= 4 else fn(P, RET, Q)
            if isinstance(g, (list, tuple)):
                g = z3.And(*g)
            goals.append(("ensures", lab, g))
        seen = set()
        for (lab, g) in ev.oblig:
            key = lab + str(g)
            if key in seen:
                continue
            seen.add(key)
            goals.append(("safety", lab, g))
        # canary: assumptions + side constraints must be satisfiable
        s = z3.Solver()
        s.set("timeout", 20000)
        for a in assumptions + ev.side:
            s.add(a)
        cr = s.check()
        if cr == z3.unsat:
            res["status"] = "vacuous"
            res["reason"] = "requires + definitional side constraints are unsatisfiable"
            return res
        n_fail = n_unk = 0
        for i, (kind, lab, g) in enumerate(goals):
            stt, model, dt, solver = prove(ev, assumptions, g, timeout_ms=int(ms.timeout * 1000))
            res["solver_time"] += dt
            ob = dict(id="%s.math.%d" % (ms.name, i + 1), kind="math-" + kind, label=lab if kind == "ensures" else None,
                      status={"proved": "SUCCESS", "refuted": "FAILURE", "unknown": "UNKNOWN"}[stt], desc="%s %s [z3 %s, %.2fs]" % (kind, lab, ms.mode, dt), line=0, fn=ms.name)
            if stt == "refuted":
                n_fail += 1
                if getattr(ms, "prefer", None) is not None:
                    # a counterexample away from the rounding boundary replays more reliably: ask for one, keep the first otherwise
                    try:
                        s2 = z3.Solver()
                        s2.set("timeout", 20000)
                        for a in assumptions + ev.side:
                            s2.add(a)
                        s2.add(z3.Not(g))
                        s2.add(ms.prefer(P, RET, Q, G))
                        if s2.check() == z3.sat:
                            model = s2.model()
                    except Exception:
                        pass
                vals = {}
                for d in model.decls():
                    nm = d.name()
                    if nm.startswith("in_"):
                        v = model[d]
                        vals[nm] = dict(data=str(v), binary=None, type=ms.mode)
                ob["cex"] = vals
                # predicted outputs at the model
                try:
                    ob["predicted"] = predicted_outputs(model, RET, Q, solver)
                except Exception as ex:
                    ob["predicted"] = {"error": str(ex)}
            elif stt == "unknown":
                n_unk += 1
            res["obligations"].append(ob)
        if not goals:
            res["status"] = "error"
            res["reason"] = "no goals"
        elif n_fail:
            res["status"] = "refuted"
        elif n_unk:
            res["status"] = "unknown"
            res["reason"] = "%d goals undecided by z3 within %ss" % (n_unk, ms.timeout)
        else:
            res["status"] = "proved"
    except ExtractionBreak as ex:
        res["status"] = "error"
        res["reason"] = "mathvc: %s" % ex
    res["time"] = time.time() - t0
    return res


def flat_view(prefix, v, out):
    if isinstance(v, View):
        for k in v._c.keys:
            flat_view("%s.%s" % (prefix, k) if not isinstance(k, int) else "%s[%d]" % (prefix, k), getattr(v, k) if not isinstance(k, int) else v[k], out)
    elif v is not None and not isinstance(v, (Ptr,)):
        out.append((prefix, v))


def predicted_outputs(model, RET, Q, solver):
    out = {}
    items = []
    flat_view("RET", RET, items)
    for i, q in enumerate(Q):
        flat_view("post%d" % i, q, items)
    for name, term in items:
        try:
            v = model.eval(mathvc.tonum(term) if not z3.is_bool(term) else term, model_completion=True)
            out[name] = str(v)
        except Exception:
            pass
    return out


class MLemma:
    def __init__(self, name, mode, fn, uses=(), timeout=60, tier="quick", models=None, tol=1e-4, ranges=False, refute_only=False, unroll=0):
        self.extra = {"refute_only": refute_only}
        self.name, self.mode, self.fn, self.uses = name, mode, fn, list(uses)
        self.timeout, self.tier = timeout, tier
        self.ranges = ranges
        self.unroll = unroll
        self.models = models or {}
        self.is_lemma = True
        self.tol = tol
        self.solver = "z3-" + ("Real" if mode == "real" else "Int")


class Ctx:
    """harness context of a math lemma: symbolic objects + calls into the extracted IR"""
    def __init__(self, U, ev):
        self.U, self.ev = U, ev
        self.st = State()
        self.fr = C([], "frame")
        self.st.frame = self.fr
        self.where = {}
        self.called = []
        self.calls = []      # call graph for replay: (fname, [arg descriptors], result view / scalar, is_ctor)
        self.inputs = []     # (cname, name) of symbolic objects ; scalars: (None, name)

    def new(self, cname, name):
        ty = self.U.ctype_to_ty(cname)
        v = self.ev.alloc(self.st, ty, "in_" + name)
        self.fr.keys.append(name)
        self.st.heap[(self.fr.id, name)] = v
        self.inputs.append((cname, name))
        if isinstance(v, C):
            self.where[v.id] = name
            return View(self.st, v, name)
        return v

    def scalar(self, name, nonneg=False):
        self.inputs.append((None, name))
        return self.ev.sym("in_" + name)

    def const(self, v):
        return self.ev.num(v)

    def call(self, fname, *args):
        f = self.U.tr.funcs.get(fname)
        if f is None:
            raise ExtractionBreak("math lemma: no extracted function '%s'" % fname)
        params = list(f.params)
        result_obj = None
        pre = []
        if f.kind == "CXXConstructorDecl":
            # construct into a fresh object
            selfty = params[0][1].to
            v = self.ev.alloc(self.st, selfty, "obj!%d" % len(self.fr.keys), symbolic=False)
            nm = "!obj%d" % len(self.fr.keys)
            self.fr.keys.append(nm)
            self.st.heap[(self.fr.id, nm)] = v
            self.where[v.id] = nm
            result_obj = v
            pre = [Ptr(self.fr, nm)]
            params = params[1:]
        args = list(args)
        while len(args) < len(params):
            pt = params[len(args)][1]
            if pt.kind == "rec":
                args.append(View(self.st, self.ev.alloc(self.st, pt, "tag", symbolic=False)))
            else:
                break
        if len(args) != len(params):
            raise ExtractionBreak("math lemma: %s expects %d arguments" % (fname, len(params)))
        cargs = list(pre)
        desc = []
        for (pn, pt), a in zip(params, args):
            if isinstance(a, View):
                desc.append(("view", a._path, pt.kind == "ptr"))
            else:
                desc.append(("scalar", a, pt.kind == "ptr"))
        for (pn, pt), a in zip(params, args):
            if isinstance(a, View):
                if pt.kind == "ptr":
                    nm = self.where.get(a._c.id)
                    if nm is None:
                        # temporary aggregate (a call result): park it
                        nm = "!tmp%d" % len(self.fr.keys)
                        self.fr.keys.append(nm)
                        self.st.heap[(self.fr.id, nm)] = a._c
                        self.where[a._c.id] = nm
                    cargs.append(Ptr(self.fr, nm))
                else:
                    cargs.append(a._c)
            elif pt.kind == "ptr" and not isinstance(a, Ptr):
                # scalar passed by const reference
                nm = "!s%d" % len(self.fr.keys)
                self.fr.keys.append(nm)
                self.st.heap[(self.fr.id, nm)] = a if not isinstance(a, (int, float)) else self.ev.num(a)
                cargs.append(Ptr(self.fr, nm))
            else:
                cargs.append(a if not isinstance(a, (int, float)) else self.ev.num(a))
        self.called.append(fname)
        saved = self.st.frame
        r = self.ev.call(fname, cargs, self.st)
        self.st.frame = saved
        rname = "r%d" % len(self.calls)
        if result_obj is not None:
            out = View(self.st, result_obj, rname)
        elif isinstance(r, C):
            out = View(self.st, r, rname)
        elif isinstance(r, Ptr):
            t = r.get(self.st)
            out = View(self.st, t, rname) if isinstance(t, C) else t
        else:
            out = r
        self.calls.append((fname, desc, out, result_obj is not None))
        return out


def run_mlemma(job):
    U, ml = job["U"], job["spec"]
    t0 = time.time()
    res = dict(unit=U.name, target=ml.name, status="unknown", obligations=[], time=0.0, cmds=["z3 (python API %s) on VCs from lib/mathvc.py, mode=%s" % (z3.get_version_string(), ml.mode)],
               reason="", is_lemma=True, replaced=[], functions=[], backend="z3-" + ml.mode, solver_time=0.0)
    try:
        ev = Evaluator(U.tr, ml.mode, models=dict(U.math_models, **ml.models), ranges=ml.ranges)
        ev.unroll = getattr(ml, 'unroll', 0)
        ctx = Ctx(U, ev)
        assumptions, goals = ml.fn(ctx)
        res["functions"] = sorted(set(ctx.called))
        assumptions = list(assumptions)
        s = z3.Solver()
        s.set("timeout", 20000)
        for a in assumptions + ev.side:
            s.add(a)
        if s.check() == z3.unsat:
            res["status"] = "vacuous"
            res["reason"] = "lemma hypotheses + definitional side constraints are unsatisfiable"
            return res
        n_fail = n_unk = 0
        allgoals = [("lemma", lab, g) for lab, g in goals.items()]
        seen = set()
        if job.get("check_side", True):
            for (lab, g) in ev.oblig:
                key = lab + str(g)
                if key not in seen:
                    seen.add(key)
                    allgoals.append(("safety", lab, g))
        proved_facts = []
        for i, (kind, lab, g) in enumerate(allgoals):
            if isinstance(g, (list, tuple)):
                g = z3.And(*g)
            stt, model, dt, solver = prove(ev, assumptions, g, timeout_ms=int(ml.timeout * 1000 / 2))
            res["solver_time"] += dt
            if stt == "unknown" and proved_facts:
                # retry with the facts already proved (about the same terms, under the same hypotheses) as lemmas
                stt, model, dt, solver = prove(ev, assumptions + proved_facts, g, timeout_ms=int(ml.timeout * 1000 / 2))
                res["solver_time"] += dt
            if stt == "proved":
                proved_facts.append(g)
            ob = dict(id="%s.math.%d" % (ml.name, i + 1), kind="math-" + kind, label=lab if kind == "lemma" else None,
                      status={"proved": "SUCCESS", "refuted": "FAILURE", "unknown": "UNKNOWN"}[stt], desc="%s %s [z3 %s, %.2fs]" % (kind, lab, ml.mode, dt), line=0, fn=ml.name)
            if stt == "refuted":
                n_fail += 1
                ob["cex"] = {d.name(): dict(data=str(model[d]), binary=None, type=ml.mode) for d in model.decls() if d.name().startswith("in_")}
                try:
                    ob["callgraph"] = lemma_callgraph(ctx, model)
                except Exception as ex:
                    ob["callgraph"] = {"error": repr(ex)}
            elif stt == "unknown":
                n_unk += 1
            res["obligations"].append(ob)
        if n_fail:
            res["status"] = "refuted"
        elif n_unk:
            res["status"] = "unknown"
            res["reason"] = "%d goals undecided by z3 within %ss" % (n_unk, ml.timeout)
        else:
            res["status"] = "proved"
    except ExtractionBreak as ex:
        res["status"] = "error"
        res["reason"] = "mathvc: %s" % ex
    res["time"] = time.time() - t0
    return res


def lemma_callgraph(ctx, model):
    """picklable description of the lemma's calls with the outputs the verifier predicts at the model"""
    def mval(t):
        if isinstance(t, (int, float)):
            return str(t)
        if t is None:
            return None
        return str(model.eval(mathvc.tonum(t) if not z3.is_bool(t) else t, model_completion=True))
    calls = []
    for (fname, desc, out, is_ctor) in ctx.calls:
        args = []
        for d in desc:
            if d[0] == "view":
                args.append(dict(kind="view", path=d[1], byptr=d[2]))
            else:
                args.append(dict(kind="scalar", value=mval(d[1]), byptr=d[2]))
        pred = {}
        items = []
        if isinstance(out, View):
            flat_view(out._path, out, items)
        elif out is not None:
            items.append(("r%d" % len(calls), out))
        for nm, t in items:
            try:
                pred[nm] = mval(t)
            except Exception:
                pass
        calls.append(dict(fname=fname, args=args, predicted=pred, is_ctor=is_ctor, scalar_result=not isinstance(out, View)))
    return dict(inputs=[list(i) for i in ctx.inputs], calls=calls)
