"""goto-cc / goto-instrument --dfcc / cbmc wrapper (DESIGN.md 3, 3.4)."""
import json, os, re, subprocess, time, resource

VERIF = os.path.dirname(os.path.dirname(os.path.abspath(__file__)))
INC = os.path.join(VERIF, "include")

DEFAULT_CHECKS = ["--bounds-check", "--pointer-check", "--signed-overflow-check",
                  "--div-by-zero-check", "--undefined-shift-check", "--pointer-primitive-check"]
# checks cbmc 6 enables by default that we switch off explicitly where they are not UB in C++
DEFAULT_OFF = ["--no-built-in-assertions"]


def _limit(mem_gb):
    def f():
        resource.setrlimit(resource.RLIMIT_AS, (int(mem_gb * 2**30), int(mem_gb * 2**30)))
    return f


def run(cmd, timeout, mem_gb=12, cwd=None):
    t0 = time.time()
    try:
        p = subprocess.run(cmd, stdout=subprocess.PIPE, stderr=subprocess.PIPE, text=True, timeout=timeout,
                           preexec_fn=_limit(mem_gb), cwd=cwd)
        return p.returncode, p.stdout, p.stderr, time.time() - t0
    except subprocess.TimeoutExpired as e:
        so = e.stdout.decode() if isinstance(e.stdout, bytes) else (e.stdout or "")
        se = e.stderr.decode() if isinstance(e.stderr, bytes) else (e.stderr or "")
        return -9, so, se + "\nTIMEOUT", time.time() - t0


def run_job(job):
    """job: dict from Unit.build_c. returns result dict"""
    spec = job["spec"]
    cfile = job["cfile"]
    base = cfile[:-2]
    res = dict(unit=job["unit"], target=job["target"], status="unknown", obligations=[], time=0.0, cmds=[], reason="",
               is_lemma=job["is_lemma"], replaced=job["replaced"], functions=job["functions"])
    t0 = time.time()
    h = job["harness"]
    cmd1 = ["goto-cc", "-DVERIF_CBMC", "-I" + INC, "--function", h, cfile, "-o", base + ".a.gb"]
    rc, so, se, dt = run(cmd1, 120)
    res["cmds"].append(" ".join(cmd1))
    if rc != 0:
        res["status"] = "error"
        res["reason"] = "goto-cc failed: " + (se + so)[-3000:]
        return res
    if job.get("add_library", True):
        cmdl = ["goto-instrument", "--add-library", base + ".a.gb", base + ".a.gb"]
        rc, so, se, dt = run(cmdl, 120)
        if rc != 0:
            res["status"] = "error"
            res["reason"] = "goto-instrument --add-library failed: " + (se + so)[-2000:]
            return res
    cmd2 = ["goto-instrument", "--dfcc", h]
    if job["enforce"]:
        cmd2 += ["--enforce-contract-rec" if job.get("rec") else "--enforce-contract", job["enforce"]]
    for r in job["replaced"]:
        cmd2 += ["--replace-call-with-contract", r]
    if job["loops"]:
        cmd2 += ["--apply-loop-contracts"]
    cmd2 += [base + ".a.gb", base + ".b.gb"]
    rc, so, se, dt = run(cmd2, 300)
    res["cmds"].append(" ".join(cmd2))
    if rc != 0 and "--apply-loop-contracts" in cmd2 and "Found loop without contract nested in a loop with a contract" in (se + so):
        # the code acquired a loop the loop contracts do not know, inside a contracted one: goto-instrument refuses. Bounded
        # attempt instead of giving up: no loop contracts at all, every loop unwound 3 times with unwinding assertions --
        # failures inside the bound are real, a loop that needs more iterations makes the function inconclusive
        cmd2 = [c for c in cmd2 if c != "--apply-loop-contracts"]
        rc, so, se, dt = run(cmd2, 300)
        res["cmds"].append(" ".join(cmd2))
        job = dict(job, unwind=3, loops=False)
        res["fallback"] = "loop contracts dropped (new loop without contract inside a contracted loop); bounded unwinding 3"
    if rc != 0:
        res["status"] = "error"
        res["reason"] = "goto-instrument failed: " + (se + so)[-3000:]
        return res
    flags = [f for f in DEFAULT_CHECKS if f not in spec.noflags] + ["--no-" + f[2:] for f in spec.noflags] + list(spec.flags)
    # first run in TEXT mode: --json-ui always builds a counterexample trace for every failed property, and the canary at
    # the end of every harness fails by design -- its trace over symbolic-size objects can take minutes (1.6 s vs 400 s
    # for makeString). Traces are fetched in a second (JSON) run, only for the obligations that failed.
    if job.get("unwind"):
        # an explicit bound replaces the residual-loop guard the spec may carry in its flags
        f2, skip = [], False
        for x in flags:
            if skip:
                skip = False
                continue
            if x == "--unwind":
                skip = True
                continue
            if x == "--unwinding-assertions":
                continue
            f2.append(x)
        flags = f2
    cmd3 = ["cbmc", base + ".b.gb"] + flags
    if job.get("unwind"):
        cmd3 += ["--unwind", str(job["unwind"]), "--unwinding-assertions"]
        res["bounded"] = "unwind %s" % job["unwind"]
    if "--unwind" in cmd3 and not job.get("fallback_bounded"):
        # (not for the bounded fallback of a function with an unknown loop: there the extra unwinding of the library loops made
        #  the search 10x slower -- tb_consume 30 s -> timeout -- and a cut library loop only turns "no failure found" into inconclusive)
        # the loops goto-instrument leaves in its contracts library iterate over the assigns/frees targets of the contracts
        # involved; a small --unwind chosen for the program's own loops must not cut them (that would make the end of the
        # harness unreachable -- caught by the canary, but then nothing is decided)
        nt = len(getattr(spec, "assigns", None) or []) + len(getattr(spec, "frees", None) or []) + 8     # the library loops run over the contracts' targets
        cmd3 += ["--unwindset", ",".join("%s:%d" % (l, max(12, min(24, nt))) for l in (
            "__CPROVER_contracts_write_set_deallocate_freeable.0", "__CPROVER_contracts_write_set_deallocate_freeable.1", "__CPROVER_contracts_write_set_deallocate_freeable.2",
            "__CPROVER_contracts_write_set_check_frees_clause_inclusion.0", "__CPROVER_contracts_write_set_check_assigns_clause_inclusion.0"))]
    if spec.solver:
        cmd3 += [spec.solver] if isinstance(spec.solver, str) else list(spec.solver)
    cmd3 += ["--object-bits", str(spec.objbits or (13 if res.get("fallback") else 10)), "--no-malloc-may-fail"]
    rc, so, se, dt = run(cmd3, spec.timeout)
    res["cmds"].append(" ".join(cmd3))
    res["time"] = time.time() - t0
    res["solver_time"] = dt
    if rc == -9:
        res["status"] = "timeout"
        res["reason"] = "cbmc timeout after %ss" % spec.timeout
        return res
    if rc not in (0, 10):
        # cbmc exits 0 (all proved) or 10 (some property failed); anything else is a crash / out of memory / usage error
        res["status"] = "error"
        res["reason"] = "cbmc terminated abnormally (exit status %s; memory limit 12 GB): %s" % (rc, (se[-600:] or so[-600:]))
        return res
    results = None
    cur_fn, cur_file = "", ""
    head = so
    if "** Results:" in so:
        head, body = so.split("** Results:", 1)
        results = []
        for line in body.split("\n"):
            m = re.match(r"^(\S+) function (\S+)\s*$", line)
            if m:
                cur_file, cur_fn = m.group(1), m.group(2)
                continue
            m = re.match(r"^\[(.+?)\] (?:line (\d+) )?(.*): (SUCCESS|FAILURE|UNKNOWN|ERROR)\s*$", line)
            if m:
                results.append(dict(property=m.group(1), description=m.group(3), status=m.group(4),
                                    sourceLocation=dict(line=m.group(2) or "0", function=cur_fn, file=cur_file)))
    logtxt = head + "\n" + se
    res["log_tail"] = logtxt[-2000:]
    for bad in ("ignoring forall", "ignoring exists", "Parse Error", "SMT2 solver returned error", "error running SMT2"):
        if bad in logtxt:
            res["status"] = "error"
            res["reason"] = "cbmc log contains '%s'" % bad
            return res
    if results is None:
        res["status"] = "error"
        res["reason"] = "no result in cbmc output: " + logtxt[-2000:]
        return res
    failing = [r["property"] for r in results if r["status"] == "FAILURE" and "VERIF_CANARY" not in r.get("description", "")
               and not r["property"].startswith("__CPROVER_") and ".unwind." not in r["property"]]
    if failing:
        cmd4 = [cmd3[0], cmd3[1], "--json-ui", "--trace"] + cmd3[2:]
        for pid in failing[:6]:
            cmd4 += ["--property", pid]
        rc4, so4, se4, dt4 = run(cmd4, min(spec.timeout, 600))
        res["cmds"].append(" ".join(cmd4))
        try:
            traces = {}
            for m in json.loads(so4):
                if "result" in m:
                    for r in m["result"]:
                        if r.get("trace"):
                            traces[r["property"]] = r["trace"]
            for r in results:
                if r["property"] in traces:
                    r["trace"] = traces[r["property"]]
        except Exception:
            pass
    canary_seen = False
    n_fail = n_unknown = n_unwind = 0
    want_loops = job["loops"]
    loop_obl = 0
    for r in results:
        prop = r["property"]
        if (".unwind." in prop or "unwinding assertion" in r.get("description", "")) and r["status"] == "FAILURE":
            # (also inside the contracts library: a cut loop there would make later obligations vacuous)
            n_unwind += 1
            continue
        if prop.startswith("__CPROVER_contracts") or prop.startswith("__CPROVER_"):
            continue
        desc = r.get("description", "")
        st = r["status"]
        loc = r.get("sourceLocation", {})
        line = int(loc.get("line", 0) or 0)
        fn = loc.get("function", "")
        if "VERIF_CANARY" in desc:
            canary_seen = True
            if st != "FAILURE":
                res["canary"] = st
            continue
        label = None
        kind = "safety"
        m = re.match(r"(\w+)\.postcondition\.\d+", prop)
        if m:
            kind = "ensures"
            label = job["linemap"].get((m.group(1), line))
            if label is None:
                label = "ensures@%d" % line
        elif ".precondition" in prop:
            kind = "callee-requires"
        elif ".assigns" in prop:
            kind = "frame"
        elif "loop_invariant" in prop or "loop invariant" in desc:
            kind = "loop-invariant"
            loop_obl += 1
        elif "loop_decreases" in prop or "decreases" in desc or "loop_step_unwinding" in prop:
            kind = "loop"
            loop_obl += 1
        elif prop.endswith(tuple(".assertion.%d" % i for i in range(1, 200))):
            kind = "assertion"
            mm = re.match(r"LEMMA (\w+)", desc)
            if mm:
                kind = "lemma"
                label = mm.group(1)
        if ".unwind." in prop or "unwinding assertion" in desc:
            # a failed unwinding assertion means "bound too small", never a property violation
            if st == "FAILURE":
                n_unwind += 1
            continue
        ob = dict(id=prop, kind=kind, label=label, status=st, desc=desc, line=line, fn=fn)
        if st == "FAILURE":
            n_fail += 1
            tr = r.get("trace", [])
            vals = {}
            for s in tr:
                if s.get("stepType") == "assignment":
                    lhs = s.get("lhs", "")
                    if lhs.startswith("in_") and s.get("sourceLocation", {}).get("function", "").startswith("h_"):
                        v = s.get("value", {})
                        vals[lhs] = dict(data=v.get("data"), binary=v.get("binary"), type=v.get("type"), name=v.get("name"))
            ob["cex"] = vals
        elif st != "SUCCESS":
            n_unknown += 1
        res["obligations"].append(ob)
    if res.get("canary") and not n_fail:
        # (a failed obligation before the end of the harness -- e.g. a callee precondition -- legitimately cuts the path)
        res["status"] = "vacuous"
        res["reason"] = "canary assertion at end of harness is not reachable (status %s): contradictory precondition" % res["canary"]
        return res
    if not canary_seen:
        res["status"] = "error"
        res["reason"] = "canary assertion missing from results"
        return res
    if want_loops and loop_obl == 0 and not job.get("loops_optional"):
        res["status"] = "error"
        res["reason"] = "loop contracts requested but no loop-invariant obligations generated (silently dropped?)"
        return res
    nob = len(res["obligations"])
    if nob == 0:
        res["status"] = "error"
        res["reason"] = "zero obligations generated"
        return res
    if n_fail:
        res["status"] = "refuted"     # (an assertion that fails before a cut loop is a real counterexample)
    elif n_unwind:
        res["status"] = "error"
        res["reason"] = "unwinding assertion failed (%d): a loop without loop contract exceeds the unwind bound for the inputs the harness allows -- inconclusive, not a violation" % n_unwind
    elif n_unknown:
        res["status"] = "unknown"
        res["reason"] = "%d obligations without definite status" % n_unknown
    else:
        res["status"] = "proved"
    return res
