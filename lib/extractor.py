"""Extractor = cxx2c.Translator + models for std:: / libc / exceptions.

Everything in this file that is *not* a translation of /repo code is an
assumption and is reported as such (see MODELS_DOC, collected in evidence)."""
import re
import sys
import os
import cxx2c
from cxx2c import Translator, X, Ty, parse_type, fn_ret_type, deref, addr, BUILTIN, sanitize
from astload import ExtractionBreak, repo_path
import stdlib

LIMITS = {
    # (type, member) -> C text
    ("int", "max"): "2147483647", ("int", "min"): "(-2147483647-1)", ("int", "lowest"): "(-2147483647-1)",
    ("unsigned int", "max"): "4294967295u", ("unsigned int", "min"): "0u", ("unsigned int", "lowest"): "0u",
    ("long", "max"): "9223372036854775807l", ("long", "min"): "(-9223372036854775807l-1)", ("long", "lowest"): "(-9223372036854775807l-1)",
    ("unsigned long", "max"): "18446744073709551615ul", ("unsigned long", "min"): "0ul", ("unsigned long", "lowest"): "0ul",
    ("long long", "max"): "9223372036854775807ll", ("long long", "min"): "(-9223372036854775807ll-1)", ("long long", "lowest"): "(-9223372036854775807ll-1)",
    ("unsigned long long", "max"): "18446744073709551615ull", ("unsigned long long", "min"): "0ull", ("unsigned long long", "lowest"): "0ull",
    ("short", "max"): "((short)32767)", ("short", "min"): "((short)-32768)", ("short", "lowest"): "((short)-32768)",
    ("unsigned short", "max"): "((unsigned short)65535)", ("unsigned short", "min"): "((unsigned short)0)", ("unsigned short", "lowest"): "((unsigned short)0)",
    ("char", "max"): "((char)127)", ("char", "min"): "((char)-128)", ("char", "lowest"): "((char)-128)",
    ("signed char", "max"): "((signed char)127)", ("signed char", "min"): "((signed char)-128)", ("signed char", "lowest"): "((signed char)-128)",
    ("unsigned char", "max"): "((unsigned char)255)", ("unsigned char", "min"): "((unsigned char)0)", ("unsigned char", "lowest"): "((unsigned char)0)",
    ("float", "max"): "3.40282347e+38f", ("float", "min"): "1.17549435e-38f", ("float", "lowest"): "(-3.40282347e+38f)",
    ("float", "infinity"): "__builtin_inff()", ("float", "epsilon"): "1.19209290e-7f", ("float", "quiet_NaN"): "__builtin_nanf(\"\")",
    ("double", "max"): "1.7976931348623157e+308", ("double", "min"): "2.2250738585072014e-308", ("double", "lowest"): "(-1.7976931348623157e+308)",
    ("double", "infinity"): "__builtin_inf()", ("double", "epsilon"): "2.2204460492503131e-16", ("double", "quiet_NaN"): "__builtin_nan(\"\")",
}

SUF = {"float": "f", "double": "", "long double": "l"}

# libm-style functions: C++ name -> base C name (suffix by type); contracts for them are *assumed*
LIBM1 = {"sqrt", "sin", "cos", "tan", "acos", "asin", "atan", "exp", "log", "floor", "ceil", "round", "trunc", "fabs"}
LIBM2 = {"pow", "fmod", "atan2"}


class Extractor(Translator):
    def __init__(self, ast, **kw):
        super().__init__(ast, **kw)
        self.assumed = {}   # model name -> description
        self.exc_classes = {}      # exception class canonical name -> tag number
        self.extern_decls = {}
        self.stdlib = stdlib.StdLib(self)
        self.exc_targets = []      # stack of ("goto", label) inside try blocks
        self.label_n = 0
        self.throws = {}           # function cname -> True if it contains a throw
        cxx2c.TYPE_ALIAS_HOOKS[:] = [self.stdlib.alias]
        cxx2c._tycache.clear()

    # ---------------------------------------------------------------- classification
    def is_external(self, fid):
        info = self.ast.finfo(fid)
        did = self.ast.D.get(fid, {}).get("def", fid)
        node = self.ast.nodes.get(did)
        f = info.get("file", "")
        repo = repo_path().rstrip("/") + "/"
        if f.startswith(repo) or f.startswith(self.opts.get("unit_dir", "\0")):
            return False
        return True

    def assume(self, name, doc):
        self.assumed[name] = doc

    # ---------------------------------------------------------------- calls
    def intercept_call(self, fid, e, args, obj):
        info = self.ast.finfo(fid)
        q = info.get("qname", "")
        if os.environ.get("VERIF_DEBUG_CALLS") and self.cur is not None and os.environ["VERIF_DEBUG_CALLS"] in self.cur.cname:
            sys.stderr.write("CALL in %s: %s [%s]\n" % (self.cur.cname, q, info.get("type")))
        h = self.opts.get("intercept", {}).get(q)
        if h is not None:
            r = h(self, fid, e, args, obj)
            if r is not None:
                return r
        if not self.is_external(fid):
            return None
        return self.model_call(q, fid, info, e, args, obj)

    def model_call(self, q, fid, info, e, args, obj):
        rets, ps = fn_ret_type(info["type"])
        # --- identity functions
        if q in ("std::move", "std::forward", "std::addressof", "std::__addressof"):
            self.rule("std::move/forward->identity")
            a = args[0]
            if q.endswith("addressof"):
                return addr(self.lv(a))
            return self.lv(a)
        # --- std::min / std::max on builtin scalars (two-argument, by const reference, returns reference)
        if q in ("std::min", "std::max") and len(args) == 2:
            pt = parse_type(ps[0])
            if pt.kind == "ref" and pt.to.kind == "builtin":
                t = pt.to.name
                fn = "verif_std_%s_%s" % (q[5:], sanitize(t))
                self.cur.calls[fn] = True
                self.rule("std::min/max model")
                self.assume("std::min/std::max", "reference C: min(a,b) = (b<a)?b:a ; max(a,b) = (a<b)?b:a, returning a reference to the selected argument (libstdc++ definition)")
                c = X("call", fn, [self.bind_ref(args[0]), self.bind_ref(args[1])], ty=Ty("ptr", to=pt.to))
                return deref(c)
        m = re.match(r"std::numeric_limits<(.+)>::(\w+)$", q)
        if m and (m.group(1), m.group(2)) in LIMITS:
            self.rule("numeric_limits")
            return X("lit", LIMITS[(m.group(1), m.group(2))], ty=parse_type(m.group(1)))
        base = q[5:] if q.startswith("std::") else q
        if base in ("abs",) and len(args) == 1:
            t = parse_type(ps[0])
            if t.is_float():
                self.rule("libm:fabs")
                return X("call", "__builtin_fabs" + SUF[t.name], [self.rv(args[0])], ty=t)
            if t.is_int():
                self.rule("abs-int")
                fn = {"int": "verif_abs_i", "long": "verif_abs_l", "long long": "verif_abs_ll"}.get(t.name)
                if fn:
                    return X("call", fn, [self.rv(args[0])], ty=t)
        if base in LIBM1 and len(args) == 1:
            t = parse_type(ps[0])
            if t.is_float():
                if base == "fabs":
                    return X("call", "__builtin_fabs" + SUF[t.name], [self.rv(args[0])], ty=t)
                fn = "verif_%s%s" % (base, SUF[t.name])
                self.cur.calls[fn] = True
                self.rule("libm:" + base)
                self.assume("libm", "libm functions (sqrt, sin, cos, pow, round, floor, ...) are uninterpreted stubs with assumed contracts from include/verif_prelude.h")
                return X("call", fn, [self.rv(args[0])], ty=t)
            if t.is_int() and base in ("sqrt", "sin", "cos", "round", "floor", "ceil"):
                # integer argument: C++ overload promotes to double
                fn = "verif_%s" % base
                self.cur.calls[fn] = True
                return X("call", fn, [X("cast", "double", self.rv(args[0]))], ty=parse_type("double"))
        if base in LIBM2 and len(args) == 2:
            t = parse_type(ps[0])
            if t.is_float():
                fn = "verif_%s%s" % (base, SUF[t.name])
                self.cur.calls[fn] = True
                self.rule("libm:" + base)
                self.assume("libm", "libm functions (sqrt, sin, cos, pow, round, floor, ...) are uninterpreted stubs with assumed contracts from include/verif_prelude.h")
                return X("call", fn, [self.rv(args[0]), self.rv(args[1])], ty=t)
        if base == "signbit" and len(args) == 1 and parse_type(ps[0]).name in ("float", "double"):
            self.rule("fp-classify")
            return X("call", "verif_signbit_" + ("f32" if parse_type(ps[0]).name == "float" else "f64"), [self.rv(args[0])], ty=parse_type("bool"))
        if base in ("isnan", "isinf", "isfinite") and len(args) == 1:
            t = parse_type(ps[0])
            self.rule("fp-classify")
            return X("call", "__builtin_" + base, [self.rv(args[0])], ty=parse_type("bool"))
        h = self.opts.get("models", {}).get(q)
        if h is not None:
            r = h(self, fid, info, e, args, obj)
            if r is not None:
                return r
        r = self.stdlib.call(q, fid, info, e, args, obj)
        if r is not None:
            return r
        raise ExtractionBreak("function %s: call to external function '%s' [%s] has no model" % (self.cur.cname, q, info.get("type")))

    def request_callee(self, fid):
        if self.is_external(fid):
            info = self.ast.finfo(fid)
            raise ExtractionBreak("function %s: reference to external function '%s' has no model" % (self.cur.cname, info.get("qname")))
        return self.request(fid)


    # ---------------------------------------------------------------- dropped statements
    STREAM_RE = re.compile(r"std::(__cxx11::)?basic_(o|i|io)?(string)?stream<|std::basic_ostream<")

    def droppable(self, s):
        if self.opts.get("keep_streams"):
            return None          # the unit models the stream operations itself (intercepts)
        s2 = s
        while s2.get("kind") in ("ExprWithCleanups", "ParenExpr", "ImplicitCastExpr"):
            s2 = s2["inner"][0]
        if s2.get("kind") == "CXXOperatorCallExpr" or s2.get("kind") == "CXXMemberCallExpr":
            t = self.ast.E.get(s2.get("id"), {}).get("type", "")
            if self.STREAM_RE.match(t.replace("const ", "")):
                return "stream-formatting statement"
        return None

    def vardecl(self, d):
        info = self.ast.D.get(d["id"], {})
        if self.STREAM_RE.match(info.get("type", "")) and not self.opts.get("keep_streams") and not (self.opts.get("bounded_str") and "stringstream" in info.get("type", "")):
            self.rule("dropped:string-stream variable")
            return []
        return super().vardecl(d)

    # ---------------------------------------------------------------- std models
    def model_record_fields(self, canon):
        ext = self.opts.get("ext_records", {})
        if canon in ext:
            return [(fn, parse_type(ft)) for (fn, ft) in ext[canon]]
        return self.stdlib.record(canon)

    def model_ctor(self, ctor, cinfo, ptr, args, ce):
        if not self.is_external(ctor):
            return None
        ety = self.ety(ce)
        h = self.opts.get("ext_ctor", {}).get(ety.name if ety.kind == "rec" else None)
        if h is not None:
            return h(self, ptr, args)
        m = self.stdlib.ctor(ctor, cinfo, ptr, args, ce)
        if m is None:
            if "trivial" in cinfo:
                return None
            raise ExtractionBreak("function %s: constructor of external class '%s' [%s] has no model" % (self.cur.cname, cinfo.get("qname"), cinfo.get("type")))
        return m

    def model_dtor(self, did, ty):
        if self.is_external(did):
            if ty.kind == "rec" and ty.name in self.opts.get("ext_dtor", {}):
                return self.opts["ext_dtor"][ty.name]
            m = self.stdlib.dtor(did, ty)
            if m is None:
                info = self.ast.finfo(did)
                if "trivial" in info:
                    return None
                raise ExtractionBreak("function %s: destructor of external class '%s' has no model" % (self.cur.cname, ty.key()))
            return m
        return None

    # ---------------------------------------------------------------- exceptions (DESIGN.md 3.2: throw -> flag)
    def exc_tag(self, canon):
        if canon not in self.exc_classes:
            self.exc_classes[canon] = len(self.exc_classes) + 1
        return "EXC_" + sanitize(canon)

    def zero_value(self):
        rt = self.cur.ret
        if rt.kind == "builtin" and rt.name == "void":
            return ""
        if rt.kind in ("rec", "arr"):
            return " (%s){0}" % self.ctype(rt)
        return " 0"

    def jump_text(self):
        """C text leaving the current function / entering the handler when an exception is in flight"""
        if self.exc_targets:
            return "goto %s;" % self.exc_targets[-1]
        d = "".join(self.prs(s, 0).strip() + " " for s in self.all_scope_dtors())
        return "%sreturn%s;" % (d, self.zero_value())

    def wrap_call(self, fid, call):
        if call.k != "call":
            return call
        info = self.ast.finfo(fid)
        if self.is_external(fid):
            return call
        fname = call.a[0]
        return X("callx", call, fname, self.jump_text(), None, ty=call.ty)

    def may_throw_fn(self, fname):
        if fname in self.opts.get("stub_may_throw", ()):
            return True
        return self.may_throw.get(fname, False)

    def compute_may_throw(self):
        mt = {n: bool(self.throws.get(n)) for n in self.funcs}
        for n in self.opts.get("stub_may_throw", ()):
            mt[n] = True
        # callers of throwing stubs / model contracts
        for n, f in self.funcs.items():
            if f is not None and any(c in self.opts.get("stub_may_throw", ()) for c in f.calls):
                mt[n] = True
        changed = True
        while changed:
            changed = False
            for n, f in self.funcs.items():
                if f is None or mt.get(n):
                    continue
                for c in f.calls:
                    if mt.get(c):
                        mt[n] = True
                        changed = True
                        break
        self.may_throw = mt
        return mt

    may_throw = {}

    def e_CXXThrowExpr(self, e):
        inner = e.get("inner", [])
        if not inner:
            raise ExtractionBreak("function %s: rethrow" % self.cur.cname)
        ety = self.ety(inner[0])
        tag = self.exc_tag(ety.noref().name)
        self.throws[self.cur.cname] = True
        self.rule("throw->flag")
        self.rule("dropped:exception-object")
        return X("raw", "({ __verif_exc = %s; %s })" % (tag, self.jump_text()))

    def s_CXXTryStmt(self, s):
        inner = s["inner"]
        body, handlers = inner[0], inner[1:]
        self.label_n += 1
        lab = "__catch_%d" % self.label_n
        end = "__after_try_%d" % self.label_n
        self.exc_targets.append(lab)
        b = self.stmt(body)
        self.exc_targets.pop()
        out = list(b) + [X("goto", end), X("label", lab)]
        self.rule("try/catch->flag test")
        for h in handlers:
            hin = h.get("inner", [])
            decl = hin[0] if len(hin) == 2 else None
            hbody = hin[-1]
            if decl is not None and decl.get("kind") == "VarDecl" and decl.get("id") in self.ast.D:
                cty = parse_type(self.ast.D[decl["id"]]["type"]).noref()
                tag = self.exc_tag(cty.name)
                cond = X("raw", "(__verif_exc == %s)" % tag)
            else:
                cond = X("raw", "(__verif_exc != 0)")
            hb = [X("raw", "__verif_exc = 0;")] + self.stmt(hbody) + [X("goto", end)]
            out.append(X("if", cond, hb, None))
        # not handled here: propagate
        out.append(X("raw", "if (__verif_exc) { %s }" % self.jump_text()))
        out.append(X("label", end))
        return out

    # ---------------------------------------------------------------- virtual calls
    def virtual_call(self, fid, e, objn, me, args):
        """dispatch through an interface stub named by the unit (opts virtual_models: qualified name -> C function)"""
        info = self.ast.finfo(fid)
        q = info.get("qname", "")
        stub = self.opts.get("virtual_models", {}).get(q)
        rx = self.opts.get("virtual_resolve", {}).get(q)
        if stub is None and rx is not None:
            # the unit states which final overrider the object has at this call (a harness-level fact, e.g. 'the task set the
            # scheduler was handed is the LocalTask schedule_internal allocated'): the unique instantiated definition matching rx
            cands = [fid2 for fid2, d in self.ast.D.items() if d.get("body") and d.get("def") == fid2 and re.search(rx, d.get("qname", ""))]
            if len(cands) != 1:
                raise ExtractionBreak("function %s: virtual call to '%s': %d definitions match /%s/" % (self.cur.cname, q, len(cands), rx))
            self.rule("virtual-call->stated-final-overrider")
            target = cands[0]
            cname = self.request(target)
            self.cur.calls[cname] = True
            prec = self.ast.D[target].get("parent")
            rname = self.ast.R[prec]["name"]
            objp = self.rv(objn) if me.get("isArrow") else addr(self.lv(objn))
            call = X("call", cname, [X("cast", self.record_cname(rname) + " *", objp)] + self.call_args(target, args))
            rets, _ = fn_ret_type(info["type"])
            call.ty = self.lower(parse_type(rets))
            return call
        if stub is None:
            raise ExtractionBreak("function %s: virtual call to '%s' (no interface model)" % (self.cur.cname, q))
        self.rule("virtual-call->interface-stub")
        self.cur.calls[stub] = True
        objp = self.rv(objn) if me.get("isArrow") else addr(self.lv(objn))
        call = X("call", stub, [objp] + self.call_args(fid, args))
        rets, _ = fn_ret_type(info["type"])
        call.ty = self.lower(parse_type(rets))
        if self.opts.get("virtual_may_throw", {}).get(q):
            return X("callx", call, stub, self.jump_text(), None, ty=call.ty)
        return call

    # ---------------------------------------------------------------- new / delete
    def e_CXXNewExpr(self, e):
        info = self.ast.E[e["id"]]
        T = parse_type(info["alloc"])
        cn = self.ctype(T)
        self.assume("operator new", "allocation never fails (no bad_alloc path); new T[n] is malloc(n*sizeof(T))")
        inner = [c for c in e.get("inner", []) if "kind" in c]
        if e.get("isArray"):
            n = self.rv(inner[0])
            if T.kind == "rec" and T.name in self.ast.Rname and "trivcopy" not in self.ast.R[self.ast.Rname[T.name]]:
                raise ExtractionBreak("new[] of class type with constructors")
            self.rule("new[]->malloc")
            return X("cast", cn + " *", X("call", "verif_malloc", [X("bin", "*", n, X("sizeof", cn))]), ty=Ty("ptr", to=T))
        if e.get("isPlacement"):
            # children: placement argument(s) ..., then the initialiser (an expression of the allocated type), if any
            init = None
            if len(inner) > 1 and inner[-1].get("kind") in ("CXXConstructExpr", "InitListExpr", "CXXTemporaryObjectExpr", "ImplicitValueInitExpr", "CXXScalarValueInitExpr", "ExprWithCleanups", "ImplicitCastExpr", "IntegerLiteral", "FloatingLiteral", "CXXFunctionalCastExpr", "DeclRefExpr"):
                init = inner[-1]
            # clang orders the children: [array size], [initialiser], placement arguments
            init = inner[0] if len(inner) > 1 else None
            place = self.rv(inner[-1])
            self.rule("placement-new")
            o = X("var", "__o", ty=Ty("ptr", to=T))
            st = [X("decl", Ty("ptr", to=T), "__o", X("cast", cn + " *", place))]
            if init is not None:
                st += self.init_object(deref(o), T, init)
            return X("sexpr", st, o, ty=Ty("ptr", to=T))
        self.rule("new->malloc+ctor")
        o = X("var", "__o", ty=Ty("ptr", to=T))
        st = [X("decl", Ty("ptr", to=T), "__o", X("cast", cn + " *", X("call", "verif_malloc", [X("sizeof", cn)])))]
        if inner:
            st += self.init_object(deref(o), T, inner[-1])
        return X("sexpr", st, o, ty=Ty("ptr", to=T))

    def e_CXXDeleteExpr(self, e):
        info = self.ast.E[e["id"]]
        p = self.rv(e["inner"][0])
        T = parse_type(info.get("destroyed", "void"))
        if e.get("isArray"):
            self.rule("delete[]->free")
            return X("call", "free", [p])
        d = info.get("dtor")
        if T.kind == "rec" and T.name in self.opts.get("delete_ghost", ()):
            # the object's storage is kept and marked dead (ghost), so that any later use is caught by `requires !g_dead`
            self.rule("delete->ghost-dead")
            t = self.newtmp(Ty("ptr", to=T))
            return X("comma", X("assign", "=", t, p), X("cond", t, X("assign", "=", X("mem", deref(t), "g_dead"), X("lit", "1")), X("lit", "0")))
        self.rule("delete->dtor+free")
        if d and "trivial" not in self.ast.finfo(d):
            fn = self.request_dtor(d, T)
            if fn:
                self.cur.calls[fn] = True
                t = self.newtmp(Ty("ptr", to=T))
                return X("comma", X("assign", "=", t, p), X("cond", t, X("comma", X("call", fn, [t]), X("comma", X("call", "free", [t]), X("lit", "0"))), X("lit", "0")))
        return X("call", "free", [p])
