"""Extractor = cxx2c.Translator + models for std:: / libc / exceptions.

Everything in this file that is *not* a translation of /repo code is an
assumption and is reported as such (see MODELS_DOC, collected in evidence)."""
import re
from cxx2c import Translator, X, Ty, parse_type, fn_ret_type, deref, addr, BUILTIN, sanitize
from astload import ExtractionBreak, repo_path

LIMITS = {
    # (type, member) -> C text
    ("int", "max"): "2147483647", ("int", "min"): "(-2147483647-1)", ("int", "lowest"): "(-2147483647-1)",
    ("unsigned int", "max"): "4294967295u", ("unsigned int", "min"): "0u", ("unsigned int", "lowest"): "0u",
    ("long", "max"): "9223372036854775807l", ("long", "min"): "(-9223372036854775807l-1)", ("long", "lowest"): "(-9223372036854775807l-1)",
    ("unsigned long", "max"): "18446744073709551615ul", ("unsigned long", "min"): "0ul", ("unsigned long", "lowest"): "0ul",
    ("long long", "max"): "9223372036854775807ll", ("long long", "min"): "(-9223372036854775807ll-1)", ("long long", "lowest"): "(-9223372036854775807ll-1)",
    ("unsigned long long", "max"): "18446744073709551615ull", ("unsigned long long", "min"): "0ull", ("unsigned long long", "lowest"): "0ull",
    ("short", "max"): "((short)32767)", ("short", "min"): "((short)-32768)", ("short", "lowest"): "((short)-32768)",
    ("unsigned short", "max"): "((unsigned short)65535)", ("unsigned short", "min"): "((unsigned short)0)", ("unsigned short", "lowest"): "((unsigned short)0)",
    ("char", "max"): "((char)127)", ("char", "min"): "((char)-128)", ("char", "lowest"): "((char)-128)",
    ("signed char", "max"): "((signed char)127)", ("signed char", "min"): "((signed char)-128)", ("signed char", "lowest"): "((signed char)-128)",
    ("unsigned char", "max"): "((unsigned char)255)", ("unsigned char", "min"): "((unsigned char)0)", ("unsigned char", "lowest"): "((unsigned char)0)",
    ("float", "max"): "3.40282347e+38f", ("float", "min"): "1.17549435e-38f", ("float", "lowest"): "(-3.40282347e+38f)",
    ("float", "infinity"): "__builtin_inff()", ("float", "epsilon"): "1.19209290e-7f", ("float", "quiet_NaN"): "__builtin_nanf(\"\")",
    ("double", "max"): "1.7976931348623157e+308", ("double", "min"): "2.2250738585072014e-308", ("double", "lowest"): "(-1.7976931348623157e+308)",
    ("double", "infinity"): "__builtin_inf()", ("double", "epsilon"): "2.2204460492503131e-16", ("double", "quiet_NaN"): "__builtin_nan(\"\")",
}

SUF = {"float": "f", "double": "", "long double": "l"}

# libm-style functions: C++ name -> base C name (suffix by type); contracts for them are *assumed*
LIBM1 = {"sqrt", "sin", "cos", "tan", "acos", "asin", "atan", "exp", "log", "floor", "ceil", "round", "trunc", "fabs"}
LIBM2 = {"pow", "fmod", "atan2"}


class Extractor(Translator):
    def __init__(self, ast, **kw):
        super().__init__(ast, **kw)
        self.assumed = {}   # model name -> description
        self.exc_classes = {}
        self.extern_decls = {}

    # ---------------------------------------------------------------- classification
    def is_external(self, fid):
        info = self.ast.finfo(fid)
        did = self.ast.D.get(fid, {}).get("def", fid)
        node = self.ast.nodes.get(did)
        f = info.get("file", "")
        repo = repo_path().rstrip("/") + "/"
        if f.startswith(repo) or f.startswith(self.opts.get("unit_dir", "\0")):
            return False
        return True

    def assume(self, name, doc):
        self.assumed[name] = doc

    # ---------------------------------------------------------------- calls
    def intercept_call(self, fid, e, args, obj):
        info = self.ast.finfo(fid)
        q = info.get("qname", "")
        h = self.opts.get("intercept", {}).get(q)
        if h is not None:
            r = h(self, fid, e, args, obj)
            if r is not None:
                return r
        if not self.is_external(fid):
            return None
        return self.model_call(q, fid, info, e, args, obj)

    def model_call(self, q, fid, info, e, args, obj):
        rets, ps = fn_ret_type(info["type"])
        # --- identity functions
        if q in ("std::move", "std::forward", "std::addressof", "std::__addressof"):
            self.rule("std::move/forward->identity")
            a = args[0]
            if q.endswith("addressof"):
                return addr(self.lv(a))
            return self.lv(a)
        # --- std::min / std::max on builtin scalars (two-argument, by const reference, returns reference)
        if q in ("std::min", "std::max") and len(args) == 2:
            pt = parse_type(ps[0])
            if pt.kind == "ref" and pt.to.kind == "builtin":
                t = pt.to.name
                fn = "verif_std_%s_%s" % (q[5:], sanitize(t))
                self.cur.calls[fn] = True
                self.rule("std::min/max model")
                self.assume("std::min/std::max", "reference C: min(a,b) = (b<a)?b:a ; max(a,b) = (a<b)?b:a, returning a reference to the selected argument (libstdc++ definition)")
                c = X("call", fn, [self.bind_ref(args[0]), self.bind_ref(args[1])], ty=Ty("ptr", to=pt.to))
                return deref(c)
        m = re.match(r"std::numeric_limits<(.+)>::(\w+)$", q)
        if m and (m.group(1), m.group(2)) in LIMITS:
            self.rule("numeric_limits")
            return X("lit", LIMITS[(m.group(1), m.group(2))], ty=parse_type(m.group(1)))
        base = q[5:] if q.startswith("std::") else q
        if base in ("abs",) and len(args) == 1:
            t = parse_type(ps[0])
            if t.is_float():
                self.rule("libm:fabs")
                return X("call", "__builtin_fabs" + SUF[t.name], [self.rv(args[0])], ty=t)
            if t.is_int():
                self.rule("abs-int")
                fn = {"int": "verif_abs_i", "long": "verif_abs_l", "long long": "verif_abs_ll"}.get(t.name)
                if fn:
                    return X("call", fn, [self.rv(args[0])], ty=t)
        if base in LIBM1 and len(args) == 1:
            t = parse_type(ps[0])
            if t.is_float():
                if base == "fabs":
                    return X("call", "__builtin_fabs" + SUF[t.name], [self.rv(args[0])], ty=t)
                fn = "verif_%s%s" % (base, SUF[t.name])
                self.cur.calls[fn] = True
                self.rule("libm:" + base)
                self.assume("libm", "libm functions (sqrt, sin, cos, pow, round, floor, ...) are uninterpreted stubs with assumed contracts from include/verif_prelude.h")
                return X("call", fn, [self.rv(args[0])], ty=t)
            if t.is_int() and base in ("sqrt", "sin", "cos", "round", "floor", "ceil"):
                # integer argument: C++ overload promotes to double
                fn = "verif_%s" % base
                self.cur.calls[fn] = True
                return X("call", fn, [X("cast", "double", self.rv(args[0]))], ty=parse_type("double"))
        if base in LIBM2 and len(args) == 2:
            t = parse_type(ps[0])
            if t.is_float():
                fn = "verif_%s%s" % (base, SUF[t.name])
                self.cur.calls[fn] = True
                self.rule("libm:" + base)
                self.assume("libm", "libm functions (sqrt, sin, cos, pow, round, floor, ...) are uninterpreted stubs with assumed contracts from include/verif_prelude.h")
                return X("call", fn, [self.rv(args[0]), self.rv(args[1])], ty=t)
        if base in ("isnan", "isinf", "isfinite") and len(args) == 1:
            t = parse_type(ps[0])
            self.rule("fp-classify")
            return X("call", "__builtin_" + base, [self.rv(args[0])], ty=parse_type("bool"))
        h = self.opts.get("models", {}).get(q)
        if h is not None:
            r = h(self, fid, info, e, args, obj)
            if r is not None:
                return r
        raise ExtractionBreak("function %s: call to external function '%s' [%s] has no model" % (self.cur.cname, q, info.get("type")))

    def request_callee(self, fid):
        if self.is_external(fid):
            info = self.ast.finfo(fid)
            raise ExtractionBreak("function %s: reference to external function '%s' has no model" % (self.cur.cname, info.get("qname")))
        return self.request(fid)
