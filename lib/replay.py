"""Replay of a CBMC counterexample against the real compiled C++ (DESIGN.md 3.7).

The CBMC harness text is reused verbatim; nondet inputs are replaced by the
counterexample's values, the functions under contract are bound to adapters
that call the *real* rkcommon code through the driver's verif_use wrappers,
and the contract clauses (same C text) are evaluated natively on the real
objects."""
import os, re, subprocess, json
from fractions import Fraction
from astload import repo_path, ExtractionBreak
from cxx2c import parse_type, fn_ret_type

VERIF = os.path.dirname(os.path.dirname(os.path.abspath(__file__)))

PRE = r"""
#include <cstdio>
#include <cstdlib>
#include <cstring>
#include <cstdint>
#include <cmath>
#include <new>
#define _Bool bool
#include "%(unit_cpp)s"
namespace vr {
static int g_fail = 0, g_req_fail = 0;
static const char *g_target_label = "%(label)s";
static inline float bits_f(unsigned u) { float f; memcpy(&f, &u, 4); return f; }
static inline double bits_d(unsigned long long u) { double f; memcpy(&f, &u, 8); return f; }
#define __CPROVER_assume(c) do { if (!(c)) { printf("REPLAY assume false: %%s\n", #c); exit(3); } } while (0)
#define __CPROVER_assert(c, m) do { bool ok__ = (c); if (strstr(m, "VERIF_CANARY")) break; printf("REPLAY assert %%s : %%s\n", m, ok__ ? "holds" : "FAILS"); if (!ok__ && strstr(m, g_target_label)) g_fail = 1; } while (0)
#define __CPROVER_r_ok(p, n) ((p) != 0)
#define __CPROVER_w_ok(p, n) ((p) != 0)
#define __CPROVER_rw_ok(p, n) ((p) != 0)
#define VR_ENSURES(label, c) do { bool ok__ = (c); printf("REPLAY ensures %%s : %%s\n", label, ok__ ? "holds" : "FAILS"); if (!ok__ && !strcmp(label, g_target_label)) g_fail = 1; } while (0)
#define VR_REQUIRES(c) do { if (!(c)) { printf("REPLAY requires false: %%s\n", #c); g_req_fail = 1; } } while (0)
int __verif_exc = 0;
#define VERIF_REPLAY
#include "%(prelude)s"
"""


def balanced(s, i):
    """s[i] == '(' ; returns index after matching ')'"""
    d = 0
    for k in range(i, len(s)):
        if s[k] == "(":
            d += 1
        elif s[k] == ")":
            d -= 1
            if d == 0:
                return k + 1
    raise ValueError("unbalanced")


def lift_old(expr, olds):
    out = ""
    i = 0
    while True:
        j = expr.find("__CPROVER_old(", i)
        if j < 0:
            out += expr[i:]
            break
        out += expr[i:j]
        k = balanced(expr, j + len("__CPROVER_old"))
        inner = expr[j + len("__CPROVER_old("):k - 1]
        name = "old__%d" % len(olds)
        olds.append((name, inner))
        out += name
        i = k
    return out


def cxx_value(ctype, v):
    b = v.get("binary")
    if ctype == "float" and b:
        return "bits_f(0x%xu)" % int(b, 2)
    if ctype == "double" and b:
        return "bits_d(0x%xull)" % int(b, 2)
    if ctype == "_Bool":
        return "1" if (b and int(b, 2) != 0) else "0"
    if b:
        n = int(b, 2)
        w = len(b)
        signed = not ctype.startswith("unsigned") and ctype != "_Bool"
        if signed and n >= 2 ** (w - 1):
            n -= 2 ** w
        if signed:
            if n == -(2 ** (w - 1)):
                return "((%s)(%d-1))" % (ctype, n + 1)
            return "((%s)%d%s)" % (ctype, n, "ll" if w > 32 else "")
        return "((%s)%dull)" % (ctype, n)
    return "((%s)%s)" % (ctype, v.get("data", "0"))


def adapter(U, cname, checked_spec=None):
    """C++ adapter text: C-level signature, calls verif_use::<wrapper> on the real code."""
    tr = U.tr
    f = tr.funcs[cname]
    w = U.wrappers.get(cname)
    if w is None:
        raise ExtractionBreak("no verif_use wrapper for %s: cannot replay" % cname)
    winfo = U.ast.D[w["id"]]
    wret, wparams = fn_ret_type(winfo["type"])
    wpt = [parse_type(p) for p in wparams]
    cparams = list(f.params)
    sig = tr.signature(f, name=cname + ("__real" if checked_spec else ""))
    args = []
    is_ctor = f.kind == "CXXConstructorDecl"
    cp = cparams[1:] if is_ctor else cparams
    if len(cp) == len(wpt) + 1 and cp[0][0] == "self":
        cp = cp[1:]      # member of a stateless function object the wrapper creates itself (std::less<...>()(a, b))
    if len(cp) != len(wpt):
        raise ExtractionBreak("wrapper %s has %d params, extracted function has %d" % (cname, len(wpt), len(cp)))
    for (pn, pt), wt in zip(cp, wpt):
        if wt.kind == "ref":
            if wt.rv:
                args.append("std::move(*%s)" % pn)
            else:
                args.append("*%s" % pn)
        else:
            args.append(pn)
    call = "verif_use::%s(%s)" % (cname, ", ".join(args))
    wr = parse_type(wret)
    if is_ctor:
        body = "  new ((void*)self) %s(%s);" % ("decltype(%s)" % call, call)
    elif f.ret.kind == "builtin" and f.ret.name == "void":
        body = "  %s;" % call
    elif wr.kind == "ref":
        body = "  return (%s)&(%s);" % (tr.ctype(f.ret), call)
    else:
        body = "  return %s;" % call
    txt = "static %s\n{\n%s\n}\n" % (sig, body)
    if checked_spec is not None:
        s = checked_spec
        olds = []
        ens = []
        for lab, e in s.ensures.items():
            from unit import c_expr
            ens.append((lab, lift_old(c_expr(U.subst_params(e, f)), olds)))
        L = []
        from unit import c_expr
        for r in s.requires:
            L.append("  VR_REQUIRES(%s);" % c_expr(U.subst_params(r, f)))
        for (n, inner) in olds:
            L.append("  auto %s = (%s);" % (n, inner))
        names = ", ".join(pn for (pn, _) in cparams)
        isvoid = f.ret.kind == "builtin" and f.ret.name == "void"
        if isvoid:
            L.append("  %s__real(%s);" % (cname, names))
        else:
            L.append("  auto __CPROVER_return_value = %s__real(%s);" % (cname, names))
        for lab, e in ens:
            L.append("  VR_ENSURES(\"%s\", %s);" % (lab, e))
        if not isvoid:
            L.append("  return __CPROVER_return_value;")
        txt += "static %s\n{\n%s\n}\n" % (tr.signature(f, name=cname), "\n".join(L))
    return txt


def native_replay(U, native, cex, base, info, real_inputs=False):
    """author-supplied native experiment: the counterexample's inputs as IN_<name> macros, the unit driver included;
    exit status != 0 = the real code departs from the specification on these inputs. Returns (confirmed, output)."""
    src = "#include <cstdio>\n#include <cstdlib>\n#include <cstring>\n#include <cmath>\n#include <vector>\n#include <algorithm>\ntypedef unsigned long __CPROVER_size_t; typedef long __CPROVER_ssize_t;\n"
    for k, v in cex.items():
        if real_inputs:
            try:
                fv = float(Fraction(str(v.get("data")).replace("?", "")))
            except Exception:
                raise ExtractionBreak("model value of %s is not rational: %s" % (k, v.get("data")))
            src += "#define IN_%s (%r)\n" % (k, fv)
        else:
            src += "#define IN_%s (%s)\n" % (k, cxx_value(v.get("type") or "long", v))
    src += '#include "%s"\n' % U.cpp
    for m in sorted(set(re.findall(r"IN_(in_\w+)", native))):
        src += "#ifndef IN_%s\n#define IN_%s 0 /* not in trace */\n#endif\n" % (m, m)
    src += native
    with open(base + ".cpp", "w") as fh:
        fh.write(src)
    exe = base + ".exe"
    cmd = ["clang++", "-std=c++11", "-O0", "-w", "-g", "-fsanitize=address,undefined", "-fno-access-control", "-DNDEBUG", "-I" + repo_path(), "-I" + os.path.join(VERIF, "units"), base + ".cpp", "-o", exe,
           "-ffunction-sections", "-Wl,--gc-sections"]   # (units that include a .cpp of /repo: functions the experiment never calls, and their undefined references, are discarded)
    p = subprocess.run(cmd, stdout=subprocess.PIPE, stderr=subprocess.PIPE, text=True, timeout=300)
    info["replay_build"] = " ".join(cmd)
    if p.returncode != 0:
        raise ExtractionBreak("replay does not compile: " + p.stderr[-2000:])
    r = subprocess.run([exe], stdout=subprocess.PIPE, stderr=subprocess.PIPE, text=True, errors="replace", timeout=60)
    info["replay_exit"] = r.returncode
    os.remove(exe)
    out = r.stdout + r.stderr
    if "REPLAY RESULT" not in out and "Sanitizer" not in out and "runtime error:" not in out:
        raise ExtractionBreak("replay program did not run to a verdict: " + out[-500:])
    return ("violation reproduced on real code" in out or "Sanitizer" in out or "runtime error:" in out), out


def build_replay(U, job, ob, outdir, prop_id):
    """writes replay source + json; returns (path_json, confirmed: True/False/None, output)"""
    tr = U.tr
    target = job.get("fname") or job["target"]
    spec = job["spec"]
    label = ob.get("label") or ob["id"]
    cex = ob.get("cex", {})
    os.makedirs(outdir, exist_ok=True)
    base = os.path.join(outdir, "%s__%s__%s" % (prop_id, re.sub(r"\W+", "_", job["target"]), re.sub(r"\W+", "_", label)))
    info = dict(property=prop_id, function=target, obligation=label, obligation_id=ob["id"], description=ob.get("desc"),
                inputs={k: v.get("data") for k, v in cex.items()}, inputs_binary={k: v.get("binary") for k, v in cex.items()},
                unit=U.name, verifier="cbmc 6.11 (goto-instrument --dfcc)", kind=ob.get("kind"))
    confirmed, output = None, ""
    try:
        native = spec.extra.get("replay_native") if hasattr(spec, "extra") else None
        if native:
            confirmed, output = native_replay(U, native, cex, base, info)
            raise StopIteration
        if ob.get("kind") not in ("ensures", "lemma"):
            raise ExtractionBreak("obligation kind '%s' is replayed with sanitizers only" % ob.get("kind"))
        src = PRE % dict(unit_cpp=U.cpp, label=label, prelude=os.path.join(VERIF, 'include', 'verif_prelude.h'))
        # typedefs for record names
        for canon, cn in tr.rec_names.items():
            if tr.rec_defs.get(cn) is None and cn not in tr.rec_info:
                continue
            src += "typedef %s %s;\n" % (canon, cn)
        src += U.helpers + "\n"
        used = [target] if not job["is_lemma"] else list(spec.uses)
        for n in used:
            src += adapter(U, n, checked_spec=(spec if (n == target and not job["is_lemma"]) else None))
        # harness with values substituted
        h = job["text"].split("\n")[job["hstart"] - 1:]
        h = "\n".join(h)
        def sub(m):
            cty, name = m.group(1).strip(), m.group(2)
            if name in cex:
                return "%s %s = %s;" % (cty, name, cxx_value(cty, cex[name]))
            return "%s %s = 0; /* not in trace */" % (cty, name)
        h = re.sub(r"([A-Za-z_ ]+?) (in_\w+) = nondet_\w+\(\);", sub, h)
        src += h + "\n}\n"
        src += "int main() { vr::h_%s(); if (vr::g_req_fail) { printf(\"REPLAY precondition not met\\n\"); return 4; } printf(vr::g_fail ? \"REPLAY RESULT: violation reproduced on real code\\n\" : \"REPLAY RESULT: not reproduced\\n\"); return vr::g_fail ? 1 : 0; }\n" % target
        with open(base + ".cpp", "w") as fh:
            fh.write(src)
        exe = base + ".exe"
        cmd = ["g++", "-std=c++11", "-O0", "-w", "-fno-access-control", "-DNDEBUG", "-I" + repo_path(), "-I" + os.path.join(VERIF, "units"), base + ".cpp", "-o", exe]
        cmd += [d if d.startswith("-") else "-D" + d for d in U.defines]
        p = subprocess.run(cmd, stdout=subprocess.PIPE, stderr=subprocess.PIPE, text=True, timeout=300)
        info["replay_build"] = " ".join(cmd)
        if p.returncode != 0:
            raise ExtractionBreak("replay does not compile: " + p.stderr[-2000:])
        r = subprocess.run([exe], stdout=subprocess.PIPE, stderr=subprocess.PIPE, text=True, errors="replace", timeout=60)
        output = r.stdout + r.stderr
        confirmed = (r.returncode == 1)
        info["replay_exit"] = r.returncode
        os.remove(exe)
    except StopIteration:
        pass
    except (ExtractionBreak, ValueError, subprocess.TimeoutExpired) as ex:
        output = "replay not possible: %s" % ex
        confirmed = None
    info["replay_output"] = output[-4000:]
    info["reproduced_on_real_code"] = confirmed
    info["replay_source"] = base + ".cpp" if os.path.exists(base + ".cpp") else None
    with open(base + ".json", "w") as fh:
        json.dump(info, fh, indent=1)
    return base + ".json", confirmed, output


def build_math_replay(U, job, ob, outdir, prop_id):
    """Replay of a z3 model: run the real function on the model's inputs and compare its outputs with the
    outputs the verifier predicted at that model (which violate the clause)."""
    from fractions import Fraction
    from unit import FnSpec
    import cxx2c
    tr = U.tr
    ms = job["spec"]
    target = ms.name
    label = ob.get("label") or ob["id"]
    cex = ob.get("cex", {})
    os.makedirs(outdir, exist_ok=True)
    base = os.path.join(outdir, "%s__%s__%s__math" % (prop_id, target, re.sub(r"\W+", "_", label)))
    info = dict(property=prop_id, function=target, obligation=label, obligation_id=ob["id"], description=ob.get("desc"),
                inputs={k: v.get("data") for k, v in cex.items()}, predicted_outputs=ob.get("predicted"), unit=U.name,
                verifier="z3 %s on VCs generated from the extracted IR (lib/mathvc.py), mode %s" % ("", ms.mode), kind=ob.get("kind"))
    confirmed, output = None, ""
    def val(s):
        s = s.replace("?", "")
        try:
            return float(Fraction(s))
        except Exception:
            return None
    try:
        if getattr(ms, "replay_native", None):
            confirmed, output = native_replay(U, ms.replay_native, cex, base, info, real_inputs=True)
            raise StopIteration
        f = tr.funcs[target]
        fs = FnSpec(target, arrays=ms.arrays, noalias=True)
        htxt, inputs = U.auto_harness(fs, f)
        src = PRE % dict(unit_cpp=U.cpp, label=label, prelude=os.path.join(VERIF, 'include', 'verif_prelude.h'))
        for canon, cn in tr.rec_names.items():
            if tr.rec_defs.get(cn) is None and cn not in tr.rec_info:
                continue
            src += "typedef %s %s;\n" % (canon, cn)
        src += adapter(U, target)
        def sub(m):
            cty, name = m.group(1).strip(), m.group(2)
            v = val(cex[name]["data"]) if name in cex else 0.0
            if v is None:
                raise ExtractionBreak("model value of %s is not rational: %s" % (name, cex[name]["data"]))
            if cty in ("float", "double"):
                return "%s %s = (%s)%r;" % (cty, name, cty, v)
            return "%s %s = (%s)%d;" % (cty, name, cty, int(v))
        h = re.sub(r"([A-Za-z_ ]+?) (in_\w+) = nondet_\w+\(\);", sub, htxt)
        # print outputs
        prints = []
        leaves = []
        if not (f.ret.kind == "builtin" and f.ret.name == "void"):
            if f.ret.kind == "ptr":
                pass
            else:
                U.flatten(f.ret, "ret", "RET", leaves)
        names = []
        for (iname, cty, path, lty) in leaves:
            if cty is None:
                continue
            names.append(("RET" + path[3:], path))
        for i, (pn, pt) in enumerate(f.params):
            if pt.kind == "ptr" and pt.to.kind != "func":
                lv = []
                n = ms.arrays.get(pn)
                et = pt.to if n is None else cxx2c.Ty("arr", to=pt.to, n=n)
                U.flatten(et, "o_" + pn, "x", lv)
                for (iname, cty, path, lty) in lv:
                    if cty is not None:
                        names.append(("post%d%s" % (i, path[len("o_" + pn):]), path))
        for (nm, path) in names:
            prints.append('  printf("OUT %s %%.17g\\n", (double)(%s));' % (nm, path))
        h = h.replace('  __CPROVER_assert(0, "VERIF_CANARY reachable end of harness");', "\n".join(prints))
        src += h + "\n}\nint main() { vr::h_%s(); return 0; }\n" % target
        with open(base + ".cpp", "w") as fh:
            fh.write(src)
        exe = base + ".exe"
        cmd = ["g++", "-std=c++11", "-O0", "-w", "-fno-access-control", "-DNDEBUG", "-I" + repo_path(), "-I" + os.path.join(VERIF, "units"), base + ".cpp", "-o", exe]
        cmd += [d if d.startswith("-") else "-D" + d for d in U.defines]
        p = subprocess.run(cmd, stdout=subprocess.PIPE, stderr=subprocess.PIPE, text=True, timeout=300)
        info["replay_build"] = " ".join(cmd)
        if p.returncode != 0:
            raise ExtractionBreak("replay does not compile: " + p.stderr[-2000:])
        r = subprocess.run([exe], stdout=subprocess.PIPE, stderr=subprocess.PIPE, text=True, errors="replace", timeout=60)
        os.remove(exe)
        output = r.stdout + r.stderr
        native = {}
        for line in r.stdout.splitlines():
            if line.startswith("OUT "):
                _, nm, v = line.split(" ", 2)
                native[nm] = float(v)
        pred = ob.get("predicted") or {}
        cmp = []
        agree = True
        n_cmp = 0
        scale = max([1.0] + [abs(val(v["data"]) or 0.0) for v in cex.values()])
        for nm, pv in pred.items():
            if nm not in native:
                continue
            pvf = val(pv) if pv not in ("True", "False") else (1.0 if pv == "True" else 0.0)
            if pvf is None:
                continue
            n_cmp += 1
            tol = ms.tol * max(1.0, abs(pvf), scale * scale)
            ok = abs(native[nm] - pvf) <= tol
            cmp.append("%s: real code %.9g, verifier predicted %.9g %s" % (nm, native[nm], pvf, "(agree)" if ok else "(DISAGREE)"))
            agree = agree and ok
        output += "\n".join(cmp)
        confirmed = bool(agree and n_cmp > 0)
        output += "\nREPLAY RESULT: %s\n" % ("real code reproduces the outputs that violate clause '%s'" % label if confirmed else "not reproduced")
    except StopIteration:
        pass
    except (ExtractionBreak, ValueError, subprocess.TimeoutExpired, KeyError) as ex:
        output = "replay not possible: %s" % ex
        confirmed = None
    info["replay_output"] = output[-4000:]
    info["reproduced_on_real_code"] = confirmed
    info["replay_source"] = base + ".cpp" if os.path.exists(base + ".cpp") else None
    with open(base + ".json", "w") as fh:
        json.dump(info, fh, indent=1)
    return base + ".json", confirmed, output


def build_lemma_replay(U, job, ob, outdir, prop_id):
    """Replay of a z3 model of a math lemma: the lemma's calls are executed in order on the REAL functions with the
    model's inputs; every output is compared with the output the verifier predicted at that model."""
    from fractions import Fraction
    import cxx2c
    tr = U.tr
    ml = job["spec"]
    label = ob.get("label") or ob["id"]
    cex = ob.get("cex", {})
    cg = ob.get("callgraph") or {}
    os.makedirs(outdir, exist_ok=True)
    base = os.path.join(outdir, "%s__%s__%s__math" % (prop_id, re.sub(r"\W+", "_", ml.name), re.sub(r"\W+", "_", label)))
    info = dict(property=prop_id, lemma=ml.name, obligation=label, obligation_id=ob["id"], description=ob.get("desc"),
                inputs={k: v.get("data") for k, v in cex.items()}, callgraph=cg, unit=U.name,
                verifier="z3 on VCs generated from the extracted IR (lib/mathvc.py), mode %s" % ml.mode, kind=ob.get("kind"))
    confirmed, output = None, ""

    def val(s):
        if s is None:
            return None
        s = str(s).replace("?", "")
        if s in ("True", "False"):
            return 1.0 if s == "True" else 0.0
        try:
            return float(Fraction(s))
        except Exception:
            return None
    try:
        if "calls" not in cg:
            raise ExtractionBreak("no call graph recorded: %s" % cg)
        src = PRE % dict(unit_cpp=U.cpp, label=label, prelude=os.path.join(VERIF, 'include', 'verif_prelude.h'))
        for canon, cn in tr.rec_names.items():
            if tr.rec_defs.get(cn) is None and cn not in tr.rec_info:
                continue
            src += "typedef %s %s;\n" % (canon, cn)
        fnames = []
        for c in cg["calls"]:
            if c["fname"] not in fnames:
                fnames.append(c["fname"])
        for fn in fnames:
            src += adapter(U, fn)
        L = []
        isint = ml.mode == "int"
        for (cname, name) in cg["inputs"]:
            if cname is None:
                v = val(cex.get("in_" + name, {}).get("data", "0")) or 0.0
                L.append("  %s %s = %s;" % ("long" if isint else "double", name, ("%dL" % int(v)) if isint else repr(v)))
                continue
            ty = U.ctype_to_ty(cname)
            L.append("  %s;" % tr.cdecl(ty, name))
            leaves = []
            U.flatten(ty, name, "in_" + name, leaves)
            for (iname, cty, path, lty) in leaves:
                if cty is None:
                    continue
                v = val(cex.get(iname, {}).get("data", "0"))
                if v is None:
                    raise ExtractionBreak("model value of %s is not rational" % iname)
                L.append("  %s = (%s)%s;" % (path, cty, ("%d" % int(v)) if cty not in ("float", "double") else repr(v)))
        prints = []
        for k, c in enumerate(cg["calls"]):
            f = tr.funcs[c["fname"]]
            params = list(f.params)[1:] if c["is_ctor"] else list(f.params)
            args = []
            for (pn, pt), a in zip(params, c["args"]):
                if a["kind"] == "view":
                    args.append(("&" if a["byptr"] else "") + a["path"])
                else:
                    v = val(a["value"])
                    if v is None:
                        raise ExtractionBreak("scalar argument not rational: %s" % a["value"])
                    cty = tr.ctype(pt.to if a["byptr"] else pt)
                    lit = ("(%s)%d" % (cty, int(v))) if cty not in ("float", "double") else "(%s)%r" % (cty, v)
                    if a["byptr"]:
                        L.append("  %s s%d_%s = %s;" % (cty, k, pn, lit))
                        args.append("&s%d_%s" % (k, pn))
                    else:
                        args.append(lit)
            if c["is_ctor"]:
                L.append("  %s;" % tr.cdecl(f.params[0][1].to, "r%d" % k))
                L.append("  %s(&r%d%s);" % (c["fname"], k, "".join(", " + x for x in args)))
            elif f.ret.kind == "builtin" and f.ret.name == "void":
                L.append("  %s(%s);" % (c["fname"], ", ".join(args)))
            elif f.ret.kind == "ptr":
                L.append("  auto &r%d = *%s(%s);" % (k, c["fname"], ", ".join(args)))
            else:
                L.append("  auto r%d = %s(%s);" % (k, c["fname"], ", ".join(args)))
            for nm in c["predicted"]:
                prints.append('  printf("OUT %s %%.17g\\n", (double)(%s));' % (nm, nm))
                L.append(prints[-1])
        src += "void h_lemma(void)\n{\n%s\n}\n}\nint main() { vr::h_lemma(); return 0; }\n" % "\n".join(L)
        with open(base + ".cpp", "w") as fh:
            fh.write(src)
        exe = base + ".exe"
        cmd = ["g++", "-std=c++11", "-O0", "-w", "-fno-access-control", "-DNDEBUG", "-I" + repo_path(), "-I" + os.path.join(VERIF, "units"), base + ".cpp", "-o", exe]
        cmd += [d if d.startswith("-") else "-D" + d for d in U.defines]
        p = subprocess.run(cmd, stdout=subprocess.PIPE, stderr=subprocess.PIPE, text=True, timeout=300)
        info["replay_build"] = " ".join(cmd)
        if p.returncode != 0:
            raise ExtractionBreak("replay does not compile: " + p.stderr[-2000:])
        r = subprocess.run([exe], stdout=subprocess.PIPE, stderr=subprocess.PIPE, text=True, errors="replace", timeout=60)
        os.remove(exe)
        native = {}
        for line in r.stdout.splitlines():
            if line.startswith("OUT "):
                _, nm, v = line.split(" ", 2)
                native[nm] = float(v)
        scale = max([1.0] + [abs(val(v["data"]) or 0.0) for v in cex.values()])
        cmpl, agree, n_cmp = [], True, 0
        for c in cg["calls"]:
            for nm, pv in c["predicted"].items():
                pvf = val(pv)
                if pvf is None or nm not in native:
                    continue
                n_cmp += 1
                tol = ml.tol * max(1.0, abs(pvf), scale ** 3) if ml.mode == "real" else 0.5
                ok = abs(native[nm] - pvf) <= tol
                if native[nm] != native[nm]:
                    ok = False
                cmpl.append("%s (%s): real code %.9g, verifier predicted %.9g %s" % (nm, c["fname"], native[nm], pvf, "(agree)" if ok else "(DISAGREE)"))
                agree = agree and ok
        output = "\n".join(cmpl)
        if ob.get("kind") == "math-safety" and ml.mode == "int":
            # range obligation: the machine value left its type's range, i.e. the real code's result differs from the mathematical one
            confirmed = bool((not agree) and n_cmp > 0)
            output += "\nREPLAY RESULT: %s\n" % (("on the model's inputs the real code's machine arithmetic departs from the mathematical value (overflow/truncation): obligation '%s' is violated" % ob.get("desc")) if confirmed else "not reproduced")
        else:
            confirmed = bool(agree and n_cmp > 0)
            output += "\nREPLAY RESULT: %s\n" % (("the real functions reproduce, on the model's inputs, the outputs that violate '%s'" % label) if confirmed else "not reproduced")
    except (ExtractionBreak, ValueError, subprocess.TimeoutExpired, KeyError) as ex:
        output = "replay not possible: %s" % ex
        confirmed = None
    info["replay_output"] = output[-6000:]
    info["reproduced_on_real_code"] = confirmed
    info["replay_source"] = base + ".cpp" if os.path.exists(base + ".cpp") else None
    with open(base + ".json", "w") as fh:
        json.dump(info, fh, indent=1, default=str)
    return base + ".json", confirmed, output
