"""Reference models of the std:: library pieces rkcommon leans on (shared_ptr, vector, array, string, memcpy,
new/delete).  Everything here is ASSUMED (trusted base) and listed as such in the evidence: the models are small C
texts (shared_ptr: exact reference counting; vector/string: an owner of one heap block (b, n) whose mutators are
contracts returning a fresh block), generated per instantiation."""
import re
from collections import OrderedDict
from cxx2c import X, Ty, parse_type, fn_ret_type, deref, addr, sanitize, _split_top
from astload import ExtractionBreak


def targs(canon):
    i = canon.index("<")
    return _split_top(canon[i + 1:-1])


BSTR_MODEL = """
/* bounded std::string code model: {char b[%(CAP)d]; n; cap} -- characters inline, no heap */
static inline void %(s)s_init(%(s)s *v) { v->n = 0; v->cap = %(CAP)d; }
static inline void %(s)s_dtor(%(s)s *v) { (void)v; }
static inline void %(s)s_clear(%(s)s *v) { v->n = 0; }
static inline unsigned long %(s)s_size(%(s)s *v) { return v->n; }
static void %(s)s_from_buf(%(s)s *v, const char *p, unsigned long n) { unsigned long i; __CPROVER_assert(n <= %(CAP)d, "BOUND string longer than the bounded model's capacity"); v->n = n; v->cap = %(CAP)d; for (i = 0; i < n; i++) v->b[i] = p[i]; }
static void %(s)s_from_cstr(%(s)s *v, const char *p) { unsigned long n = 0; while (p[n] != 0) n++; %(s)s_from_buf(v, p, n); }
static void %(s)s_copy(%(s)s *v, %(s)s *o) { *v = *o; }
static void %(s)s_assign_copy(%(s)s *v, %(s)s *o) { *v = *o; }
static void %(s)s_assign_cstr(%(s)s *v, const char *p) { %(s)s t; %(s)s_from_cstr(&t, p); *v = t; }
static inline void %(s)s_push_back(%(s)s *v, char *x) { __CPROVER_assert(v->n < %(CAP)d, "BOUND string longer than the bounded model's capacity"); v->b[v->n] = *x; v->n++; }
static inline char *%(s)s_at(%(s)s *v, unsigned long i) { if (i >= v->n) { __verif_exc = %(OOR)s; return v->b; } return v->b + i; }
static inline void %(s)s_resize(%(s)s *v, unsigned long n) { unsigned long i; __CPROVER_assert(n <= %(CAP)d, "BOUND string longer than the bounded model's capacity"); for (i = v->n; i < n; i++) v->b[i] = 0; v->n = n; }
static unsigned long %(s)s_find_last_of_c(%(s)s *v, char c) { unsigned long i = v->n; while (i > 0) { --i; if (v->b[i] == c) return i; } return (unsigned long)-1; }
static unsigned long %(s)s_find_first_of_c(%(s)s *v, char c) { unsigned long i = 0; while (i < v->n) { if (v->b[i] == c) return i; ++i; } return (unsigned long)-1; }
static unsigned long %(s)s_find_last_of_c_pos(%(s)s *v, char c, unsigned long pos) { unsigned long i = (v->n == 0) ? 0 : (pos < v->n - 1 ? pos + 1 : v->n); while (i > 0) { --i; if (v->b[i] == c) return i; } return (unsigned long)-1; }
static unsigned long %(s)s_find_c(%(s)s *v, char c, unsigned long pos) { unsigned long i; for (i = pos; i < v->n; i++) if (v->b[i] == c) return i; return (unsigned long)-1; }
static unsigned long %(s)s_find_buf(%(s)s *v, const char *p, unsigned long m, unsigned long pos)
{
  unsigned long i, j;
  if (m == 0) return pos <= v->n ? pos : (unsigned long)-1;
  for (i = pos; i + m <= v->n; i++) { _Bool ok = 1; for (j = 0; j < m; j++) if (v->b[i + j] != p[j]) ok = 0; if (ok) return i; }
  return (unsigned long)-1;
}
static unsigned long %(s)s_find_cstr(%(s)s *v, const char *p, unsigned long pos) { unsigned long m = 0; while (p[m] != 0) m++; return %(s)s_find_buf(v, p, m, pos); }
static _Bool %(s)s_has(%(s)s *set, char c) { unsigned long j; for (j = 0; j < set->n; j++) if (set->b[j] == c) return 1; return 0; }
static unsigned long %(s)s_find_first_of(%(s)s *v, %(s)s *set, unsigned long pos) { unsigned long i; for (i = pos; i < v->n; i++) if (%(s)s_has(set, v->b[i])) return i; return (unsigned long)-1; }
static unsigned long %(s)s_find_first_not_of(%(s)s *v, %(s)s *set, unsigned long pos) { unsigned long i; for (i = pos; i < v->n; i++) if (!%(s)s_has(set, v->b[i])) return i; return (unsigned long)-1; }
static %(s)s %(s)s_substr(%(s)s *v, unsigned long pos, unsigned long len)
{
  %(s)s r; r.n = 0; r.cap = %(CAP)d;
  if (pos > v->n) { __verif_exc = %(OOR)s; return r; }
  unsigned long m = v->n - pos; if (len < m) m = len;
  %(s)s_from_buf(&r, v->b + pos, m);
  return r;
}
static %(s)s %(s)s_concat_buf(%(s)s *a, const char *p, unsigned long n)
{
  %(s)s r; unsigned long i;
  __CPROVER_assert(a->n + n <= %(CAP)d, "BOUND string longer than the bounded model's capacity");
  r = *a; r.cap = %(CAP)d;
  for (i = 0; i < n; i++) r.b[a->n + i] = p[i];
  r.n = a->n + n;
  return r;
}
static %(s)s %(s)s_concat(%(s)s *a, %(s)s *b) { return %(s)s_concat_buf(a, b->b, b->n); }
static %(s)s %(s)s_concat_c(%(s)s *a, char c) { return %(s)s_concat_buf(a, &c, 1); }
static %(s)s %(s)s_concat_cstr(%(s)s *a, const char *p) { unsigned long n = 0; while (p[n] != 0) n++; return %(s)s_concat_buf(a, p, n); }
static _Bool %(s)s_eq(%(s)s *a, %(s)s *b) { unsigned long i; if (a->n != b->n) return 0; for (i = 0; i < a->n; i++) if (a->b[i] != b->b[i]) return 0; return 1; }
static _Bool %(s)s_eq_cstr(%(s)s *a, const char *p) { unsigned long i; for (i = 0; i < a->n; i++) if (p[i] == 0 || a->b[i] != p[i]) return 0; return p[a->n] == 0; }
"""



class StdLib:
    def __init__(self, tr):
        self.tr = tr
        self.text = OrderedDict()      # key -> C text (typedefs / inline model functions), emitted after records
        self.contracts = OrderedDict() # cname -> declaration text with assumed contract (replaced at call sites)
        self.names = {}

    # ------------------------------------------------------------------ records
    OPAQUE_RE = re.compile(r"std::(__cxx11::)?(basic_string<|map<|vector<|basic_stringstream<|basic_ostream<|basic_ostringstream<|set<|list<|unordered_map<|_Rb_tree_iterator<|_Rb_tree_const_iterator<|pair<)")

    def is_opaque(self, canon):
        extra = self.tr.opts.get("opaque_extra")
        if extra and re.match(extra, canon):
            return True
        if not self.tr.opts.get("opaque_std"):
            return False
        return bool(self.OPAQUE_RE.match(canon))

    def opaque_value(self, ty):
        """nondeterministic value of C++ type ty (used for results of opaque std operations)"""
        tr = self.tr
        if ty.kind == "builtin" and ty.name == "void":
            return X("cast", "void", X("lit", "0"))
        if ty.kind == "builtin" and ty.name == "bool":
            return X("call", "nondet__Bool", [], ty=ty)
        if ty.kind == "builtin":
            return X("cast", tr.ctype(ty), X("call", "nondet_unsigned_long", []), ty=ty)
        if ty.kind == "ref" and ty.to.kind == "rec":
            cn = tr.need_record(ty.to.name)
            g = "verif_opaque_" + cn
            tr.globals.setdefault(g, "static %s %s;" % (cn, g))
            tr.cur.globals[g] = True
            return deref(X("addr", X("var", g, ty=ty.to), ty=Ty("ptr", to=ty.to)))
        if ty.kind == "rec":
            return X("sexpr", [X("decl", ty, "__ov", None)], X("var", "__ov", ty=ty), ty=ty)
        if ty.kind == "ptr":
            # an arbitrary pointer that must never be dereferenced by the extracted code (e.g. c_str() handed to a stub)
            return X("cast", tr.ctype(ty), X("lit", "((void*)0)"), ty=ty)
        raise ExtractionBreak("opaque std operation returning %s" % ty.key())

    def record(self, canon):
        """fields of a modelled std record, or None; ("alias", Ty) for iterator types modelled as pointers"""
        if self.is_opaque(canon):
            self.tr.assume("opaque std containers/strings", "in this unit std::string / std::map / std::vector<class> / string streams are OPAQUE: their values are not modelled, every operation on them evaluates its arguments and returns an arbitrary value (sound for memory safety of code that never indexes memory through them)")
            return [("g_opaque", parse_type("char"))]
        if canon.startswith("std::shared_ptr<") or canon.startswith("std::__shared_ptr<"):
            t = parse_type(targs(canon)[0])
            return [("p", Ty("ptr", to=t)), ("c", Ty("ptr", to=Ty("rec", name="verif_ctrl")))]
        if canon.startswith("std::unique_ptr<") and self.tr.opts.get("unique_ptr_delete") is not None:
            return [("p", Ty("ptr", to=parse_type(targs(canon)[0])))]
        if re.match(r"std::(__cxx11::)?basic_stringstream<char", canon) and self.tr.opts.get("bounded_str"):
            strc = "std::basic_string<char>"
            return [("buf", Ty("rec", name=strc)), ("pos", parse_type("unsigned long")), ("fail", parse_type("bool"))]
        if canon.startswith("std::vector<") and self.tr.opts.get("bounded_vec"):
            return [("b", Ty("arr", to=parse_type(targs(canon)[0]), n=int(self.tr.opts["bounded_vec"]))), ("n", parse_type("unsigned long")), ("cap", parse_type("unsigned long"))]
        if self.is_string(canon) and self.tr.opts.get("bounded_str"):
            return [("b", Ty("arr", to=parse_type("char"), n=int(self.tr.opts["bounded_str"]))), ("n", parse_type("unsigned long")), ("cap", parse_type("unsigned long"))]
        if canon.startswith("std::vector<") or self.is_string(canon):
            t = parse_type(targs(canon)[0])
            return [("b", Ty("ptr", to=t)), ("n", parse_type("unsigned long")), ("cap", parse_type("unsigned long"))]
        if canon.startswith("std::array<"):
            a = targs(canon)
            return [("_M_elems", Ty("arr", to=parse_type(a[0]), n=int(a[1])))]
        if canon.startswith("std::atomic<"):
            return [("v", parse_type(targs(canon)[0]))]
        if canon.startswith("std::function<"):
            return [("obj", parse_type("void *")), ("tag", parse_type("int"))]
        if canon.startswith("std::pair<"):
            a = targs(canon)
            return [("first", parse_type(a[0])), ("second", parse_type(a[1]))]
        if canon in ("std::mutex",):
            return [("g_held", parse_type("bool"))]
        if canon.startswith("std::lock_guard<"):
            return [("m", Ty("ptr", to=Ty("rec", name="std::mutex")))]
        return None

    @staticmethod
    def is_string(canon):
        return bool(re.match(r"std::(__cxx11::)?basic_string<char", canon))

    def is_veclike(self, canon):
        return canon.startswith("std::vector<") or self.is_string(canon)

    def alias(self, canon):
        """std types modelled as plain C types"""
        if canon.startswith("__gnu_cxx::__normal_iterator<"):
            a = targs(canon)
            if len(a) == 2 and re.match(r"std::(vector|basic_string|__cxx11::basic_string)<", a[1]):
                return parse_type(a[0])
        if canon == "verif_ctrl":
            return None
        return None

    # ------------------------------------------------------------------ helpers
    def sp_name(self, canon):
        return self.tr.record_cname(canon)

    def elem_delete(self, t, array=False):
        """C statement text deleting object(s) *p of type t"""
        tr = self.tr
        if t.kind == "rec" and t.name in tr.ast.Rname and not array:
            r = tr.ast.R[tr.ast.Rname[t.name]]
            if "ntdtor" in r or "poly" in r:
                d = r.get("dtor")
                if d:
                    fn = tr.request(d)
                    tr.cur.calls[fn] = True
                    return "%s(p); free(p);" % fn
        return "free(p);"

    def ensure_sp(self, canon):
        tr = self.tr
        s = tr.need_record(canon)
        if s in self.text:
            return s
        t = parse_type(targs(canon)[0])
        T = tr.ctype(t)
        delete = self.elem_delete(t)
        self.text[s] = """
static inline void %(s)s_null(%(s)s *s) { s->p = 0; s->c = 0; }
static inline void %(s)s_raw(%(s)s *s, %(T)s *p) { s->p = p; s->c = 0; if (p) { s->c = (verif_ctrl *)verif_malloc(sizeof(verif_ctrl)); s->c->cnt = 1; } }
static inline void %(s)s_copy(%(s)s *s, %(s)s *o) { s->p = o->p; s->c = o->c; if (s->c) s->c->cnt++; }
static inline void %(s)s_move(%(s)s *s, %(s)s *o) { s->p = o->p; s->c = o->c; o->p = 0; o->c = 0; }
static inline void %(s)s_dtor(%(s)s *s) { if (s->c) { s->c->cnt--; if (s->c->cnt == 0) { %(T)s *p = s->p; %(delete)s free(s->c); } } s->p = 0; s->c = 0; }
static inline void %(s)s_assign(%(s)s *s, %(s)s *o) { %(s)s t; %(s)s_copy(&t, o); %(s)s_dtor(s); *s = t; }
static inline void %(s)s_assign_move(%(s)s *s, %(s)s *o) { %(s)s t; %(s)s_move(&t, o); %(s)s_dtor(s); *s = t; }
""" % dict(s=s, T=T, delete=delete)
        self.model_deps = getattr(self, "model_deps", {})
        if t.kind == "rec" and t.name in tr.ast.Rname:
            r = tr.ast.R[tr.ast.Rname[t.name]]
            if ("ntdtor" in r or "poly" in r) and r.get("dtor"):
                self.model_deps[s + "_dtor"] = [tr.request(r["dtor"])]
        tr.assume("std::shared_ptr", "reference model: {pointer, control block with an exact owner count}; last owner deletes the object (lib/stdlib.py)")
        return s

    GHOSTS = ("verif_gi", "verif_gj", "verif_hi", "verif_hj")

    def flat_fields(self, t, path=""):
        """access paths of the scalar leaves of C++ type t (for field-wise equality in contracts)"""
        tr = self.tr
        if t.kind in ("builtin", "ptr", "enum"):
            return [path]
        if t.kind == "rec":
            fl = self.record(t.name)
            if fl is None and t.name in tr.ast.Rname:
                fl = tr.record_fields(t.name) if hasattr(tr, "record_fields") else None
            if fl is None:
                raise ExtractionBreak("tracked std::vector: element type '%s' has no flat field list" % t.name)
            out = []
            for (fn, ft) in fl:
                out += self.flat_fields(ft, path + "." + fn)
            return out
        raise ExtractionBreak("tracked std::vector: element type %s" % t.key())

    def ensure_bstr(self, canon):
        """bounded std::string CODE model: the characters live inline in the struct (no heap, no pointers), capacity
        opts['bounded_str']; every operation is C code with loops (run with --unwind: results are BOUNDED by the capacity)."""
        tr = self.tr
        s = tr.need_record(canon)
        if s in self.text:
            return s
        OOR = tr.exc_tag("std::out_of_range")
        self.text[s] = BSTR_MODEL % dict(s=s, CAP=int(tr.opts["bounded_str"]), OOR=OOR)
        tr.opts.setdefault("stub_may_throw", [])
        tr.opts["stub_may_throw"] = list(tr.opts["stub_may_throw"]) + [n for n in (s + "_substr", s + "_at", s + "_resize") if n not in tr.opts["stub_may_throw"]]
        tr.assume("std::string (bounded code model)", "a string is {char b[%d]; n}: characters inline in the struct, no heap; construction from C strings / copies / substr / operator+ / find_last_of / comparisons / resize are C code with loops (run with --unwind, so results are BOUNDED by that capacity); an operation producing a longer string fails the assertion 'BOUND ...' (lib/stdlib.py)" % int(tr.opts["bounded_str"]))
        return s

    def ensure_bvec(self, canon):
        """bounded std::vector CODE model: elements inline in the struct (capacity opts['bounded_vec']); elements are copied
        by value (sound for the trivially copyable C representations used here, incl. the bounded string model)"""
        tr = self.tr
        s = tr.need_record(canon)
        if s in self.text:
            return s
        t = parse_type(targs(canon)[0])
        T = tr.ctype(t)
        if t.kind == "rec":
            tr.need_record(t.name)
            if self.is_string(t.name):
                self.ensure_vec(t.name)
        OOR = tr.exc_tag("std::out_of_range")
        CAP = int(tr.opts["bounded_vec"])
        # elements that own something (shared_ptr): copies take a reference, moves empty the source, erased elements are released
        EL_COPY, EL_MOVED, EL_DROP = "v->b[v->n] = *x;", "", ""
        if t.kind == "rec" and t.name.startswith("std::shared_ptr<"):
            sp = self.ensure_sp(t.name)
            EL_COPY = "%s_copy(&v->b[v->n], x);" % sp
            EL_MOVED = "x->p = 0; x->c = 0;"
            EL_DROP = "%s_dtor(&v->b[k]);" % sp
        self.text[s] = """
/* bounded std::vector code model: {%(T)s b[%(CAP)d]; n; cap} */
static inline void %(s)s_init(%(s)s *v) { v->n = 0; v->cap = %(CAP)d; }
static inline void %(s)s_dtor(%(s)s *v) { (void)v; }
static inline void %(s)s_clear(%(s)s *v) { v->n = 0; }
static inline void %(s)s_push_back(%(s)s *v, %(T)s *x) { __CPROVER_assert(v->n < %(CAP)d, "BOUND vector longer than the bounded model's capacity"); %(EL_COPY)s v->n++; }
static inline void %(s)s_push_back_move(%(s)s *v, %(T)s *x) { __CPROVER_assert(v->n < %(CAP)d, "BOUND vector longer than the bounded model's capacity"); v->b[v->n] = *x; %(EL_MOVED)s v->n++; }
/* element access goes through a case split over CONCRETE indices: CBMC 6.11 mis-reads through a pointer to an
 * array-containing member of arr[i] when i is symbolic (probe: /verif/DESIGN.md 14.3) */
static %(T)s *%(s)s_elem(%(s)s *v, unsigned long i) { unsigned long k; __CPROVER_assert(i < %(CAP)d, "vector index inside the bounded model's storage"); for (k = 0; k + 1 < %(CAP)d; k++) if (k == i) return &v->b[k]; return &v->b[%(CAP)d - 1]; }
static inline %(T)s *%(s)s_at(%(s)s *v, unsigned long i) { if (i >= v->n) { __verif_exc = %(OOR)s; return &v->b[0]; } return %(s)s_elem(v, i); }
static inline void %(s)s_resize(%(s)s *v, unsigned long n) { __CPROVER_assert(n <= v->n, "BOUND growing resize is not modelled for the bounded vector"); v->n = n; }
static inline void %(s)s_pop_back(%(s)s *v) { unsigned long k = v->n - 1; __CPROVER_assert(v->n > 0, "pop_back on a non-empty vector"); for (k = 0; k < %(CAP)d; k++) if (k + 1 == v->n) { %(EL_DROP)s } v->n--; }
/* erase [first, last): the later elements move down in order (elements are copied by value) */
static %(T)s *%(s)s_erase_range(%(s)s *v, %(T)s *first, %(T)s *last)
{
  unsigned long a = (unsigned long)(first - v->b), e = (unsigned long)(last - v->b), k;
  __CPROVER_assert(a <= e && e <= v->n, "erase range lies inside the vector");
  for (k = 0; k < %(CAP)d; k++) if (k >= a && k < e) { %(EL_DROP)s }
  for (k = 0; k < %(CAP)d; k++) if (k >= e && k < v->n) v->b[k - (e - a)] = v->b[k];
  v->n -= (e - a);
  return first;
}
""" % dict(s=s, T=T, CAP=CAP, OOR=OOR, EL_COPY=EL_COPY, EL_MOVED=EL_MOVED, EL_DROP=EL_DROP)
        tr.opts.setdefault("stub_may_throw", [])
        tr.opts["stub_may_throw"] = list(tr.opts["stub_may_throw"]) + [n for n in (s + "_at", s + "_resize") if n not in tr.opts["stub_may_throw"]]
        tr.assume("std::vector (bounded code model)", "elements inline in the struct, capacity %d, copied by value; push_back beyond the capacity fails the assertion 'BOUND ...' (lib/stdlib.py)" % CAP)
        return s

    def is_tracked(self, canon):
        o = self.tr.opts
        if (canon.startswith("std::vector<") and o.get("bounded_vec")) or (self.is_string(canon) and o.get("bounded_str")):
            return True
        return bool(o.get("tracked_vec")) and (canon.startswith("std::vector<") or (bool(o.get("tracked_str")) and self.is_string(canon)))

    def ensure_tvec(self, canon):
        """value-tracking std::vector model: {b, n, cap} with b one heap block of cap elements, n <= cap.  Operations that do
        not reallocate are CODE; reallocation is an ASSUMED contract that preserves the elements at the ghost indices
        verif_gi/gj/hi/hj (a sound instance of 'all elements preserved')."""
        tr = self.tr
        s = tr.need_record(canon)
        if s in self.text:
            return s
        t = parse_type(targs(canon)[0])
        T = tr.ctype(t)
        flat = self.flat_fields(t)
        OOR = tr.exc_tag("std::out_of_range")
        LE = tr.exc_tag("std::length_error")
        MAXSZ = "1099511627776ul"
        self.text[s] = """
static inline void %(s)s_init(%(s)s *v) { v->b = 0; v->n = 0; v->cap = 0; }
static inline void %(s)s_dtor(%(s)s *v) { if (v->b) free(v->b); v->b = 0; v->n = 0; v->cap = 0; }
static inline void %(s)s_clear(%(s)s *v) { v->n = 0; }
#define %(s)s_SNAP(G) ((G) < v->n ? v->b[G] : (%(T)s){0})
#define %(s)s_SNAPS %(s)s_SNAP(verif_gi), %(s)s_SNAP(verif_gj), %(s)s_SNAP(verif_hi), %(s)s_SNAP(verif_hj)
static inline void %(s)s_push_back(%(s)s *v, %(T)s *x) { %(T)s t = *x; if (v->n == v->cap) %(s)s_grow(v, %(s)s_SNAPS); v->b[v->n] = t; v->n++; }
static inline %(T)s *%(s)s_at(%(s)s *v, unsigned long i) { if (i >= v->n) { __verif_exc = %(OOR)s; return v->b; } return v->b + i; }
static inline void %(s)s_pop_back(%(s)s *v) { __CPROVER_assert(v->n > 0, "pop_back on a non-empty vector"); v->n--; }
static inline void %(s)s_resize(%(s)s *v, unsigned long n) { if (n <= v->n) { v->n = n; return; } if (n > %(MAXSZ)s) { __verif_exc = %(LE)s; return; } %(s)s_grow_to(v, n, %(s)s_SNAPS); }
""" % dict(s=s, T=T, OOR=OOR, LE=LE, MAXSZ=MAXSZ)
        def preserved(upto_old_n=True):
            out = []
            for G in self.GHOSTS:
                for f in flat:
                    out.append("IMP(%s < __CPROVER_old(v->n), v->b[%s]%s == s_%s%s)" % (G, G, f, G, f))
            return out
        def zeroed():
            out = []
            for G in self.GHOSTS:
                for f in flat:
                    out.append("IMP(%s >= __CPROVER_old(v->n) && %s < v->n, v->b[%s]%s == 0)" % (G, G, G, f))
            return out
        FRESH = "__CPROVER_is_fresh(v->b, v->cap * sizeof(%s))" % T
        SN = "".join(", %s s_%s" % (T, G) for G in self.GHOSTS)
        self.contracts[s + "_grow"] = ("void %s_grow(%s *v" + SN + ")\n__CPROVER_requires(__CPROVER_rw_ok(v, sizeof(*v)) && v->n == v->cap && v->cap < %s)\n"
            "__CPROVER_ensures(v->cap > __CPROVER_old(v->cap) && v->cap <= %s && v->n == __CPROVER_old(v->n))\n__CPROVER_ensures(%s)\n%s\n__CPROVER_assigns(*v)\n__CPROVER_frees(v->b)") % (
            s, s, MAXSZ, MAXSZ, FRESH, "\n".join("__CPROVER_ensures(%s)" % e for e in preserved()))
        self.contracts[s + "_grow_to"] = ("void %s_grow_to(%s *v, unsigned long n" + SN + ")\n__CPROVER_requires(__CPROVER_rw_ok(v, sizeof(*v)) && n > v->n && n <= %s)\n"
            "__CPROVER_ensures(v->cap >= n && v->cap <= %s && v->n == n)\n__CPROVER_ensures(%s)\n%s\n__CPROVER_assigns(*v)\n__CPROVER_frees(v->b)") % (
            s, s, MAXSZ, MAXSZ, FRESH, "\n".join("__CPROVER_ensures(%s)" % e for e in preserved() + zeroed()))
        NEL = "((unsigned long)(__CPROVER_POINTER_OFFSET(last) - __CPROVER_POINTER_OFFSET(first)) / sizeof(%s))" % T
        self.contracts[s + "_from_range"] = ("void %s_from_range(%s *v, %s *first, %s *last)\n__CPROVER_requires(__CPROVER_rw_ok(v, sizeof(*v)))\n"
            "__CPROVER_requires(first == last || (__CPROVER_same_object(first, last) && __CPROVER_POINTER_OFFSET(first) <= __CPROVER_POINTER_OFFSET(last) && __CPROVER_r_ok(first, %s * sizeof(%s))))\n"
            "__CPROVER_ensures(v->n == (first == last ? 0ul : %s) && v->cap >= v->n && v->cap <= %s)\n__CPROVER_ensures((v->cap == 0 && v->b == 0) || (v->cap > 0 && %s))\n%s\n__CPROVER_assigns(*v)") % (
            s, s, T, T, NEL, T, NEL, MAXSZ, FRESH,
            "\n".join("__CPROVER_ensures(IMP(%s < v->n, %s))" % (G, " && ".join("v->b[%s]%s == first[%s]%s" % (G, f, G, f) for f in flat)) for G in self.GHOSTS))
        tr.opts.setdefault("stub_may_throw", [])
        tr.opts["stub_may_throw"] = list(tr.opts["stub_may_throw"]) + [n for n in (s + "_at", s + "_resize") if n not in tr.opts["stub_may_throw"]]
        self.model_deps = getattr(self, "model_deps", {})
        self.model_deps[s + "_push_back"] = [s + "_grow"]
        self.model_deps[s + "_resize"] = [s + "_grow_to"]
        tr.assume("std::vector (value-tracking model)", "{b, n, cap}: one heap block of cap elements, n <= cap; size/at/back/operator[]/push_back without reallocation/shrinking resize/clear are CODE over that block; reallocation (push_back at n == cap, growing resize) is an ASSUMED contract: fresh block, larger capacity, elements preserved at the ghost indices verif_gi/gj/hi/hj (a sound instance of 'all elements preserved'; new elements of a growing resize are zero there); max_size modelled as 2^40: push_back on a vector of 2^40 elements is outside the model (callers' contracts require fewer) (lib/stdlib.py)")
        return s

    def ensure_up(self, canon):
        """std::unique_ptr<T>: {p} with exact single ownership; destroying the owned object goes through the unit's delete stub
        (opts unique_ptr_delete[canon] = C function name) so that destructions can be counted / checked"""
        tr = self.tr
        s = tr.need_record(canon)
        if s in self.text:
            return s
        T = tr.ctype(parse_type(targs(canon)[0]))
        D = tr.opts["unique_ptr_delete"].get(canon)
        if D is None:
            raise ExtractionBreak("std::unique_ptr<%s>: no delete stub named by the unit" % T)
        self.text[s] = """
static inline void %(s)s_null(%(s)s *s) { s->p = 0; }
static inline void %(s)s_raw(%(s)s *s, %(T)s *p) { s->p = p; }
static inline void %(s)s_move(%(s)s *s, %(s)s *o) { s->p = o->p; o->p = 0; }
static inline void %(s)s_dtor(%(s)s *s) { if (s->p) %(D)s(s->p); s->p = 0; }
static inline void %(s)s_reset_raw(%(s)s *s, %(T)s *p) { %(T)s *old = s->p; s->p = p; if (old) %(D)s(old); }
static inline void %(s)s_assign_move(%(s)s *s, %(s)s *o) { %(T)s *old = s->p; s->p = o->p; o->p = 0; if (old) %(D)s(old); }
""" % dict(s=s, T=T, D=D)
        self.model_deps = getattr(self, "model_deps", {})
        tr.assume("std::unique_ptr", "reference model: {pointer} with exact single ownership; the owned object is destroyed through the unit's delete stub")
        return s

    def ensure_vec(self, canon):
        tr = self.tr
        if self.is_string(canon) and tr.opts.get("bounded_str"):
            return self.ensure_bstr(canon)
        if canon.startswith("std::vector<") and tr.opts.get("bounded_vec"):
            return self.ensure_bvec(canon)
        if self.is_tracked(canon):
            return self.ensure_tvec(canon)
        s = tr.need_record(canon)
        if s in self.text:
            return s
        t = parse_type(targs(canon)[0])
        if t.kind == "rec" and t.name in tr.ast.Rname and "trivcopy" not in tr.ast.R[tr.ast.Rname[t.name]]:
            raise ExtractionBreak("std::vector of non-trivially-copyable '%s' is not modelled" % t.name)
        T = tr.ctype(t)
        self.text[s] = """
static inline void %(s)s_init(%(s)s *v) { v->b = 0; v->n = 0; v->cap = 0; }
static inline unsigned long %(s)s_size(%(s)s *v) { return v->n; }
static inline %(T)s *%(s)s_data(%(s)s *v) { return v->b; }
static inline void %(s)s_dtor(%(s)s *v) { if (v->b) free(v->b); v->b = 0; v->n = 0; v->cap = 0; }
""" % dict(s=s, T=T)
        # mutators: assumed contracts -- afterwards the vector owns ONE fresh block of exactly n elements (or none when n == 0)
        OWN = "((v->n == 0 && v->b == 0) || (v->n > 0 && __CPROVER_is_fresh(v->b, v->n * sizeof(%s))))" % T
        def C(name, params, ens, extra_req=""):
            self.contracts["%s_%s" % (s, name)] = "void %s_%s(%s)\n__CPROVER_requires(__CPROVER_rw_ok(v, sizeof(*v)))%s\n__CPROVER_ensures(%s)\n__CPROVER_ensures(%s)\n__CPROVER_assigns(*v)\n__CPROVER_frees(v->b)" % (
                s, name, params, extra_req, ens, OWN)
        # resize beyond max_size() throws std::length_error and leaves the vector alone (max_size modelled as 2^40 elements)
        LE = tr.exc_tag("std::length_error")
        MAXSZ = "1099511627776ul"
        def CR(name, params):
            self.contracts["%s_%s" % (s, name)] = ("void %s_%s(%s)\n__CPROVER_requires(__CPROVER_rw_ok(v, sizeof(*v)) && __verif_exc == 0)\n"
                "__CPROVER_ensures(n <= %s ? (__verif_exc == 0 && v->n == n && %s) : (__verif_exc == %s && v->n == __CPROVER_old(v->n) && v->b == __CPROVER_old(v->b)))\n"
                "__CPROVER_assigns(*v, __verif_exc)\n__CPROVER_frees(v->b)") % (s, name, params, MAXSZ, OWN, LE)
            tr.opts.setdefault("stub_may_throw", [])
            if "%s_%s" % (s, name) not in tr.opts["stub_may_throw"]:
                tr.opts["stub_may_throw"] = list(tr.opts["stub_may_throw"]) + ["%s_%s" % (s, name)]
        CR("resize", "%s *v, unsigned long n" % s)
        CR("resize_val", "%s *v, unsigned long n, %s *val" % (s, T))
        NEL = "((unsigned long)(__CPROVER_POINTER_OFFSET(last) - __CPROVER_POINTER_OFFSET(first)) / sizeof(%s))" % T
        C("assign_range", "%s *v, %s *first, %s *last" % (s, T, T), "v->n == (first == last ? 0ul : %s)" % NEL,
          "\n__CPROVER_requires(first == last || (__CPROVER_same_object(first, last) && __CPROVER_POINTER_OFFSET(first) <= __CPROVER_POINTER_OFFSET(last) && __CPROVER_r_ok(first, %s * sizeof(%s))))" % (NEL, T))
        C("assign_copy", "%s *v, %s *o" % (s, s), "v->n == __CPROVER_old(o->n)", "\n__CPROVER_requires(__CPROVER_r_ok(o, sizeof(*o)))")
        C("clear", "%s *v" % s, "v->n == 0")
        C("push_back", "%s *v, %s *x" % (s, T), "v->n == __CPROVER_old(v->n) + 1")
        tr.assume("std::vector", "modelled as the owner of one heap block {b, n}: size()/data() read the fields; every mutator (resize, assign, clear, push_back, copy) is an ASSUMED contract: afterwards n is the new size and b is a fresh block of exactly n elements (null when empty); element values are not tracked (lib/stdlib.py)")
        return s

    # ------------------------------------------------------------------ constructors
    def ctor(self, ctor_fid, info, ptr, args, ce):
        """statements constructing a modelled std object at C pointer `ptr`, or None"""
        tr = self.tr
        q = info.get("qname", "")
        ety = tr.ety(ce)
        if re.match(r"std::(__cxx11::)?basic_stringstream<char", q) and tr.opts.get("bounded_str"):
            tr.need_record(ety.name)
            real = [a for a in args if a.get("kind") != "CXXDefaultArgExpr"]
            tr.rule("std::stringstream model")
            tr.assume("std::stringstream", "bounded model {buffer string, read position, fail flag}; only construction from a string, getline and the boolean test are modelled")
            o = deref(ptr)
            st = [X("expr", X("assign", "=", X("mem", o, "pos"), X("lit", "0ul"))), X("expr", X("assign", "=", X("mem", o, "fail"), X("lit", "0")))]
            if real:
                st.append(X("expr", X("assign", "=", X("mem", o, "buf"), tr.lv(real[0]) if tr.is_glvalue(real[0]) else tr.rv(real[0]))))
            else:
                st.append(X("expr", X("assign", "=", X("mem", X("mem", o, "buf"), "n"), X("lit", "0ul"))))
            return st
        if q.startswith("__gnu_cxx::__normal_iterator<") and len(args) == 1:
            # iterator copy / iterator -> const_iterator conversion: iterators are pointers
            tr.rule("iterator-as-pointer")
            return [X("expr", X("assign", "=", deref(ptr), X("cast", tr.ctype(tr.lower(ety)), tr.rv(args[0]))))]
        if ety.kind != "rec":
            return None
        canon = ety.name
        rets, ps = fn_ret_type(info["type"])
        if self.is_opaque(canon):
            tr.rule("opaque std constructor")
            return [X("expr", X("cast", "void", tr.discard(a))) for a in args if a.get("kind") != "CXXDefaultArgExpr"]
        if canon.startswith("std::unique_ptr<") and tr.opts.get("unique_ptr_delete") is not None:
            s = self.ensure_up(canon)
            tr.rule("std::unique_ptr model")
            real = [a for a in args if a.get("kind") != "CXXDefaultArgExpr"]
            if not real or "nullptr_t" in (ps[0] if ps else ""):
                return [X("expr", X("call", s + "_null", [ptr]))]
            pt = parse_type(ps[0])
            if pt.kind == "ref" and pt.to.kind == "rec" and pt.to.name.startswith("std::unique_ptr<"):
                return [X("expr", X("call", s + "_move", [ptr, tr.bind_ref(real[0])]))]
            return [X("expr", X("call", s + "_raw", [ptr, X("cast", tr.ctype(Ty("ptr", to=parse_type(targs(canon)[0]))), tr.rv(real[0]))]))]
        if canon.startswith("std::shared_ptr<"):
            s = self.ensure_sp(canon)
            def call(fn, *a):
                tr.rule("std::shared_ptr model")
                return [X("expr", X("call", "%s_%s" % (s, fn), [ptr] + list(a)))]
            if not args or "nullptr_t" in (ps[0] if ps else ""):
                return call("null")
            pt = parse_type(ps[0])
            if pt.kind == "ref" and pt.to.kind == "rec" and pt.to.name.startswith("std::shared_ptr<"):
                src = tr.bind_ref(args[0])
                if pt.to.name != canon:
                    # converting copy/move: pointee converted to a base at offset 0 (struct layout: base first)
                    s2 = self.ensure_sp(pt.to.name)
                    tr.rule("shared_ptr<Derived> -> shared_ptr<Base>")
                    src = X("cast", tr.ctype(Ty("ptr", to=ety)), src)
                return call("move" if pt.rv else "copy", src)
            if pt.kind == "ptr":
                return call("raw", X("cast", tr.ctype(Ty("ptr", to=parse_type(targs(canon)[0]))), tr.rv(args[0])))
            raise ExtractionBreak("std::shared_ptr constructor %s" % info.get("type"))
        if self.is_veclike(canon):
            s = self.ensure_vec(canon)
            T = parse_type(targs(canon)[0])
            init = [X("expr", X("call", s + "_init", [ptr]))]
            tr.rule("std::vector model")
            nonalloc = [a for a in args if a.get("kind") != "CXXDefaultArgExpr"]
            if not nonalloc:
                return init
            pt = parse_type(ps[0])
            bstr = self.is_string(canon) and bool(tr.opts.get("bounded_str"))
            if bstr and len(nonalloc) == 1 and pt.kind == "ptr":
                tr.cur.calls[s + "_from_cstr"] = True
                return [X("expr", X("call", s + "_from_cstr", [ptr, tr.rv(nonalloc[0])]))]
            if bstr and len(nonalloc) == 1 and pt.kind == "ref" and pt.to.kind == "rec" and pt.to.name == canon and not pt.rv:
                return [X("expr", X("call", s + "_copy", [ptr, tr.bind_ref(nonalloc[0])]))]
            if len(nonalloc) == 1 and pt.kind == "ref" and pt.to.kind == "rec" and pt.to.name == canon:
                if pt.rv:
                    return [X("expr", X("assign", "=", deref(ptr), tr.lv(nonalloc[0]))), X("expr", X("call", s + "_init", [tr.bind_ref(nonalloc[0])]))]
                self.use_contract(s + "_assign_copy")
                return init + [X("expr", X("call", s + "_assign_copy", [ptr, tr.bind_ref(nonalloc[0])]))]
            if len(nonalloc) == 2 and self.is_tracked(canon):
                self.use_contract(s + "_from_range")
                return init + [X("expr", X("call", s + "_from_range", [ptr, tr.rv(nonalloc[0]), tr.rv(nonalloc[1])]))]
            if len(nonalloc) == 2:
                self.use_contract(s + "_assign_range")
                return init + [X("expr", X("call", s + "_assign_range", [ptr, tr.rv(nonalloc[0]), tr.rv(nonalloc[1])]))]
            if len(nonalloc) == 1 and pt.kind == "builtin":
                self.use_contract(s + "_resize")
                return init + [X("expr", X("call", s + "_resize", [ptr, tr.rv(nonalloc[0])]))]
            raise ExtractionBreak("std::vector constructor %s" % info.get("type"))
        if canon == "std::mutex":
            tr.need_record(canon)
            tr.rule("std::mutex model")
            tr.assume("std::mutex / std::lock_guard", "ghost lock: a held flag; lock_guard's constructor asserts the mutex is free and takes it, its destructor releases it; fields declared guarded_by a mutex may only be accessed while it is held (lock discipline); that the discipline implies race freedom and linearisability for all interleavings is the standard thread-modular argument (trusted, not proved)")
            return [X("expr", X("assign", "=", X("mem", deref(ptr), "g_held"), X("lit", "0")))]
        if canon.startswith("std::lock_guard<"):
            tr.need_record(canon)
            tr.rule("std::lock_guard model")
            self.text.setdefault("lock_guard", """
static inline void verif_lock_guard_ctor(std_lock_guard_std_mutex *g, std_mutex *m) { __CPROVER_assert(m->g_held == 0, "LOCK mutex acquired while already held (self-deadlock)"); m->g_held = 1; g->m = m; VERIF_ON_ACQUIRE(m); }
static inline void verif_lock_guard_dtor(std_lock_guard_std_mutex *g) { g->m->g_held = 0; }
""".replace("VERIF_ON_ACQUIRE(m);", "verif_on_acquire(m);" if tr.opts.get("on_acquire") else "").replace("static inline void verif_lock_guard_ctor", ("void verif_on_acquire(std_mutex *m); /* unit-supplied interference point: what other threads may have done since this thread last held the mutex */\nstatic inline void verif_lock_guard_ctor" if tr.opts.get("on_acquire") else "static inline void verif_lock_guard_ctor"), 1))
            return [X("expr", X("call", "verif_lock_guard_ctor", [ptr, tr.bind_ref(args[0])]))]
        if canon.startswith("std::function<"):
            return self.function_ctor(canon, ptr, args, ps)
        if canon.startswith("std::atomic<"):
            tr.need_record(canon)
            tr.rule("std::atomic model")
            if args:
                return [X("expr", X("assign", "=", X("mem", deref(ptr), "v"), tr.rv(args[0])))]
            return []
        return None

    # ---- std::function: {heap copy of the callable, tag of its type}; operator() dispatches on the tag over the closed
    #      universe of callables that are ever stored in this function type in the unit (generated after translation)
    def function_ctor(self, canon, ptr, args, ps):
        tr = self.tr
        s = tr.need_record(canon)
        tr.rule("std::function model")
        tr.assume("std::function", "modelled as {heap copy of the stored callable, type tag}; invocation dispatches over the callables stored anywhere in the unit (closed universe); destruction is a no-op (the copy is leaked), copies share the stored callable")
        self.fn_types = getattr(self, "fn_types", {})
        reg = self.fn_types.setdefault(canon, [])
        o = deref(ptr)
        nonalloc = [a for a in args if a.get("kind") != "CXXDefaultArgExpr"]
        if not nonalloc or "nullptr_t" in (ps[0] if ps else ""):
            return [X("expr", X("assign", "=", X("mem", o, "obj"), X("lit", "((void*)0)"))), X("expr", X("assign", "=", X("mem", o, "tag"), X("lit", "0")))]
        pt = parse_type(ps[0])
        at = tr.ety(nonalloc[0]).noref()
        if at.kind == "rec" and at.name == canon:
            return [X("expr", X("assign", "=", o, tr.lv(nonalloc[0])))]
        if at.kind != "rec":
            raise ExtractionBreak("std::function constructed from a non-class callable (%s)" % at.key())
        if at.name not in reg:
            reg.append(at.name)
        tag = reg.index(at.name) + 1
        cn = tr.ctype(at)
        self.ensure_fn_dispatch(canon)
        self.fn_register_callop(canon, at.name)
        return [X("expr", X("assign", "=", X("mem", o, "obj"), X("call", "verif_malloc", [X("sizeof", cn)]))),
                X("expr", X("assign", "=", deref(X("cast", cn + " *", X("mem", o, "obj"))), tr.lv(nonalloc[0]) if tr.is_glvalue(nonalloc[0]) else tr.rv(nonalloc[0]))),
                X("expr", X("assign", "=", X("mem", o, "tag"), X("lit", str(tag))))]

    def ensure_fn_dispatch(self, canon):
        tr = self.tr
        s = tr.record_cname(canon)
        key = "fn_dispatch:" + s
        if key in self.text:
            return
        sig = targs(canon)[0]                      # e.g. "Probe ()" or "void ()"
        from cxx2c import fn_ret_type
        rets, ps = fn_ret_type(sig)
        rt = parse_type(rets)
        pts = [parse_type(p) for p in ps]
        # request the call operators now (so that they are translated); text is produced lazily
        def gen():
            lines = []
            args = "".join(", %s" % tr.cdecl(tr.lower(p), "a%d" % i) for i, p in enumerate(pts))
            lines.append("%s(%s *f%s)\n{" % (tr.cdecl(tr.lower(rt), "verif_fn_call_" + s), s, args))
            lines.append("  __CPROVER_assert(f->tag != 0, \"std::function invoked while empty (bad_function_call)\");")
            for i, cname in enumerate(self.fn_types.get(canon, [])):
                op = self.fn_callops.get((canon, cname))
                cn = tr.ctype(parse_type(cname))
                call = "%s((%s *)f->obj%s)" % (op, cn, "".join(", a%d" % k for k in range(len(pts))))
                lines.append("  if (f->tag == %d) { %s%s; %s }" % (i + 1, "" if rt.name == "void" else "return ", call, "return;" if rt.name == "void" else ""))
            if rt.name != "void":
                lines.append("  { %s; return z; }" % tr.cdecl(tr.lower(rt), "z"))
            lines.append("}")
            return "\n".join(lines) + "\n"
        self.text[key] = gen
        self.fn_callops = getattr(self, "fn_callops", {})
        # callables the unit declares may be stored by code outside the extracted functions (the caller's callable)
        for cname in tr.opts.get("function_callables", {}).get(canon, []):
            reg = self.fn_types.setdefault(canon, [])
            if cname not in reg:
                reg.append(cname)
            self.fn_register_callop(canon, cname)

    def fn_register_callop(self, canon, callable_canon):
        """find and request operator() of the callable class"""
        tr = self.tr
        self.fn_callops = getattr(self, "fn_callops", {})
        if (canon, callable_canon) in self.fn_callops:
            return
        rid = tr.ast.Rname.get(callable_canon)
        node = tr.ast.nodes.get(rid, {})
        for c in node.get("inner", []):
            if c.get("kind") == "CXXMethodDecl" and c.get("name") == "operator()":
                fn = tr.request(c["id"])
                tr.cur.calls[fn] = True
                self.fn_callops[(canon, callable_canon)] = fn
                return
        raise ExtractionBreak("callable '%s' stored in std::function has no operator()" % callable_canon)

    def deps_of(self, name):
        """extracted functions a generated model function calls (for closure computation)"""
        if name.startswith("verif_fn_call_"):
            sname = name[len("verif_fn_call_"):]
            out = []
            for (canon, cname), op in getattr(self, "fn_callops", {}).items():
                if self.tr.record_cname(canon) == sname:
                    out.append(op)
            return out
        return list(getattr(self, "model_deps", {}).get(name, []))

    def use_contract(self, name):
        self.tr.cur.calls[name] = True

    # ------------------------------------------------------------------ destructors
    def dtor(self, did, ty):
        tr = self.tr
        if ty.kind == "rec" and self.is_opaque(ty.name):
            return ""
        if ty.kind == "rec":
            if ty.name.startswith("std::shared_ptr<"):
                return self.ensure_sp(ty.name) + "_dtor"
            if ty.name.startswith("std::unique_ptr<") and tr.opts.get("unique_ptr_delete") is not None:
                return self.ensure_up(ty.name) + "_dtor"
            if self.is_veclike(ty.name):
                return self.ensure_vec(ty.name) + "_dtor"
            if ty.name.startswith("std::lock_guard<"):
                return "verif_lock_guard_dtor"
            if ty.name.startswith("std::function<"):
                return ""
            if re.match(r"std::(__cxx11::)?basic_stringstream<char", ty.name) and tr.opts.get("bounded_str"):
                return ""
            if ty.name.startswith("std::pair<"):
                # members: scalars, or strings of the bounded inline model (whose destructor is a no-op)
                for a in targs(ty.name):
                    t = parse_type(a)
                    if t.kind == "rec" and not (self.is_string(t.name) and tr.opts.get("bounded_str")):
                        raise ExtractionBreak("destructor of std::pair with member %s" % t.name)
                return ""
        return None

    # ------------------------------------------------------------------ calls
    def strip_base_casts(self, n):
        while n.get("kind") == "ImplicitCastExpr" and n.get("castKind") in ("UncheckedDerivedToBase", "DerivedToBase", "NoOp"):
            n = n["inner"][0]
        return n

    def call(self, q, fid, info, e, args, obj):
        tr = self.tr
        rets, ps = fn_ret_type(info["type"])
        if tr.opts.get("opaque_std") or tr.opts.get("opaque_extra"):
            # member of an opaque class, or a free function/operator with an opaque argument
            objty = None
            if obj is not None:
                on = self.strip_base_casts(obj[0])
                objty = tr.ety(on)
                if obj[1]:
                    objty = objty.to
            involved = [objty] if objty is not None else []
            involved += [parse_type(p).noref() for p in ps if p != "..."]
            if any(t is not None and t.kind == "rec" and self.is_opaque(t.name) for t in involved):
                tr.rule("opaque std operation")
                st = []
                if obj is not None:
                    st.append(X("expr", X("cast", "void", addr(tr.lv(self.strip_base_casts(obj[0]))) if not obj[1] else tr.rv(obj[0]))))
                real = [a for a in args if a.get("kind") != "CXXDefaultArgExpr"]
                mname = q.split("::")[-1]
                if (obj is not None and mname in ("assign", "append") and len(real) == 2
                        and all(tr.ety(a).noref().kind == "ptr" and tr.ety(a).noref().to.kind == "builtin" for a in real)):
                    # iterator-range member of an opaque string: the standard's precondition "[first, last) is a valid range" is an obligation
                    tr.rule("opaque std iterator range: valid-range obligation")
                    st.append(X("expr", X("call", "verif_std_valid_range", [tr.rv(real[0]), tr.rv(real[1])], ty=Ty("builtin", name="void"))))
                    real = []
                for a in real:
                    st.append(X("expr", X("cast", "void", tr.discard(a))))
                rt = parse_type(rets)
                v = self.opaque_value(rt)
                if rt.kind == "ref":
                    return deref(X("sexpr", st, addr(v), ty=Ty("ptr", to=rt.to)))
                return X("sexpr", st, v, ty=rt)
        if q.startswith("std::basic_ios<char") and q.endswith("operator bool") and obj is not None and tr.opts.get("bounded_str"):
            # boolean test of a stream (the bounded string-stream model, possibly reached through getline's result)
            o = tr.lv(self.strip_base_casts(obj[0]))
            tr.rule("std::stringstream model")
            return X("un", "!", X("mem", o, "fail", ty=parse_type("bool")), ty=parse_type("bool"))
        if q.startswith("std::unique_ptr<") and obj is not None and tr.opts.get("unique_ptr_delete") is not None:
            objn = self.strip_base_casts(obj[0])
            oty = tr.ety(objn)
            o = deref(tr.rv(objn)) if obj[1] else tr.lv(objn)
            if obj[1]:
                oty = oty.to
            canon = oty.name
            s = self.ensure_up(canon)
            T = parse_type(targs(canon)[0])
            m = q.split("::")[-1]
            p = X("mem", o, "p", ty=Ty("ptr", to=T))
            tr.rule("std::unique_ptr model")
            if m in ("operator->", "get"):
                return p
            if m == "operator*":
                return deref(p)
            if m == "operator bool":
                return X("bin", "!=", p, X("lit", "((void*)0)"), ty=parse_type("bool"))
            if m == "operator=":
                pt = parse_type(ps[0])
                if pt.kind == "ref" and pt.rv:
                    return deref(X("comma", X("call", s + "_assign_move", [addr(o), tr.bind_ref(args[0])]), addr(o), ty=Ty("ptr", to=oty)))
                if "nullptr_t" in ps[0]:
                    return deref(X("comma", X("call", s + "_dtor", [addr(o)]), addr(o), ty=Ty("ptr", to=oty)))
            if m == "reset" and not args:
                return X("call", s + "_dtor", [addr(o)])
            if m == "reset" and len(args) == 1:
                return X("call", s + "_reset_raw", [addr(o), tr.rv(args[0])])
            raise ExtractionBreak("std::unique_ptr member '%s' has no model" % m)
        # ---- shared_ptr members
        if re.match(r"std::(__shared_ptr_access|__shared_ptr|shared_ptr)<", q) and obj is not None:
            objn = self.strip_base_casts(obj[0])
            oty = tr.ety(objn)
            if obj[1]:
                oty = oty.to
                o = deref(tr.rv(objn))
            else:
                o = tr.lv(objn)
            canon = oty.name
            if not canon.startswith("std::shared_ptr<"):
                raise ExtractionBreak("shared_ptr member on %s" % canon)
            s = self.ensure_sp(canon)
            T = parse_type(targs(canon)[0])
            m = q.split("::")[-1]
            p = X("mem", o, "p", ty=Ty("ptr", to=T))
            tr.rule("std::shared_ptr model")
            if m in ("operator->", "get", "_M_get"):
                return p
            if m == "operator*":
                return deref(p)
            if m == "operator bool":
                return X("bin", "!=", p, X("lit", "((void*)0)"), ty=parse_type("bool"))
            if m == "operator=":
                pt = parse_type(ps[0])
                src = tr.bind_ref(args[0])
                if pt.to.name != canon:
                    self.ensure_sp(pt.to.name)
                    src = X("cast", tr.ctype(Ty("ptr", to=oty)), src)
                fn = "%s_%s" % (s, "assign_move" if pt.rv else "assign")
                return deref(X("comma", X("call", fn, [addr(o), src]), addr(o), ty=Ty("ptr", to=oty)))
            if m == "reset" and not args:
                return X("call", s + "_dtor", [addr(o)])
            if m == "use_count":
                return X("cond", X("mem", o, "c"), X("mem", deref(X("mem", o, "c")), "cnt"), X("lit", "0l"), ty=parse_type("long"))
            raise ExtractionBreak("std::shared_ptr member '%s' has no model" % m)
        if q == "std::make_shared":
            rt = parse_type(rets)
            s = self.ensure_sp(rt.name)
            T = parse_type(targs(rt.name)[0])
            cn = tr.ctype(T)
            ctor = self.find_ctor(T, len(args), [parse_type(p) for p in ps])
            tr.rule("std::make_shared model")
            o = X("var", "__o", ty=Ty("ptr", to=T))
            st = [X("decl", Ty("ptr", to=T), "__o", X("cast", cn + " *", X("call", "verif_malloc", [X("sizeof", cn)])))]
            if ctor is not None:
                fn = tr.request(ctor)
                tr.cur.calls[fn] = True
                st.append(X("expr", tr.wrap_call(ctor, X("call", fn, [o] + tr.call_args(ctor, args)))))
            elif args:
                raise ExtractionBreak("make_shared<%s>: no constructor found" % T.name)
            st.append(X("decl", rt, "__s", None))
            st.append(X("expr", X("call", s + "_raw", [addr(X("var", "__s", ty=rt)), o])))
            return X("sexpr", st, X("var", "__s", ty=rt), ty=rt)
        # ---- vector members
        if (q.startswith("std::vector<") or re.match(r"std::(__cxx11::)?basic_string<char", q)) and obj is not None:
            objn = self.strip_base_casts(obj[0])
            oty = tr.ety(objn)
            o = deref(tr.rv(objn)) if obj[1] else tr.lv(objn)
            if obj[1]:
                oty = oty.to
            canon = oty.name
            s = self.ensure_vec(canon)
            T = parse_type(targs(canon)[0])
            m = q.split("::")[-1]
            tr.rule("std::vector model")
            if m == "size":
                return X("mem", o, "n", ty=parse_type("unsigned long"))
            if m == "capacity":
                return X("mem", o, "cap", ty=parse_type("unsigned long"))
            if m == "empty":
                return X("bin", "==", X("mem", o, "n"), X("lit", "0ul"), ty=parse_type("bool"))
            if m in ("data", "c_str"):
                return X("mem", o, "b", ty=Ty("ptr", to=T))
            if m == "length":
                return X("mem", o, "n", ty=parse_type("unsigned long"))
            if m == "begin" or m == "cbegin":
                return X("mem", o, "b", ty=Ty("ptr", to=T))
            if m == "end" or m == "cend":
                return X("bin", "+", X("mem", o, "b"), X("mem", o, "n"), ty=Ty("ptr", to=T))
            if m == "operator[]" and canon.startswith("std::vector<") and tr.opts.get("bounded_vec"):
                return deref(X("call", s + "_elem", [addr(o), tr.rv(args[0])], ty=Ty("ptr", to=T)))
            if m == "operator[]":
                return X("index", X("mem", o, "b"), tr.rv(args[0]), ty=T)
            tracked = self.is_tracked(canon)
            if canon.startswith("std::vector<") and tr.opts.get("bounded_vec"):
                PT = Ty("ptr", to=T)
                if m == "pop_back":
                    return X("call", s + "_pop_back", [addr(o)], ty=Ty("builtin", name="void"))
                if m == "erase" and len(args) == 2:
                    return X("call", s + "_erase_range", [addr(o), tr.rv(args[0]), tr.rv(args[1])], ty=PT)
                if m == "erase" and len(args) == 1:
                    t1 = tr.newtmp(PT)
                    return X("comma", X("assign", "=", t1, tr.rv(args[0])), X("call", s + "_erase_range", [addr(o), t1, X("bin", "+", t1, X("lit", "1"), ty=PT)], ty=PT), ty=PT)
                if m == "operator[]":
                    return deref(X("call", s + "_elem", [addr(o), tr.rv(args[0])], ty=PT))
                if m == "back":
                    return deref(X("call", s + "_elem", [addr(o), X("bin", "-", X("mem", o, "n"), X("lit", "1ul"))], ty=PT))
                if m == "front":
                    return deref(X("call", s + "_elem", [addr(o), X("lit", "0ul")], ty=PT))
            bstr = self.is_string(canon) and bool(tr.opts.get("bounded_str"))
            if bstr:
                UL = parse_type("unsigned long")
                real = [a for a in args if a.get("kind") != "CXXDefaultArgExpr"]
                if m == "find_last_of" and len(real) == 1 and tr.ety(real[0]).noref().kind == "builtin":
                    return X("call", s + "_find_last_of_c", [addr(o), tr.rv(real[0])], ty=UL)
                if m in ("find_first_of", "find") and len(real) == 1 and tr.ety(real[0]).noref().kind == "builtin":
                    return X("call", s + "_find_first_of_c", [addr(o), tr.rv(real[0])], ty=UL)
                if m == "find_last_of" and len(real) == 2 and tr.ety(real[0]).noref().kind == "builtin":
                    # find_last_of(c, pos): the last occurrence at an index <= pos (pos == npos: the whole string)
                    return X("call", s + "_find_last_of_c_pos", [addr(o), tr.rv(real[0]), tr.rv(real[1])], ty=UL)
                if m == "find" and len(real) >= 1:
                    t0 = tr.ety(real[0]).noref()
                    pos = tr.rv(real[1]) if len(real) > 1 else X("lit", "0ul")
                    if t0.kind == "builtin":
                        return X("call", s + "_find_c", [addr(o), tr.rv(real[0]), pos], ty=UL)
                    if t0.kind in ("ptr", "arr"):
                        return X("call", s + "_find_cstr", [addr(o), tr.rv(real[0]), pos], ty=UL)
                if m in ("find_first_of", "find_first_not_of") and len(real) >= 1 and tr.ety(real[0]).noref().kind == "rec":
                    pos = tr.rv(real[1]) if len(real) > 1 else X("lit", "0ul")
                    return X("call", s + "_" + m, [addr(o), tr.bind_ref(real[0]), pos], ty=UL)
                if m == "substr":
                    a0 = tr.rv(real[0]) if len(real) > 0 else X("lit", "0ul")
                    a1 = tr.rv(real[1]) if len(real) > 1 else X("lit", "((unsigned long)-1)")
                    return X("callx", X("call", s + "_substr", [addr(o), a0, a1], ty=oty), s + "_substr", tr.jump_text(), None, ty=oty)
                if m == "operator=":
                    pt = parse_type(ps[0])
                    if pt.kind == "ptr":
                        return deref(X("comma", X("call", s + "_assign_cstr", [addr(o), tr.rv(args[0])]), addr(o), ty=Ty("ptr", to=oty)))
                    if pt.kind == "ref" and not pt.rv:
                        return deref(X("comma", X("call", s + "_assign_copy", [addr(o), tr.bind_ref(args[0])]), addr(o), ty=Ty("ptr", to=oty)))
            if m == "back":
                return X("index", X("mem", o, "b"), X("bin", "-", X("mem", o, "n"), X("lit", "1ul")), ty=T)
            if m == "front":
                return X("index", X("mem", o, "b"), X("lit", "0ul"), ty=T)
            if tracked:
                VOID = Ty("builtin", name="void")
                if m == "at":
                    tr.cur.calls[s + "_at"] = True
                    PT = Ty("ptr", to=T)
                    return deref(X("callx", X("call", s + "_at", [addr(o), tr.rv(args[0])], ty=PT), s + "_at", tr.jump_text(), None, ty=PT))
                if m == "resize" and len(args) == 1:
                    tr.cur.calls[s + "_resize"] = True
                    self.use_contract(s + "_grow_to")
                    return X("callx", X("call", s + "_resize", [addr(o), tr.rv(args[0])], ty=VOID), s + "_resize", tr.jump_text(), None, ty=VOID)
                if m == "clear":
                    return X("call", s + "_clear", [addr(o)], ty=VOID)
                if m == "pop_back" and not (canon.startswith("std::vector<") and tr.opts.get("bounded_vec")):
                    return X("call", s + "_pop_back", [addr(o)], ty=VOID)
                if m == "push_back":
                    fn = s + "_push_back"
                    if canon.startswith("std::vector<") and tr.opts.get("bounded_vec") and parse_type(ps[0]).rv:
                        fn = s + "_push_back_move"
                    tr.cur.calls[fn] = True
                    self.use_contract(s + "_grow")
                    return X("call", fn, [addr(o), tr.bind_ref(args[0])], ty=VOID)
            if m in ("resize",):
                VOID = Ty("builtin", name="void")
                if len(args) == 1:
                    self.use_contract(s + "_resize")
                    return X("callx", X("call", s + "_resize", [addr(o), tr.rv(args[0])], ty=VOID), s + "_resize", tr.jump_text(), None, ty=VOID)
                self.use_contract(s + "_resize_val")
                return X("callx", X("call", s + "_resize_val", [addr(o), tr.rv(args[0]), tr.bind_ref(args[1])], ty=VOID), s + "_resize_val", tr.jump_text(), None, ty=VOID)
            if m == "clear":
                self.use_contract(s + "_clear")
                return X("call", s + "_clear", [addr(o)])
            if m in ("shrink_to_fit", "reserve"):
                return X("cast", "void", X("lit", "0"))
            if m == "push_back":
                self.use_contract(s + "_push_back")
                return X("call", s + "_push_back", [addr(o), tr.bind_ref(args[0])])
            if m == "operator=":
                pt = parse_type(ps[0])
                if pt.rv:
                    # move assignment: release own block, take the source's, leave the source empty
                    src = tr.bind_ref(args[0])
                    t = tr.newtmp(Ty("ptr", to=oty))
                    return deref(X("comma", X("comma", X("comma", X("assign", "=", t, src), X("call", s + "_dtor", [addr(o)])),
                                              X("comma", X("assign", "=", o, deref(t)), X("call", s + "_init", [t]))), addr(o), ty=Ty("ptr", to=oty)))
                self.use_contract(s + "_assign_copy")
                return deref(X("comma", X("call", s + "_assign_copy", [addr(o), tr.bind_ref(args[0])]), addr(o), ty=Ty("ptr", to=oty)))
            raise ExtractionBreak("std::vector member '%s' has no model" % m)
        # ---- std::function members
        if q.startswith("std::function<") and obj is not None:
            objn = self.strip_base_casts(obj[0])
            oty = tr.ety(objn)
            o = deref(tr.rv(objn)) if obj[1] else tr.lv(objn)
            if obj[1]:
                oty = oty.to
            canon = oty.name
            s = tr.need_record(canon)
            m = q.split("::")[-1]
            tr.rule("std::function model")
            if m == "operator()":
                self.ensure_fn_dispatch(canon)
                self.fn_types = getattr(self, "fn_types", {})
                self.fn_types.setdefault(canon, [])
                fn = "verif_fn_call_" + s
                tr.cur.calls[fn] = True
                rt = parse_type(rets)
                return X("call", fn, [addr(o)] + [tr.rv(a) for a in args], ty=tr.lower(rt))
            if m == "operator bool":
                return X("bin", "!=", X("mem", o, "tag"), X("lit", "0"), ty=parse_type("bool"))
            if m == "operator=":
                return deref(X("comma", X("assign", "=", o, tr.lv(args[0])), addr(o), ty=Ty("ptr", to=oty)))
            raise ExtractionBreak("std::function member '%s' has no model" % m)
        # ---- array members
        if q.startswith("std::array<") and obj is not None:
            objn = obj[0]
            oty = tr.ety(objn)
            o = deref(tr.rv(objn)) if obj[1] else tr.lv(objn)
            if obj[1]:
                oty = oty.to
            a = targs(oty.name)
            T = parse_type(a[0])
            m = q.split("::")[-1]
            tr.rule("std::array model")
            first = X("addr", X("index", X("mem", o, "_M_elems"), X("lit", "0")), ty=Ty("ptr", to=T))
            if m in ("data", "begin", "cbegin"):
                return first
            if m in ("end", "cend"):
                return X("bin", "+", first, X("lit", a[1] + "ul"), ty=Ty("ptr", to=T))
            if m == "size":
                return X("lit", a[1] + "ul", ty=parse_type("unsigned long"))
            if m == "operator[]":
                return X("index", X("mem", o, "_M_elems"), tr.rv(args[0]), ty=T)
            raise ExtractionBreak("std::array member '%s' has no model" % m)
        # ---- atomics (sequential semantics; the atomic discipline is checked separately)
        if re.match(r"std::(__atomic_base|atomic)<", q) and obj is not None:
            objn = self.strip_base_casts(obj[0])
            oty = tr.ety(objn)
            o = deref(tr.rv(objn)) if obj[1] else tr.lv(objn)
            if obj[1]:
                oty = oty.to
            VT = parse_type(targs(oty.name)[0])
            v = X("mem", o, "v", ty=VT)
            m = q.split("::")[-1]
            tr.rule("std::atomic model (sequential)")
            count = tr.opts.get("count_atomic_ops")
            tr.assume("std::atomic", "sequentially consistent single-thread semantics: load/store/RMW on a plain field; inter-thread ordering is not modelled")
            nonmo = [a for a in args if a.get("kind") != "CXXDefaultArgExpr"]
            if count:
                # atomic discipline: every atomic access is counted in the ghost verif_atomic_ops
                r0 = self.atomic_op(m, v, VT, nonmo, args)
                if r0.k == "deref" or m in ("operator=",):
                    pass
                return X("comma", X("incdec", "++", False, X("var", "verif_atomic_ops")), r0, ty=r0.ty)
            return self.atomic_op(m, v, VT, nonmo, args)
        # ---- iterator operators (iterators are pointers)
        if q.startswith("__gnu_cxx::operator") or q.startswith("__gnu_cxx::__normal_iterator<"):
            m = q.split("::")[-1]
            tr.rule("iterator-as-pointer")
            vals = [tr.rv(a) for a in args]
            if obj is not None:
                o = tr.lv(obj[0])
                if m == "operator*":
                    return deref(o)
                if m == "operator++":
                    return X("incdec", "++", not args, o, ty=o.ty)
                if m == "operator--":
                    return X("incdec", "--", not args, o, ty=o.ty)
                if m == "operator+":
                    return X("bin", "+", o, vals[0], ty=o.ty)
                if m == "operator-":
                    return X("bin", "-", o, vals[0], ty=o.ty)
                if m == "operator->":
                    return o
                if m == "base":
                    return o
            else:
                op = m[len("operator"):]
                if op == "-":
                    return self.ptrdiff(vals[0], vals[1])
                if op in ("==", "!=", "<", ">", "<=", ">="):
                    return X("bin", op, vals[0], vals[1], ty=parse_type("bool"))
            raise ExtractionBreak("iterator operation '%s' has no model" % q)
        # ---- memory / C strings
        base = q[5:] if q.startswith("std::") else q
        if tr.opts.get("bounded_str") and base in ("operator+", "operator==", "operator!=") and len(args) == 2:
            t0, t1 = tr.ety(args[0]).noref(), tr.ety(args[1]).noref()
            if t0.kind == "rec" and self.is_string(t0.name):
                s = self.ensure_vec(t0.name)
                a0 = tr.bind_ref(args[0])
                B = parse_type("bool")
                if base == "operator+":
                    if t1.kind == "rec" and self.is_string(t1.name):
                        return X("call", s + "_concat", [a0, tr.bind_ref(args[1])], ty=t0)
                    if t1.kind == "builtin":
                        return X("call", s + "_concat_c", [a0, tr.rv(args[1])], ty=t0)
                    return X("call", s + "_concat_cstr", [a0, tr.rv(args[1])], ty=t0)
                if t1.kind == "rec" and self.is_string(t1.name):
                    r = X("call", s + "_eq", [a0, tr.bind_ref(args[1])], ty=B)
                else:
                    r = X("call", s + "_eq_cstr", [a0, tr.rv(args[1])], ty=B)
                return r if base == "operator==" else X("un", "!", r, ty=B)
        if base in ("find_if", "stable_partition", "partition") and len(args) == 3:
            return self.algorithm(base, args, ps)
        if base == "transform" and len(args) == 4 and tr.lower(tr.ety(args[0]).noref()).kind == "ptr":
            # std::transform(first, last, out, ::tolower / ::toupper) over characters
            n = args[3]
            while n.get("kind") in ("ImplicitCastExpr", "UnaryOperator") and n.get("inner"):
                n = n["inner"][0]
            fname = (n.get("referencedDecl") or {}).get("name")
            if fname not in ("tolower", "toupper"):
                raise ExtractionBreak("std::transform with operation '%s' has no model" % fname)
            it = tr.lower(tr.ety(args[0]).noref())
            T = tr.ctype(it.to)
            name = "verif_transform_%s__%s" % (fname, sanitize(T))
            self.text.setdefault("ctype_case", """
static inline int verif_tolower(int c) { return (c >= 'A' && c <= 'Z') ? c - 'A' + 'a' : c; }
static inline int verif_toupper(int c) { return (c >= 'a' && c <= 'z') ? c - 'a' + 'A' : c; }
""")
            self.text.setdefault("algo:" + name, "static %(T)s *%(n)s(%(T)s *first, %(T)s *last, %(T)s *out) { for (; first != last; ++first, ++out) *out = (%(T)s)verif_%(f)s((int)*first); return out; }\n" % dict(T=T, n=name, f=fname))
            tr.rule("std::transform model")
            tr.assume("std::transform / tolower / toupper", "reference model: element-wise loop; tolower/toupper as in the C locale (ASCII letters only; note: the real call passes a possibly negative char to ::tolower)")
            return X("call", name, [tr.rv(args[0]), tr.rv(args[1]), tr.rv(args[2])], ty=it)
        if base == "getline" and len(args) == 3 and tr.opts.get("bounded_str"):
            a0 = self.strip_base_casts(args[0])
            st_t = tr.ety(a0).noref()
            if st_t.kind != "rec" or not re.match(r"std::(__cxx11::)?basic_stringstream<char", st_t.name):
                raise ExtractionBreak("std::getline on a stream of type %s" % st_t.key())
            sn = tr.need_record(st_t.name)
            strn = self.ensure_vec(tr.ety(args[1]).noref().name)
            self.text.setdefault("getline:" + sn, """
/* std::getline(stream, item, delim) on the bounded string-stream model: fails (stream becomes false) when the stream is already at
 * its end; otherwise extracts up to the delimiter (consumed, not stored) or the end */
static %(sn)s *verif_getline_%(sn)s(%(sn)s *ss, %(s)s *item, char delim)
{
  unsigned long i;
  item->n = 0; item->cap = ss->buf.cap;
  if (ss->fail || ss->pos >= ss->buf.n) { ss->fail = 1; return ss; }
  for (i = ss->pos; i < ss->buf.n; i++) { if (ss->buf.b[i] == delim) { ss->pos = i + 1; return ss; } item->b[item->n] = ss->buf.b[i]; item->n++; }
  ss->pos = ss->buf.n;
  return ss;
}
""" % dict(sn=sn, s=strn))
            tr.rule("std::getline model")
            return deref(X("call", "verif_getline_" + sn, [addr(tr.lv(a0)), tr.bind_ref(args[1]), tr.rv(args[2])], ty=Ty("ptr", to=st_t)))
        if base in ("remove", "find") and len(args) == 3 and tr.lower(tr.ety(args[0]).noref()).kind == "ptr":
            it = tr.lower(tr.ety(args[0]).noref())
            if it.to.kind not in ("builtin", "ptr", "enum"):
                raise ExtractionBreak("std::%s over elements of type %s" % (base, it.to.key()))
            T = tr.ctype(it.to)
            name = "verif_%s__%s" % (base, sanitize(T))
            if base == "remove":
                body = "static %(T)s *%(n)s(%(T)s *first, %(T)s *last, %(T)s *value) { %(T)s *w = first; for (; first != last; ++first) if (!(*first == *value)) { *w = *first; ++w; } return w; }\n"
            else:
                body = "static %(T)s *%(n)s(%(T)s *first, %(T)s *last, %(T)s *value) { for (; first != last; ++first) if (*first == *value) return first; return last; }\n"
            self.text.setdefault("algo:" + name, body % dict(T=T, n=name))
            tr.cur.calls[name] = True
            tr.rule("std::%s model" % base)
            tr.assume("std::%s" % base, "reference model as C code over a pointer range of scalars (lib/stdlib.py); loops unwound (bounded units)")
            return X("call", name, [tr.rv(args[0]), tr.rv(args[1]), tr.bind_ref(args[2])], ty=it)
        if base in ("mismatch", "equal") and len(args) == 3:
            return self.algorithm2(base, args, rets)
        if base == "make_pair" and len(args) == 2:
            rt = parse_type(rets)
            tr.need_record(rt.name)
            tr.rule("std::make_pair model")
            pv = X("var", "__mp", ty=rt)
            return X("sexpr", [X("decl", rt, "__mp", None), X("expr", X("assign", "=", X("mem", pv, "first"), tr.rv(args[0]))),
                               X("expr", X("assign", "=", X("mem", pv, "second"), tr.rv(args[1])))], pv, ty=rt)
        if base == "swap" and len(args) == 2:
            pt = parse_type(ps[0])
            t = pt.to if pt.kind == "ref" else pt
            triv = t.kind == "builtin" or t.kind == "ptr" or (t.kind == "rec" and ((t.name in tr.ast.Rname and "trivcopy" in tr.ast.R[tr.ast.Rname[t.name]]) or t.name.startswith("std::array<")))
            if triv:
                # std::swap of trivially copyable objects: three plain copies through a temporary
                tr.rule("std::swap model (trivially copyable)")
                pa, pb = tr.newtmp(Ty("ptr", to=t)), tr.newtmp(Ty("ptr", to=t))
                tv = tr.newtmp(t)
                return X("comma", X("comma", X("comma", X("assign", "=", pa, tr.bind_ref(args[0])), X("assign", "=", pb, tr.bind_ref(args[1]))),
                                    X("comma", X("assign", "=", tv, deref(pa)), X("assign", "=", deref(pa), deref(pb)))), X("assign", "=", deref(pb), tv), ty=parse_type("void"))
        if base == "distance" and len(args) == 2:
            pt = parse_type(ps[0])
            if pt.kind == "ptr":
                tr.rule("std::distance on pointers")
                return self.ptrdiff(tr.rv(args[1]), tr.rv(args[0]))
        if base in ("isalpha", "isdigit", "isspace", "isalnum", "isupper", "islower", "ispunct") and len(args) == 1:
            tr.rule("ctype model")
            tr.assume("<cctype> classification", "isalpha/isdigit/isspace/isalnum/isupper/islower as in the C locale (ASCII)")
            self.text.setdefault("ctype", """
static inline int verif_isspace(int c) { return c == ' ' || (c >= 9 && c <= 13); }
static inline int verif_isdigit(int c) { return c >= '0' && c <= '9'; }
static inline int verif_isupper(int c) { return c >= 'A' && c <= 'Z'; }
static inline int verif_islower(int c) { return c >= 'a' && c <= 'z'; }
static inline int verif_isalpha(int c) { return verif_isupper(c) || verif_islower(c); }
static inline int verif_isalnum(int c) { return verif_isalpha(c) || verif_isdigit(c); }
static inline int verif_ispunct(int c) { return c > 32 && c < 127 && !verif_isalnum(c); }
""")
            return X("call", "verif_" + base, [tr.rv(args[0])], ty=parse_type("int"))
        if base == "memcpy" and tr.opts.get("memcpy_code"):
            tr.rule("memcpy model (byte-copy code)")
            self.text.setdefault("memcpy_code", """
static void *verif_memcpy_code(void *dst, const void *src, unsigned long n) { unsigned long i; for (i = 0; i < n; i++) ((char *)dst)[i] = ((const char *)src)[i]; return dst; }
""")
            tr.assume("memcpy (bounded units)", "byte-copy loop (exact values; run with --unwind)")
            return X("call", "verif_memcpy_code", [tr.rv(args[0]), tr.rv(args[1]), tr.rv(args[2])], ty=parse_type("void *"))
        if base == "memcpy":
            tr.rule("memcpy model")
            self.contracts["verif_memcpy"] = ("void *verif_memcpy(void *dst, const void *src, unsigned long n)\n"
                                              "__CPROVER_requires(n == 0 || (__CPROVER_w_ok(dst, n) && __CPROVER_r_ok(src, n)))\n"
                                              "__CPROVER_ensures(__CPROVER_return_value == dst)\n"
                                              "__CPROVER_ensures(IMP(verif_gi < n, ((const char *)dst)[verif_gi] == ((const char *)src)[verif_gi]))\n"
                                              "__CPROVER_assigns(__CPROVER_object_upto(dst, n))")
            tr.assume("memcpy", "assumed contract: requires both ranges valid for n bytes (this precondition IS checked at every call site); assigns exactly dst[0..n); of the copied values only the byte at the ghost position verif_gi is known to equal the source byte (a sound instance of 'every byte copied')")
            self.use_contract("verif_memcpy")
            return X("call", "verif_memcpy", [tr.rv(args[0]), tr.rv(args[1]), tr.rv(args[2])], ty=parse_type("void *"))
        if base == "strlen":
            tr.rule("strlen model")
            self.contracts["verif_strlen"] = ("unsigned long verif_strlen(const char *s)\n__CPROVER_requires(__CPROVER_is_zero_string(s) || 1)\n"
                                              "__CPROVER_ensures(1)\n__CPROVER_assigns()")
            self.use_contract("verif_strlen")
            return X("call", "verif_strlen", [tr.rv(args[0])], ty=parse_type("unsigned long"))
        return None


    # ---- <algorithm> over pointer ranges with a closure predicate: reference models as C code, one per call operator.
    #      Loop contracts for them come from the unit option model_loops (they mention the predicate, so they are unit-specific).
    def algorithm(self, base, args, ps):
        tr = self.tr
        it = tr.ety(args[0]).noref()
        it = tr.lower(it) if hasattr(tr, "lower") else it
        if it.kind == "rec":
            a = self.alias(it.name)
            if a is None:
                raise ExtractionBreak("std::%s over iterator type %s" % (base, it.name))
            it = a
        if it.kind != "ptr":
            raise ExtractionBreak("std::%s over non-pointer iterator %s" % (base, it.key()))
        T = tr.ctype(it.to)
        ct = tr.ety(args[2]).noref()
        if ct.kind != "rec":
            raise ExtractionBreak("std::%s with a non-class predicate" % base)
        rid = tr.ast.Rname.get(ct.name)
        op = None
        for c in tr.ast.nodes.get(rid, {}).get("inner", []):
            if c.get("kind") == "CXXMethodDecl" and c.get("name") == "operator()":
                op = c["id"]
        if op is None:
            raise ExtractionBreak("std::%s: predicate class '%s' has no operator()" % (base, ct.name))
        opn = tr.request(op)
        _, ops = fn_ret_type(tr.ast.D[op]["type"])
        byref = parse_type(ops[0]).kind == "ref"
        CL = tr.ctype(ct)
        name = "verif_%s__%s" % (base, opn)
        E = lambda p: "%s(&pred, %s%s)" % (opn, "" if byref else "*", p)
        ML = tr.opts.get("model_loops", {})
        def L(k):
            return ML.get("%s:%d:%s" % (base, k, opn), ML.get("%s:%d" % (base, k), ""))
        if base == "find_if":
            body = """
static %(T)s *%(name)s(%(T)s *first, %(T)s *last, %(CL)s pred)
{
  %(T)s *verif_first0 = first;
  for (; first != last; ++first)
%(L1)s
  { if (%(Ef)s) return first; }
  return last;
}
""" % dict(T=T, name=name, CL=CL, L1=L(1), Ef=E("first"))
        elif base == "stable_partition":
            # index-based reference model, instrumented with ghost bookkeeping: where the entries at the ghost positions
            # verif_gi/gj went (verif_sp_dest_*), where the entries now at verif_gi/gj came from (verif_sp_src_*), how many
            # were kept (verif_sp_kept); verif_s_* are entry snapshots for the unit's loop contracts
            body = """
static %(T)s *%(name)s(%(T)s *first, %(T)s *last, %(CL)s pred)
{
  unsigned long n = first == last ? 0ul : (unsigned long)(last - first), r = 0, k, kw = 0, i;
  if (n == 0) { verif_sp_kept = 0; return first; }
  %(T)s *tmp = (%(T)s *)verif_malloc(n * sizeof(%(T)s));
  %(T)s verif_s_gi = verif_gi < n ? first[verif_gi] : (%(T)s){0}, verif_s_gj = verif_gj < n ? first[verif_gj] : (%(T)s){0};
  %(T)s verif_s_hi = verif_hi < n ? first[verif_hi] : (%(T)s){0}, verif_s_hj = verif_hj < n ? first[verif_hj] : (%(T)s){0};
  for (i = 0; i < n; ++i)
%(L1)s
  {
    if (%(Ei)s)
    {
      if (i == verif_gi) verif_sp_dest_i = kw;
      if (i == verif_gj) verif_sp_dest_j = kw;
      if (kw == verif_gi) verif_sp_src_i = i;
      if (kw == verif_gj) verif_sp_src_j = i;
      first[kw] = first[i]; ++kw;
    }
    else { tmp[r] = first[i]; ++r; }
  }
  verif_sp_kept = kw;
  if (r)
  {
    for (k = 0; k < r; ++k)
%(L2)s
    { first[kw + k] = tmp[k]; }
  }
  free(tmp);
  return first + kw;
}
""" % dict(T=T, name=name, CL=CL, L1=L(1), L2=L(2), Ei=E("first + i"))
        else:
            body = """
static %(T)s *%(name)s(%(T)s *first, %(T)s *last, %(CL)s pred)
{
  while (1)
  {
    while (1) { if (first == last) return first; else if (%(Ef)s) ++first; else break; }
    --last;
    while (1) { if (first == last) return first; else if (!%(El)s) --last; else break; }
    { %(T)s t = *first; *first = *last; *last = t; }
    ++first;
  }
}
""" % dict(T=T, name=name, CL=CL, Ef=E("first"), El=E("last"))
        self.text.setdefault("algo:" + name, body)
        self.model_deps = getattr(self, "model_deps", {})
        self.model_deps[name] = [opn]
        tr.cur.calls[name] = True
        tr.cur.calls[opn] = True
        tr.rule("std::%s model" % base)
        tr.assume("std::%s" % base, "reference model as C code over a pointer range (lib/stdlib.py): " + {"find_if": "first element satisfying the predicate, else last", "stable_partition": "elements satisfying the predicate first, both groups in their original order (buffer-based)", "partition": "libstdc++'s bidirectional-iterator algorithm (swap from both ends)"}[base])
        cl = tr.lv(args[2]) if tr.is_glvalue(args[2]) else tr.rv(args[2])
        return X("call", name, [tr.rv(args[0]), tr.rv(args[1]), cl], ty=it)

    def algorithm2(self, base, args, rets):
        """std::mismatch / std::equal over two pointer ranges of scalars (operator== on the elements): reference models as C
        code with their own loop contracts (facts at the ghost index verif_gi); the position where the scan stopped is
        recorded in the ghost verif_mm (a witness for 'the ranges differ')."""
        tr = self.tr
        its = []
        for a in args:
            it = tr.lower(tr.ety(a).noref())
            if it.kind != "ptr" or it.to.kind != "builtin":
                raise ExtractionBreak("std::%s over %s" % (base, it.key()))
            its.append(it)
        T1, T2 = tr.ctype(its[0].to), tr.ctype(its[2].to)
        rt = parse_type(rets)
        name = "verif_%s__%s__%s" % (base, sanitize(T1), sanitize(T2))
        inv = ("    __CPROVER_assigns(f1, f2)\n"
               "    __CPROVER_loop_invariant(f1 == l1 || (__CPROVER_same_object(f1, l1) && __CPROVER_same_object(f1, verif_a0) && __CPROVER_POINTER_OFFSET(verif_a0) <= __CPROVER_POINTER_OFFSET(f1) && __CPROVER_POINTER_OFFSET(f1) <= __CPROVER_POINTER_OFFSET(l1)))\n"
               "    __CPROVER_loop_invariant((f1 == verif_a0 && f2 == verif_b0) || (__CPROVER_same_object(f2, verif_b0) && __CPROVER_POINTER_OFFSET(f2) - __CPROVER_POINTER_OFFSET(verif_b0) == __CPROVER_POINTER_OFFSET(f1) - __CPROVER_POINTER_OFFSET(verif_a0)))\n"
               "    __CPROVER_loop_invariant(IMP(verif_gi < (unsigned long)(__CPROVER_POINTER_OFFSET(f1) - __CPROVER_POINTER_OFFSET(verif_a0)) / sizeof(%s), verif_a0[verif_gi] == verif_b0[verif_gi]))\n"
               "    __CPROVER_decreases(__CPROVER_POINTER_OFFSET(l1) - __CPROVER_POINTER_OFFSET(f1))") % T1
        if T1 != "char" and sanitize(T1) not in ("char", "signed_char", "unsigned_char"):
            inv = tr.opts.get("model_loops", {}).get(base + ":1", "")
        if base == "mismatch":
            R = tr.ctype(rt)
            tr.need_record(rt.name)
            body = """
static %(R)s %(name)s(%(T1)s *f1, %(T1)s *l1, %(T2)s *f2)
{
  %(T1)s *verif_a0 = f1; %(T2)s *verif_b0 = f2;
  while (f1 != l1 && *f1 == *f2)
%(inv)s
  { ++f1; ++f2; }
  verif_mm = f1 == verif_a0 ? 0ul : (unsigned long)(f1 - verif_a0);
  %(R)s r; r.first = f1; r.second = f2; return r;
}
""" % dict(R=R, name=name, T1=T1, T2=T2, inv=inv)
        else:
            body = """
static _Bool %(name)s(%(T1)s *f1, %(T1)s *l1, %(T2)s *f2)
{
  %(T1)s *verif_a0 = f1; %(T2)s *verif_b0 = f2;
  for (; f1 != l1; ++f1, ++f2)
%(inv)s
  { if (!(*f1 == *f2)) { verif_mm = f1 == verif_a0 ? 0ul : (unsigned long)(f1 - verif_a0); return 0; } }
  verif_mm = f1 == verif_a0 ? 0ul : (unsigned long)(f1 - verif_a0);
  return 1;
}
""" % dict(name=name, T1=T1, T2=T2, inv=inv)
        self.text.setdefault("algo:" + name, body)
        tr.cur.calls[name] = True
        tr.rule("std::%s model" % base)
        tr.assume("std::%s" % base, "reference model as C code over two pointer ranges (lib/stdlib.py): scans while the elements are equal; the stop position is recorded in the ghost verif_mm")
        return X("call", name, [tr.rv(a) for a in args], ty=tr.lower(rt))

    def ptrdiff(self, a, b):
        """iterator difference a - b; equal iterators (incl. the null begin()/end() of an empty vector) give 0 as in C++"""
        tr = self.tr
        L = parse_type("long")
        ta, tb = tr.newtmp(a.ty), tr.newtmp(b.ty)
        return X("comma", X("comma", X("assign", "=", ta, a), X("assign", "=", tb, b)),
                 X("cond", X("bin", "==", ta, tb), X("lit", "0l", ty=L), X("bin", "-", ta, tb, ty=L), ty=L), ty=L)

    def atomic_op(self, m, v, VT, nonmo, args):
        tr = self.tr
        if True:
            if m in ("load", "operator " + VT.name, "operator long long", "operator unsigned long", "operator bool", "operator int", "operator long") or m.startswith("operator ") and not nonmo and m not in ("operator++", "operator--"):
                return v
            if m in ("store",):
                return X("assign", "=", v, tr.rv(nonmo[0]), ty=VT)
            if m == "operator=":
                return X("assign", "=", v, tr.rv(nonmo[0]), ty=VT)
            if m == "operator++":
                return X("incdec", "++", not nonmo, v, ty=VT) if not nonmo else X("incdec", "++", False, v, ty=VT)
            if m == "operator--":
                return X("incdec", "--", not nonmo, v, ty=VT) if not nonmo else X("incdec", "--", False, v, ty=VT)
            if m == "fetch_add":
                t = tr.newtmp(VT)
                return X("comma", X("comma", X("assign", "=", t, v), X("assign", "+=", v, tr.rv(nonmo[0]))), t, ty=VT)
            if m == "fetch_sub":
                t = tr.newtmp(VT)
                return X("comma", X("comma", X("assign", "=", t, v), X("assign", "-=", v, tr.rv(nonmo[0]))), t, ty=VT)
            if m == "operator+=":
                return X("assign", "+=", v, tr.rv(nonmo[0]), ty=VT)
            if m == "operator-=":
                return X("assign", "-=", v, tr.rv(nonmo[0]), ty=VT)
            if m == "exchange":
                t = tr.newtmp(VT)
                return X("comma", X("comma", X("assign", "=", t, v), X("assign", "=", v, tr.rv(nonmo[0]))), t, ty=VT)
            raise ExtractionBreak("std::atomic member '%s' has no model" % m)

    def find_ctor(self, T, nargs, argtys):
        tr = self.tr
        if T.kind != "rec" or T.name not in tr.ast.Rname:
            return None
        node = tr.ast.nodes.get(tr.ast.Rname[T.name])
        cands = []
        for c in (node or {}).get("inner", []):
            if c.get("kind") == "CXXConstructorDecl" and not c.get("isImplicit"):
                info = tr.ast.D.get(c["id"])
                if not info:
                    continue
                _, ps = fn_ret_type(info["type"])
                nreq = len([p for p in c.get("inner", []) if p.get("kind") == "ParmVarDecl" and not any(k.get("kind") for k in p.get("inner", []))])
                if nreq <= nargs <= len(ps):
                    cands.append((c["id"], ps))
            elif c.get("kind") == "FunctionTemplateDecl":
                pass
        if nargs == 0 and not cands:
            return None
        # prefer exact arity, then distinguish by first parameter kind
        ex = [c for c in cands if len(c[1]) == nargs]
        if len(ex) > 1 and argtys:
            def score(c):
                s = 0
                for p, a in zip(c[1], argtys):
                    pt = parse_type(p)
                    if pt.noref().key() == a.noref().key():
                        s += 2
                    elif pt.noref().kind == a.noref().kind:
                        s += 1
                return s
            ex.sort(key=score, reverse=True)
            if len(ex) > 1 and score(ex[0]) == score(ex[1]):
                raise ExtractionBreak("make_shared/new: ambiguous constructor of %s for %d arguments" % (T.name, nargs))
            return ex[0][0]
        if len(ex) == 1:
            return ex[0][0]
        if len(cands) == 1:
            return cands[0][0]
        raise ExtractionBreak("make_shared/new: cannot resolve constructor of %s for %d arguments (%d candidates)" % (T.name, nargs, len(cands)))
