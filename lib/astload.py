"""Run clang (with the astx plugin) on a driver translation unit and load the
JSON dump + side table.  Everything is rebuilt from /repo's current working
tree on every call; nothing is cached."""
import json, os, subprocess, sys

VERIF = os.path.dirname(os.path.dirname(os.path.abspath(__file__)))
PLUGIN = os.path.join(VERIF, "build", "astx.so")


class ExtractionBreak(Exception):
    pass


def repo_path():
    return os.environ.get("VERIF_REPO", "/repo")


def run_clang(unit_cpp, outbase, defines=(), extra_prefixes=(), std="c++11"):
    repo = repo_path()
    cmd = ["clang++", "-std=" + std, "-fsyntax-only", "-DNDEBUG", "-w", "-fno-access-control",
           "-I" + repo, "-I" + os.path.join(VERIF, "units")]
    for d in defines:
        cmd.append("-D" + d)
    pa = ["-Xclang", "-load", "-Xclang", PLUGIN, "-Xclang", "-plugin", "-Xclang", "astx"]
    def parg(s):
        return ["-Xclang", "-plugin-arg-astx", "-Xclang", s]
    pa += parg("out=" + outbase)
    pa += parg("prefix=" + repo.rstrip("/") + "/")
    pa += parg("prefix=" + os.path.dirname(os.path.abspath(unit_cpp)) + "/")
    for p in extra_prefixes:
        pa += parg("prefix=" + p)
    cmd += pa + [os.path.abspath(unit_cpp)]
    r = subprocess.run(cmd, stdout=subprocess.PIPE, stderr=subprocess.PIPE, text=True)
    if r.returncode != 0 or not os.path.exists(outbase + ".json"):
        raise ExtractionBreak("clang failed on %s:\n%s" % (unit_cpp, r.stderr[-4000:]))
    return cmd


class AST:
    def __init__(self, outbase):
        self.nodes = {}      # id -> full JSON node
        self.parent = {}     # id -> parent node id (tree parent)
        self.E = {}          # expr id -> dict(type=..., ...)
        self.D = {}          # value decl id -> dict(type=..., ...)
        self.R = {}          # record decl id -> dict(name=..., size=..., ...)
        self.Rname = {}      # canonical record name -> record decl id
        self.Rcanon = {}     # canonical decl ptr -> definition id
        self.C = {}          # enum constant id -> int
        self.T = {}          # canonical type -> [typedef qualified names]
        self.tops = []
        self._load_tab(outbase + ".tab")
        self._load_json(outbase + ".json")

    def _load_tab(self, fn):
        with open(fn) as f:
            for line in f:
                p = line.rstrip("\n").split("\t")
                k, pid = p[0], p[1]
                if k == "C":
                    self.C[pid] = int(p[2])
                    continue
                if k == "T":
                    qn = p[3].partition("=")[2]
                    self.T.setdefault(p[2], []).append(qn)
                    continue
                d = {"type": p[2]}
                for kv in p[3:]:
                    a, _, b = kv.partition("=")
                    d[a] = b
                if k == "E":
                    self.E[pid] = d
                elif k == "D":
                    self.D[pid] = d
                elif k == "R":
                    d["name"] = p[2]
                    self.R[pid] = d
                    self.Rname[p[2]] = pid
                    self.Rcanon[d.get("canon", pid)] = pid

    def _load_json(self, fn):
        s = open(fn).read()
        dec = json.JSONDecoder()
        i, n = 0, len(s)
        while True:
            while i < n and s[i] != "{":
                i += 1
            if i >= n:
                break
            o, i = dec.raw_decode(s, i)
            self.tops.append(o)
            self._index(o, None)

    def _index(self, node, parent):
        stack = [(node, parent)]
        while stack:
            nd, par = stack.pop()
            nid = nd.get("id")
            if nid is not None and "kind" in nd:
                old = self.nodes.get(nid)
                if old is None or len(nd.get("inner", ())) >= len(old.get("inner", ())):
                    self.nodes[nid] = nd
                    if par is not None:
                        self.parent[nid] = par
            for c in nd.get("inner", ()):
                if isinstance(c, dict):
                    stack.append((c, nid if nid is not None else par))

    def fdef(self, fid):
        """definition node of function decl id (or None)"""
        d = self.D.get(fid, {})
        did = d.get("def", fid)
        nd = self.nodes.get(did)
        return nd

    def finfo(self, fid):
        d = self.D.get(fid)
        if d is None:
            return {}
        did = d.get("def")
        if did and did in self.D and did != fid:
            dd = dict(self.D[did])
            return dd
        return d
