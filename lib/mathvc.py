"""mathvc: symbolic evaluation of the *extracted IR* (cxx2c.X nodes) over
mathematical integers / reals with z3 (DESIGN.md 3.6).

Every use is an instance of the assumption "machine arithmetic treated as
mathematical"; for functions built from + - * only, an identity over Z implies
the identity in every modular (wrap-around) integer type (ring homomorphism),
which is how the integer multi-operation vec_t functions are decided exactly.
"""
import copy, time, re
import z3
from astload import ExtractionBreak


class C:
    """container handle (struct / array / stack frame); contents live in State.heap[(id, key)]"""
    _n = 0

    def __init__(self, keys, kind="struct"):
        C._n += 1
        self.id = C._n
        self.keys = list(keys)
        self.kind = kind

    def __repr__(self):
        return "C%d%s" % (self.id, self.keys)


class Ptr:
    def __init__(self, c, k):
        self.c, self.k = c, k

    def get(self, st):
        try:
            return st.heap[(self.c.id, self.k)]
        except KeyError:
            raise ExtractionBreak("mathvc: read of unallocated location %s.%s" % (self.c, self.k))

    def set(self, st, v):
        st.heap[(self.c.id, self.k)] = v

    def same(self, o):
        return isinstance(o, Ptr) and o.c is self.c and o.k == self.k


class CondPtr:
    def __init__(self, cond, a, b):
        self.cond, self.a, self.b = cond, a, b

    def get(self, st):
        va, vb = self.a.get(st), self.b.get(st)
        if isinstance(va, C) and isinstance(vb, C) and va is not vb:
            return merge_agg_new(st, self.cond, va, vb)
        return ite(self.cond, va, vb)

    def set(self, st, v):
        raise ExtractionBreak("mathvc: store through a conditional pointer")


def merge_agg_new(st, cond, a, b):
    if a.keys != b.keys:
        raise ExtractionBreak("mathvc: merge of aggregates of different shape")
    out = C(a.keys, a.kind)
    for k in a.keys:
        va, vb = st.heap[(a.id, k)], st.heap[(b.id, k)]
        if isinstance(va, C):
            st.heap[(out.id, k)] = merge_agg_new(st, cond, va, vb)
        else:
            st.heap[(out.id, k)] = ite(cond, va, vb)
    return out


def ite(c, a, b):
    if a is b:
        return a
    c = z3.simplify(c) if not isinstance(c, bool) else z3.BoolVal(c)
    if z3.is_true(c):
        return a
    if z3.is_false(c):
        return b
    if isinstance(a, Inf) or isinstance(b, Inf):
        raise ExtractionBreak("mathvc: symbolic choice involving an infinity")
    if isinstance(a, (Ptr, CondPtr)) or isinstance(b, (Ptr, CondPtr)):
        if isinstance(a, Ptr) and a.same(b):
            return a
        if a is None or b is None:
            return a if b is None else b
        return CondPtr(c, a, b)
    if isinstance(a, C) or isinstance(b, C):
        raise ExtractionBreak("mathvc: merge of distinct aggregates")
    if a is None or b is None:
        return a if b is None else b
    if z3.is_true(c):
        return a
    if z3.is_false(c):
        return b
    a, b = coerce(a), coerce(b)
    if a.eq(b):
        return a
    if z3.is_bool(a) != z3.is_bool(b):
        a, b = tonum(a), tonum(b)
    if z3.is_int(a) != z3.is_int(b):
        a, b = toreal(a), toreal(b)
    return z3.If(c, a, b)


class Inf:
    """+/- infinity literal (only comparisons and selection are supported)"""
    def __init__(self, sign):
        self.sign = sign

    def __neg__(self):
        return Inf(-self.sign)


def cmp(op, l, r):
    """comparison with constant folding for infinities (finite operands assumed otherwise)"""
    li, ri = isinstance(l, Inf), isinstance(r, Inf)
    if li or ri:
        if li and ri:
            a, b = l.sign, r.sign
        elif li:
            a, b = l.sign * 2, 0
        else:
            a, b = 0, r.sign * 2
        return z3.BoolVal({"<": a < b, ">": a > b, "<=": a <= b, ">=": a >= b, "==": a == b, "!=": a != b}[op])
    l, r = tonum(l), tonum(r)
    if z3.is_int(l) != z3.is_int(r):
        l, r = toreal(l), toreal(r)
    return {"<": lambda: l < r, ">": lambda: l > r, "<=": lambda: l <= r, ">=": lambda: l >= r, "==": lambda: l == r, "!=": lambda: l != r}[op]()


class State:
    def __init__(self, heap=None):
        self.heap = heap if heap is not None else {}
        self.frame = None          # C of kind frame
        self.returned = z3.BoolVal(False)
        self.broken = z3.BoolVal(False)     # inside an unrolled loop: a break was taken (or the loop condition failed)
        self.cont = z3.BoolVal(False)       # inside an unrolled loop body: a continue was taken
        self.ret = None

    def dead(self):
        """statements executed in this state have no effect when it holds (after return / break / continue)"""
        return z3.simplify(z3.Or(self.returned, self.broken, self.cont))

    def fork(self):
        s = State(dict(self.heap))
        s.frame = self.frame
        s.returned = self.returned
        s.broken = self.broken
        s.cont = self.cont
        s.ret = self.ret
        return s


class View:
    """read-only attribute view of an aggregate in a given state (for spec lambdas); _path = C++ access path for replay"""
    def __init__(self, st, c, path=None):
        object.__setattr__(self, "_st", st)
        object.__setattr__(self, "_c", c)
        object.__setattr__(self, "_path", path)

    def _wrap(self, v, k):
        p = None
        if self._path is not None:
            p = ("%s[%d]" % (self._path, k)) if isinstance(k, int) else ("%s.%s" % (self._path, k))
        if isinstance(v, C):
            return View(self._st, v, p)
        if isinstance(v, Ptr):
            t = v.get(self._st)
            return View(self._st, t, p) if isinstance(t, C) else t
        return v

    def __getattr__(self, k):
        try:
            return self._wrap(self._st.heap[(self._c.id, k)], k)
        except KeyError:
            raise AttributeError(k)

    def __getitem__(self, i):
        return self._wrap(self._st.heap[(self._c.id, self._c.keys[i])], self._c.keys[i])

    def __len__(self):
        return len(self._c.keys)


class Evaluator:
    RANGES = {"bool": (0, 1), "char": (-128, 127), "signed char": (-128, 127), "unsigned char": (0, 255), "short": (-32768, 32767),
              "unsigned short": (0, 65535), "int": (-2**31, 2**31 - 1), "unsigned int": (0, 2**32 - 1), "long": (-2**63, 2**63 - 1),
              "unsigned long": (0, 2**64 - 1), "long long": (-2**63, 2**63 - 1), "unsigned long long": (0, 2**64 - 1)}
    CTYPES = {"_Bool": "bool"}

    def in_range(self, v, tyname, what):
        """int mode with ranges=True: the mathematical value must fit the machine type (then machine = mathematical)"""
        if not self.ranges or self.mode != "int":
            return
        tyname = self.CTYPES.get(tyname, tyname)
        r = self.RANGES.get(tyname)
        if r is None or tyname == "bool":
            return
        v = tonum(v)
        f = z3.And(v >= r[0], v <= r[1])
        if self.guards:
            f = z3.Implies(z3.And(*self.guards), f)
        self.oblig.append(("%s_fits_%s" % (what, tyname.replace(" ", "_")), f))

    def add_oblig(self, lab, f):
        if self.guards:
            f = z3.Implies(z3.And(*self.guards), f)
        self.oblig.append((lab, f))

    def __init__(self, tr, mode, models=None, ranges=False):
        self.tr = tr
        self.ranges = ranges
        self.guards = []
        self.mode = mode  # "int" | "real"
        self.side = []    # side constraints (definitions of fresh symbols)
        self.oblig = []   # obligations generated on the way (e.g. divisor != 0): (label, formula)
        self.unroll = 0   # loops: number of iterations to execute symbolically (0 = loops unsupported)
        self.rounding = False        # real mode: every binary32 + - * / is followed by one rounding (relative error 2^-24, range obligations)
        self.rounding_types = ()     # record-typed names that stand for a float (SSE lane 0)
        self.fresh = 0
        self.models = models or {}
        self.globals = C([], "frame")
        self.depth = 0
        self.rcp_cache = {}

    # ---- values
    def num(self, v):
        return z3.RealVal(v) if self.mode == "real" else z3.IntVal(v)

    def sym(self, name):
        return z3.Real(name) if self.mode == "real" else z3.Int(name)

    def newsym(self, base):
        self.fresh += 1
        return self.sym("%s!%d" % (base, self.fresh))

    def alloc(self, st, ty, name, symbolic=True):
        """allocate a value of C-level type ty in st.heap; returns scalar / C handle"""
        tr = self.tr
        if ty.kind == "rec" and ty.name in tr.opts.get("opaque_types", {}):
            # a type the unit reads as a C scalar (e.g. an SSE register read on lane 0)
            if not symbolic:
                self.fresh += 1
                name = "%s!u%d" % (name, self.fresh)
            return self.sym(name)
        if ty.kind == "rec":
            cn = tr.need_record(ty.name)
            info = tr.rec_info.get(cn)
            if info is None:
                raise ExtractionBreak("mathvc: opaque record " + cn)
            c = C([fn for (fn, _, _) in info["fields"]])
            for (fn, ft, _) in info["fields"]:
                st.heap[(c.id, fn)] = self.alloc(st, tr.lower(ft), name + "_" + fn, symbolic)
            return c
        if ty.kind == "arr":
            c = C(list(range(ty.n)), "array")
            for i in range(ty.n):
                st.heap[(c.id, i)] = self.alloc(st, ty.to, "%s_%d" % (name, i), symbolic)
            return c
        if ty.kind == "builtin":
            if not symbolic:
                self.fresh += 1
                name = "%s!u%d" % (name, self.fresh)
            if ty.name == "bool":
                return z3.Bool(name)
            s = self.sym(name)
            if self.ranges and self.mode == "int" and ty.name in self.RANGES:
                lo, hi = self.RANGES[ty.name]
                self.side.append(z3.And(s >= lo, s <= hi))   # a machine value always lies in its type's range
            return s
        if ty.kind in ("ptr", "enum"):
            return None
        raise ExtractionBreak("mathvc: value of type %r" % ty)

    def clone(self, st, v):
        if isinstance(v, C):
            c = C(v.keys, v.kind)
            for k in v.keys:
                st.heap[(c.id, k)] = self.clone(st, st.heap[(v.id, k)])
            return c
        return v

    def store(self, st, p, v):
        """store value v at location p (aggregates are copied field-wise into the existing aggregate)"""
        g = st.dead()
        if isinstance(v, Inf):
            if not z3.is_false(g):
                raise ExtractionBreak("mathvc: conditional store of an infinity")
            p.set(st, v)
            return
        if isinstance(v, C):
            old = None
            try:
                old = p.get(st)
            except ExtractionBreak:
                pass
            if isinstance(old, C) and old.keys == v.keys:
                for k in v.keys:
                    self.store(st, Ptr(old, k), st.heap[(v.id, k)])
                return
            p.set(st, self.clone(st, v))
            return
        if z3.is_false(g):
            p.set(st, v)
        else:
            p.set(st, ite(g, p.get(st), v))

    # ---- functions
    def call(self, fname, args, st):
        m = self.models.get(fname)
        if m is not None:
            return m(self, st, *args)
        b = BUILTIN_MODELS.get(fname)
        if b is not None:
            return b(self, st, *args)
        mm = re.match(r"verif_(add|sub|mul|div|mod)_(i32|u32|i64|u64|f32|f64)$", fname)
        if mm:
            v = self.arith({"add": "+", "sub": "-", "mul": "*", "div": "/", "mod": "%"}[mm.group(1)], args[0], args[1], unsigned=mm.group(2).startswith("u"))
            self.in_range(v, {"i32": "int", "u32": "unsigned int", "i64": "long", "u64": "unsigned long"}.get(mm.group(2), ""), "result_of_" + mm.group(1))
            return v
        mm = re.match(r"verif_std_(min|max)_\w+$", fname)
        if mm:
            pa, pb = args
            va, vb = pa.get(st), pb.get(st)
            if mm.group(1) == "min":
                return ite(cmp("<", vb, va), pb, pa)
            return ite(cmp("<", va, vb), pb, pa)
        f = self.tr.funcs.get(fname)
        if f is None or f.body is None:
            raise ExtractionBreak("mathvc: call to '%s' which has no body and no model" % fname)
        if self.depth > 60:
            raise ExtractionBreak("mathvc: call depth")
        saved = (st.frame, st.returned, st.ret, st.broken, st.cont)
        fr = C([], "frame")
        st.frame, st.returned, st.ret, st.broken, st.cont = fr, z3.BoolVal(False), None, z3.BoolVal(False), z3.BoolVal(False)
        for (pn, pt), a in zip(f.params, args):
            fr.keys.append(pn)
            st.heap[(fr.id, pn)] = self.clone(st, a) if isinstance(a, C) else a
        self.depth += 1
        self.exec_block(f.body, st)
        self.depth -= 1
        r = st.ret
        st.frame, st.returned, st.ret, st.broken, st.cont = saved
        return r

    # ---- statements
    def exec_block(self, stmts, st):
        for s in stmts:
            self.exec(s, st)

    def exec(self, s, st):
        k, a = s.k, s.a
        if k == "decl":
            ty, name, init = a
            if name not in st.frame.keys:
                st.frame.keys.append(name)
            if init is not None:
                v = self.ev(init, st)
                v = self.clone(st, v)
            else:
                v = self.alloc(st, ty, name, symbolic=False)
            st.heap[(st.frame.id, name)] = v
            return
        if k == "expr":
            self.ev(a[0], st)
            return
        if k == "block":
            self.exec_block(a[0], st)
            return
        if k == "return":
            v = self.ev(a[0], st) if a[0] is not None else None
            v = self.clone(st, v)
            g = st.dead()
            if z3.is_false(g):
                st.ret = v
            elif st.ret is None:
                st.ret = v       # (only read under 'returned', which stays false on the dead paths)
            elif isinstance(v, C):
                # merge aggregates field-wise into a fresh aggregate
                m = C(v.keys, v.kind)
                self.merge_agg(st, g, st.ret, v, m)
                st.ret = m
            else:
                st.ret = ite(g, st.ret, v)
            st.returned = z3.simplify(z3.Or(st.returned, z3.Not(z3.Or(st.broken, st.cont))))
            return
        if k == "if":
            c = z3.simplify(tobool(self.ev(a[0], st)))
            if z3.is_true(c):
                self.exec_block(a[1], st)
                return
            if z3.is_false(c):
                if a[2] is not None:
                    self.exec_block(a[2], st)
                return
            s1 = st.fork()
            self.guards.append(c)
            self.exec_block(a[1], s1)
            self.guards.pop()
            if a[2] is not None:
                self.guards.append(z3.Not(c))
                self.exec_block(a[2], st)
                self.guards.pop()
            self.merge(c, s1, st)
            return
        if k == "break":
            st.broken = z3.simplify(z3.Or(st.broken, z3.Not(z3.Or(st.returned, st.cont))))
            return
        if k == "continue":
            st.cont = z3.simplify(z3.Or(st.cont, z3.Not(z3.Or(st.returned, st.broken))))
            return
        if k in ("for", "while") and self.unroll:
            # bounded unrolling: K iterations are executed symbolically; 'the loop has exited by then' is an OBLIGATION
            # (under the lemma's hypotheses), so the result is complete for the inputs the hypotheses allow, never a cut
            if k == "for":
                _, c, n, b, lid = a
            else:
                c, b, lid = a
                n = None
            outer = (st.broken, st.cont)
            st.broken, st.cont = z3.BoolVal(False), z3.BoolVal(False)
            for it in range(self.unroll):
                cv = tobool(self.ev(c, st)) if c is not None else z3.BoolVal(True)
                st.broken = z3.simplify(z3.Or(st.broken, z3.And(z3.Not(st.returned), z3.Not(cv))))
                if z3.is_true(st.dead()):
                    break
                self.exec_block(b, st)
                st.cont = z3.BoolVal(False)
                if n is not None:
                    self.ev(n, st)
            cv = tobool(self.ev(c, st)) if c is not None else z3.BoolVal(True)
            self.add_oblig("loop_%s_has_exited_after_%d_iterations" % (lid, self.unroll), z3.Or(st.dead(), z3.Not(cv)))
            st.broken, st.cont = outer
            return
        raise ExtractionBreak("mathvc: statement kind '%s' (loops are supported by the math back end only with unroll=K)" % k)

    def merge_agg(self, st, g, a, b, out):
        for k in out.keys:
            va, vb = st.heap[(a.id, k)], st.heap[(b.id, k)]
            if isinstance(va, C):
                sub = C(va.keys, va.kind)
                self.merge_agg(st, g, va, vb, sub)
                st.heap[(out.id, k)] = sub
            else:
                st.heap[(out.id, k)] = ite(g, va, vb)

    def merge(self, c, s1, s2):
        """merge then-state s1 into else-state s2 (in place)"""
        for key in set(s1.heap) | set(s2.heap):
            v1, v2 = s1.heap.get(key), s2.heap.get(key)
            if key not in s1.heap or key not in s2.heap:
                s2.heap[key] = v1 if key not in s2.heap else v2
            elif v1 is not v2:
                if isinstance(v1, C) and isinstance(v2, C):
                    if v1.id != v2.id:
                        m = C(v1.keys, v1.kind)
                        tmp = State(dict(s1.heap)); tmp.heap.update({k: v for k, v in s2.heap.items() if k[0] == v2.id})
                        self.merge_agg(tmp, c, v1, v2, m)
                        s2.heap.update({k: v for k, v in tmp.heap.items() if k[0] == m.id or k not in s2.heap})
                        s2.heap[key] = m
                else:
                    s2.heap[key] = ite(c, v1, v2)
        if s1.ret is None:
            pass
        elif s2.ret is None:
            s2.ret = s1.ret
        elif isinstance(s1.ret, C):
            m = C(s1.ret.keys, s1.ret.kind)
            self.merge_agg(s2, c, s1.ret, s2.ret, m)
            s2.ret = m
        else:
            s2.ret = ite(c, s1.ret, s2.ret)
        s2.returned = z3.simplify(z3.If(c, s1.returned, s2.returned))
        s2.broken = z3.simplify(z3.If(c, s1.broken, s2.broken))
        s2.cont = z3.simplify(z3.If(c, s1.cont, s2.cont))

    # ---- expressions
    def lv(self, x, st):
        k, a = x.k, x.a
        if k == "var":
            n = a[0]
            if (st.frame.id, n) in st.heap:
                return Ptr(st.frame, n)
            if (self.globals.id, n) in st.heap:
                return Ptr(self.globals, n)
            if n in self.tr.globals:
                st.heap[(self.globals.id, n)] = C([])
                return Ptr(self.globals, n)
            raise ExtractionBreak("mathvc: unknown variable %s" % n)
        if k == "mem":
            p = self.lv(a[0], st)
            obj = p.get(st)
            if not isinstance(obj, C):
                raise ExtractionBreak("mathvc: member '%s' of non-struct" % a[1])
            return Ptr(obj, a[1])
        if k == "deref":
            p = self.ev(a[0], st)
            if isinstance(p, (Ptr, CondPtr)):
                return p
            raise ExtractionBreak("mathvc: deref of non-pointer %r" % (p,))
        if k == "index":
            base = self.ev(a[0], st)
            i = z3.simplify(tonum(self.ev(a[1], st)))
            if z3.is_int_value(i):
                idx = i.as_long()
            elif z3.is_rational_value(i) and i.denominator_as_long() == 1:
                idx = i.numerator_as_long()
            else:
                raise ExtractionBreak("mathvc: symbolic array index")
            if isinstance(base, Ptr):
                keys = base.c.keys
                j = keys.index(base.k) + idx
                if 0 <= j < len(keys):
                    return Ptr(base.c, keys[j])
                raise ExtractionBreak("mathvc: index out of aggregate")
            if isinstance(base, C) and base.kind == "array":
                if 0 <= idx < len(base.keys):
                    return Ptr(base, base.keys[idx])
                raise ExtractionBreak("mathvc: index out of array")
            raise ExtractionBreak("mathvc: index on %r" % (base,))
        if k == "comma":
            self.ev(a[0], st)
            return self.lv(a[1], st)
        if k == "sexpr":
            for s in a[0]:
                self.exec(s, st)
            return self.lv(a[1], st)
        if k == "cond":
            c = tobool(self.ev(a[0], st))
            return ite(c, self.lv(a[1], st), self.lv(a[2], st))
        if k == "assign":
            self.ev(x, st)
            return self.lv(a[1], st)
        if k == "callx":
            return self.lv(a[0], st)
        if k == "call":
            v = self.ev(x, st)
            # aggregate rvalue used as lvalue (member of returned struct): park it in the frame
            self.fresh += 1
            n = "!rv%d" % self.fresh
            st.frame.keys.append(n)
            st.heap[(st.frame.id, n)] = v
            return Ptr(st.frame, n)
        raise ExtractionBreak("mathvc: lvalue kind %s" % k)

    FLT_MAX = z3.RealVal("340282346638528859811704183484516925440")
    FLT_MIN = z3.Q(1, 2 ** 126)

    def round_f32(self, v, what):
        """standard model of one correctly rounded binary32 operation on the exact result v: fl(v) = v * (1 + d), |d| <= 2^-24,
        valid when v does not overflow and is zero or a normal number -- both are OBLIGATIONS here (a result in the subnormal
        range has no relative bound, an overflowing one is not a number)"""
        self.nround = getattr(self, "nround", 0) + 1
        av = z3.If(v >= 0, v, -v)
        self.add_oblig("float_%s_%d_does_not_overflow" % (what, self.nround), av <= self.FLT_MAX)
        self.add_oblig("float_%s_%d_is_zero_or_normal" % (what, self.nround), z3.Or(v == 0, av >= self.FLT_MIN))
        d = self.newsym("ulp")
        self.side.append(z3.And(d >= z3.Q(-1, 2 ** 24), d <= z3.Q(1, 2 ** 24)))
        return v * (1 + d)

    def arith(self, op, x, y, unsigned=False):
        x, y = tonum(x), tonum(y)
        if op in ("/", "%") and self.mode == "int" and unsigned:
            # unsigned machine division: operands are non-negative, so Euclidean (z3 div/mod) = truncating division
            self.add_oblig("divisor_nonzero", y != 0)
            return (x / y) if op == "/" else (x % y)
        if self.mode == "real":
            x, y = toreal(x), toreal(y)
        if op == "+":
            return x + y
        if op == "-":
            return x - y
        if op == "*":
            return x * y
        if op == "/" and self.mode == "real":
            y = z3.simplify(y)
            key = y.sexpr()
            r = self.rcp_cache.get(key)
            if r is None:
                if z3.is_rational_value(y) and y.numerator_as_long() != 0:
                    r = z3.RealVal(1) / y
                else:
                    r = self.newsym("rcp")
                    self.side.append(y * r == 1)
                    self.add_oblig("divisor_nonzero", y != 0)
                self.rcp_cache[key] = r
            return z3.simplify(x * r)
        if op in ("/", "%"):
            self.add_oblig("divisor_nonzero", y != 0)
            q, rr = self.newsym("q"), self.newsym("r")
            self.side.append(x == q * y + rr)
            ay = z3.If(y >= 0, y, -y)
            self.side.append(z3.If(x >= 0, z3.And(rr >= 0, rr < ay), z3.And(rr <= 0, -rr < ay)))
            return q if op == "/" else rr
        raise ExtractionBreak("mathvc: arithmetic operator " + op)

    def ev(self, x, st):
        k, a = x.k, x.a
        if k == "lit":
            return self.literal(a[0])
        if k in ("var", "mem", "deref", "index"):
            return self.lv(x, st).get(st)
        if k == "addr":
            return self.lv(a[0], st)
        if k == "un":
            v = self.ev(a[1], st)
            if a[0] == "-":
                return -v if isinstance(v, Inf) else -tonum(v)
            if a[0] == "+":
                return tonum(v)
            if a[0] == "!":
                return z3.Not(tobool(v))
            raise ExtractionBreak("mathvc: unary " + a[0])
        if k == "bin":
            op = a[0]
            if op in ("&&", "||"):
                l = tobool(self.ev(a[1], st))
                self.guards.append(l if op == "&&" else z3.Not(l))
                r = tobool(self.ev(a[2], st))
                self.guards.pop()
                return z3.And(l, r) if op == "&&" else z3.Or(l, r)
            l, r = self.ev(a[1], st), self.ev(a[2], st)
            if op in ("+", "-", "*", "/", "%"):
                uns = x.ty is not None and x.ty.kind == "builtin" and x.ty.name.startswith("unsigned")
                v = self.arith(op, l, r, unsigned=uns)
                if x.ty is not None and x.ty.kind == "builtin":
                    self.in_range(v, x.ty.name, "result_of_" + {"+": "add", "-": "sub", "*": "mul", "/": "div", "%": "mod"}[op])
                if self.rounding and self.mode == "real" and op != "%" and (x.ty is None or (x.ty.kind == "builtin" and x.ty.name == "float") or (x.ty.kind == "rec" and x.ty.name in self.rounding_types)):
                    v = self.round_f32(v, {"+": "add", "-": "sub", "*": "mul", "/": "div"}[op])
                return v
            if op in ("<", ">", "<=", ">=", "==", "!="):
                return cmp(op, l, r)
            raise ExtractionBreak("mathvc: binary operator " + op)
        if k == "cast":
            v = self.ev(a[1], st)
            t = a[0]
            if t == "_Bool":
                return tobool(v)
            if t == "void":
                return None
            if "*" in t:
                return v
            if self.mode == "real" and a[1].ty is not None and a[1].ty.is_float() and t not in ("float", "double", "long double"):
                raise ExtractionBreak("mathvc(real): float->int conversion")
            self.in_range(v, t, "conversion")
            return tonum(v)
        if k == "callx":
            # call whose callee may throw: the math back end evaluates the normal path only
            return self.ev(a[0], st)
        if k == "call":
            args = [self.ev(y, st) for y in a[1]]
            return self.call(a[0], args, st)
        if k == "cond":
            c = tobool(self.ev(a[0], st))
            self.guards.append(c)
            va = self.ev(a[1], st)
            self.guards.pop()
            self.guards.append(z3.Not(c))
            vb = self.ev(a[2], st)
            self.guards.pop()
            return ite(c, va, vb)
        if k == "assign":
            op = a[0]
            p = self.lv(a[1], st)
            v = self.ev(a[2], st)
            if op != "=":
                v = self.arith(op[:-1], p.get(st), v)
            if x.ty is not None and x.ty.kind == "builtin" and not isinstance(v, (C, Inf)) and v is not None and not isinstance(v, (Ptr, CondPtr)):
                self.in_range(v, x.ty.name, "stored_value")
            self.store(st, p, v)
            return v
        if k == "comma":
            self.ev(a[0], st)
            return self.ev(a[1], st)
        if k == "sexpr":
            for s in a[0]:
                self.exec(s, st)
            return self.ev(a[1], st)
        if k == "incdec":
            p = self.lv(a[2], st)
            old = p.get(st)
            new = tonum(old) + (1 if a[0] == "++" else -1)
            self.store(st, p, new)
            return new if a[1] else old
        raise ExtractionBreak("mathvc: expression kind %s" % k)

    def literal(self, t):
        t = t.strip()
        if t.startswith("((void*)0)") or t.startswith('"'):
            return None   # null / string literal: an opaque pointer the math back end never dereferences
        if t in ("__builtin_inff()", "__builtin_inf()", "(1.0/0.0)"):
            return Inf(1)
        if t in ("(-__builtin_inff())", "(-__builtin_inf())"):
            return Inf(-1)
        m = re.match(r"^\(?(-?[0-9.]+(?:[eE][-+]?[0-9]+)?)\)?(f|u|l|ul|ll|ull|F|L)?$", t)
        if m:
            s = m.group(1)
            if self.mode == "real":
                if getattr(self, "exact_f32", False) and m.group(2) in ("f", "F"):
                    import struct
                    from fractions import Fraction
                    fr = Fraction(struct.unpack("f", struct.pack("f", float(s)))[0])   # the float the literal denotes, exactly
                    return z3.RealVal(str(fr.numerator)) / z3.RealVal(str(fr.denominator))
                return z3.RealVal(s)
            if re.search(r"[.eE]", s):
                f = float(s)
                if f != int(f):
                    raise ExtractionBreak("mathvc(int): non-integer literal " + t)
                return z3.IntVal(int(f))
            return z3.IntVal(int(s))
        m = re.match(r"^\(\((?:\w| )+\)(-?\d+)\)$", t)
        if m:
            return self.num(int(m.group(1)))
        if t in ("(-2147483647-1)",):
            return self.num(-2147483648)
        raise ExtractionBreak("mathvc: literal '%s'" % t)


def tonum(v):
    if isinstance(v, Inf):
        raise ExtractionBreak("mathvc: arithmetic on an infinity")
    if isinstance(v, bool):
        return z3.IntVal(1 if v else 0)
    if isinstance(v, (int,)):
        return z3.IntVal(v)
    if z3.is_bool(v):
        return z3.If(v, z3.IntVal(1), z3.IntVal(0))
    return v


def coerce(v):
    if isinstance(v, (int, bool)):
        return tonum(v)
    return v


def toreal(v):
    if z3.is_int(v):
        return z3.ToReal(v)
    return v


def tobool(v):
    if z3.is_bool(v):
        return v
    if isinstance(v, (Ptr, CondPtr)):
        return z3.BoolVal(True)
    if v is None:
        return z3.BoolVal(False)
    return v != 0


def _sqrt(ev, st, x):
    x = tonum(x)
    # sqrt is a function: one symbol per (syntactically normalised) radicand
    cache = ev.__dict__.setdefault("sqrt_cache", {})
    key = z3.simplify(x).sexpr()
    if key in cache:
        return cache[key]
    s = ev.newsym("sqrt")
    cache[key] = s
    ev.side.append(s >= 0)
    ev.side.append(s * s == x)
    ev.oblig.append(("sqrt_argument_nonnegative", x >= 0))
    return s


def _fabs(ev, st, x):
    x = tonum(x)
    return z3.If(x < 0, -x, x)


def _uf1(name):
    """transcendental libm function: nothing is known about its value"""
    def m(ev, st, x):
        # a fresh unconstrained real per evaluation (a sound over-approximation of "some function of x"; an uninterpreted FUNCTION
        # would take the problem out of z3's complete non-linear real fragment)
        return ev.newsym(name)
    return m


BUILTIN_MODELS = {
    "verif_acosf": _uf1("acos"), "verif_acos": _uf1("acos"), "verif_asinf": _uf1("asin"), "verif_asin": _uf1("asin"),
    "verif_sinf": _uf1("sin"), "verif_sin": _uf1("sin"), "verif_cosf": _uf1("cos"), "verif_cos": _uf1("cos"),
    "verif_sqrtf": _sqrt, "verif_sqrt": _sqrt,
    "__builtin_fabsf": _fabs, "__builtin_fabs": _fabs, "verif_abs_i": _fabs, "verif_abs_l": _fabs, "verif_abs_ll": _fabs,
}


def prove(ev, assumptions, goal, timeout_ms=60000):
    """returns ('proved'|'refuted'|'unknown', model or None, seconds)"""
    s = z3.Solver()
    s.set("timeout", timeout_ms)
    for a in assumptions:
        s.add(a)
    for a in ev.side:
        s.add(a)
    s.add(z3.Not(goal))
    t0 = time.time()
    # (solving a re-parsed copy: empirically z3 5.1 preprocesses the parsed benchmark far better than the
    #  incrementally asserted one -- 3 s vs >100 s on the ray/box lemma)
    try:
        s2 = z3.Solver()
        s2.set("timeout", timeout_ms)
        s2.from_string(s.to_smt2())
        r = s2.check()
        if r == z3.sat:
            s = s2
    except z3.Z3Exception:
        r = s.check()
    dt = time.time() - t0
    if r == z3.unsat:
        return "proved", None, dt, s
    if r == z3.sat:
        return "refuted", s.model(), dt, s
    # portfolio fallback: other installed solvers on the same VC (only 'unsat' is taken from them)
    import subprocess, tempfile, os
    txt = "(set-logic ALL)\n" + s.to_smt2()
    fd, path = tempfile.mkstemp(suffix=".smt2")
    os.write(fd, txt.encode()); os.close(fd)
    try:
        procs = []
        for cmd in (["z3", "-T:%d" % max(5, timeout_ms // 1000), path], ["cvc5", "--tlimit=%d" % timeout_ms, path]):
            try:
                procs.append((cmd[0], subprocess.Popen(cmd, stdout=subprocess.PIPE, stderr=subprocess.DEVNULL, text=True)))
            except OSError:
                pass
        t1 = time.time()
        verdict = None
        while procs and time.time() - t1 < timeout_ms / 1000.0 + 5:
            for (nm, p) in list(procs):
                if p.poll() is not None:
                    out = p.stdout.read().strip().splitlines()
                    procs.remove((nm, p))
                    if out and out[0].strip() == "unsat":
                        verdict = nm
                        break
            if verdict:
                break
            time.sleep(0.2)
        for (nm, p) in procs:
            p.kill()
        dt = time.time() - t0
        if verdict:
            return "proved", None, dt, s
    finally:
        os.remove(path)
    return "unknown", None, dt, s
