"""cxx2c: strict clang-AST -> C extractor (see DESIGN.md 3.2).

Input: AST (astload.AST) of a driver TU.  Output: an IR per function (nested
X nodes) that is printed as C99 + GNU statement expressions.  Anything not
covered by a rule raises ExtractionBreak (exit 2 upstream) -- never a silent
approximation.  Rule firings are counted per function.
"""
import re
from collections import OrderedDict
from astload import ExtractionBreak

# ---------------------------------------------------------------- types

BUILTIN = {
    "void": "void", "bool": "_Bool", "char": "char", "signed char": "signed char",
    "unsigned char": "unsigned char", "short": "short", "unsigned short": "unsigned short",
    "int": "int", "unsigned int": "unsigned int", "long": "long", "unsigned long": "unsigned long",
    "long long": "long long", "unsigned long long": "unsigned long long",
    "float": "float", "double": "double", "long double": "long double",
    "wchar_t": "int", "char16_t": "unsigned short", "char32_t": "unsigned int",
    "std::nullptr_t": "void *", "nullptr_t": "void *", "__int128": "__int128", "unsigned __int128": "unsigned __int128",
}
INT_TYPES = {"bool", "char", "signed char", "unsigned char", "short", "unsigned short", "int",
             "unsigned int", "long", "unsigned long", "long long", "unsigned long long"}
FLOAT_TYPES = {"float", "double", "long double"}


class Ty:
    __slots__ = ("kind", "name", "to", "n", "const", "rv", "params")

    def __init__(self, kind, name=None, to=None, n=None, const=False, rv=False, params=None):
        self.kind, self.name, self.to, self.n, self.const, self.rv, self.params = kind, name, to, n, const, rv, params

    def is_ref(self):
        return self.kind == "ref"

    def is_rec(self):
        return self.kind == "rec"

    def is_ptr(self):
        return self.kind == "ptr"

    def is_scalar(self):
        return self.kind in ("builtin", "ptr", "enum") and self.name != "void"

    def is_int(self):
        return (self.kind == "builtin" and self.name in INT_TYPES) or self.kind == "enum"

    def is_float(self):
        return self.kind == "builtin" and self.name in FLOAT_TYPES

    def noref(self):
        return self.to if self.kind == "ref" else self

    def key(self):
        if self.kind in ("builtin", "rec", "enum"):
            return self.name
        if self.kind == "ptr":
            return self.to.key() + "*"
        if self.kind == "ref":
            return self.to.key() + "&"
        if self.kind == "arr":
            return "%s[%s]" % (self.to.key(), self.n)
        return self.kind

    def __repr__(self):
        return "Ty(%s%s)" % ("const " if self.const else "", self.key())


def _match_back(s, close, open_):
    """index of the bracket matching the last char of s"""
    depth = 0
    for i in range(len(s) - 1, -1, -1):
        c = s[i]
        if c == close:
            depth += 1
        elif c == open_:
            depth -= 1
            if depth == 0:
                return i
    raise ExtractionBreak("unbalanced type string: " + s)


def _split_top(s, sep=","):
    out, depth, cur = [], 0, ""
    for c in s:
        if c in "<([":
            depth += 1
        elif c in ">)]":
            depth -= 1
        if c == sep and depth == 0:
            out.append(cur.strip())
            cur = ""
        else:
            cur += c
    if cur.strip():
        out.append(cur.strip())
    return out


_tycache = {}
TYPE_ALIAS_HOOKS = []


def parse_type(s):
    s = s.strip()
    t = _tycache.get(s)
    if t is None:
        t = _parse_type(s)
        _tycache[s] = t
    return t


def _parse_type(s):
    s = s.strip()
    for q in (" noexcept",):
        if s.endswith(q):
            s = s[:-len(q)].strip()
    if s.endswith("&&"):
        return Ty("ref", to=parse_type(s[:-2]), rv=True)
    if s.endswith("&"):
        return Ty("ref", to=parse_type(s[:-1]))
    if s.endswith("*"):
        return Ty("ptr", to=parse_type(s[:-1]))
    m = re.search(r"(\*|\s)(const|volatile|__restrict|restrict)$", s)
    if m:
        inner = parse_type(s[:m.start(2)])
        if m.group(2) == "const":
            t = Ty(inner.kind, inner.name, inner.to, inner.n, True, inner.rv, inner.params)
            return t
        return inner
    if s.endswith("]"):
        i = _match_back(s, "]", "[")
        n = s[i + 1:-1].strip()
        return Ty("arr", to=parse_type(s[:i]), n=(int(n) if n else None))
    if s.endswith(")") and s[_match_back(s, ")", "("):].startswith("(lambda at "):
        i = _match_back(s, ")", "(")
        pre = s[:i].strip()
        return Ty("rec", name=s[i:], const=("const" in pre.split()))
    if s.endswith(")"):
        i = _match_back(s, ")", "(")
        params = [parse_type(p) for p in _split_top(s[i + 1:-1]) if p != "void"]
        pre = s[:i].strip()
        if pre.endswith("(*)"):
            return Ty("ptr", to=Ty("func", to=parse_type(pre[:-3]), params=params))
        if pre.endswith(")"):
            raise ExtractionBreak("unsupported function type: " + s)
        return Ty("func", to=parse_type(pre), params=params)
    const = False
    while True:
        if s.startswith("const "):
            const = True
            s = s[6:].strip()
        elif s.startswith("volatile "):
            s = s[9:].strip()
        else:
            break
    for pre in ("struct ", "class ", "union ", "enum "):
        if s.startswith(pre):
            s = s[len(pre):]
    if s in BUILTIN:
        return Ty("builtin", name=s, const=const)
    for hook in TYPE_ALIAS_HOOKS:
        al = hook(s)
        if al is not None:
            return al
    return Ty("rec", name=s, const=const)  # record or enum; resolved by the emitter


def fn_ret_type(fstr):
    """return type of a canonical function type string"""
    s = fstr.strip()
    while True:
        m = re.search(r"\s(const|noexcept|volatile|&&|&)$", s)
        if not m:
            break
        s = s[:m.start()].strip()
    if not s.endswith(")"):
        raise ExtractionBreak("not a function type: " + fstr)
    i = _match_back(s, ")", "(")
    return s[:i].strip(), _split_top(s[i + 1:-1])


# ---------------------------------------------------------------- IR

class X:
    """IR node: k = kind, a = args tuple, ty = Ty or None (C-level type of the expression)"""
    __slots__ = ("k", "a", "ty")

    def __init__(self, k, *a, ty=None):
        self.k, self.a, self.ty = k, a, ty

    def __repr__(self):
        return "X(%s,%s)" % (self.k, ",".join(map(repr, self.a)))


def deref(e):
    if e.k == "addr":
        return e.a[0]
    return X("deref", e, ty=(e.ty.to if e.ty is not None and e.ty.kind in ("ptr",) else None))


def addr(e):
    if e.k == "deref":
        return e.a[0]
    return X("addr", e, ty=(Ty("ptr", to=e.ty) if e.ty is not None else None))


OPNAMES = {
    "+": "add", "-": "sub", "*": "mul", "/": "div", "%": "mod", "+=": "addeq", "-=": "subeq", "*=": "muleq",
    "/=": "diveq", "%=": "modeq", "==": "eq", "!=": "ne", "<": "lt", ">": "gt", "<=": "le", ">=": "ge",
    "=": "assign", "[]": "index", "()": "call", "<<": "shl", ">>": "shr", "!": "not", "&&": "land", "||": "lor",
    "++": "inc", "--": "dec", "->": "arrow", "&": "amp", "|": "bor", "^": "xor", "~": "compl", "<<=": "shleq", ">>=": "shreq",
    "|=": "boreq", "&=": "andeq", "^=": "xoreq", ",": "comma",
}


def sanitize(s):
    s = s.replace("unsigned ", "u").replace("signed ", "s").replace("long long", "llong")
    s = re.sub(r"[^A-Za-z0-9_]+", "_", s)
    return s.strip("_")


class Func:
    def __init__(self):
        self.cname = None
        self.fid = None
        self.qname = None
        self.ret = None          # Ty (C-level: refs turned to ptr)
        self.params = []         # [(name, Ty C-level)]
        self.body = None         # list of stmts (IR) or None (extern)
        self.calls = OrderedDict()   # cname -> True
        self.rules = {}
        self.loops = 0
        self.kind = None
        self.src = None          # (file, line)
        self.cxx_params = []     # original canonical param types (strings)
        self.cxx_ret = None
        self.is_method = False
        self.may_throw = False
        self.records = OrderedDict()
        self.globals = OrderedDict()


class Translator:
    def __init__(self, ast, aliases=None, stdmodel=None, rec_alias=None, opts=None):
        self.ast = ast
        self.funcs = OrderedDict()       # cname -> Func
        self.fid2name = {}
        self.names_used = {}
        self.aliases = aliases or {}     # function def id -> alias
        self.rec_names = {}              # canonical record name -> C name
        self.rec_alias = rec_alias or {}
        self.rec_defs = OrderedDict()    # C name -> (fields list) in dependency order
        self.rec_info = {}               # C name -> dict
        self.globals = OrderedDict()     # C name -> (cdecl text)
        self.std = stdmodel
        self.opts = opts or {}
        self.pending = []
        self.enum_names = set()

    # ------------------------------------------------------------ names
    def record_cname(self, canon):
        n = self.rec_names.get(canon)
        if n:
            return n
        if canon in self.rec_alias:
            n = self.rec_alias[canon]
        else:
            cands = [q for q in self.ast.T.get(canon, []) if not q.startswith("std::")]
            cands = [q.split("::")[-1] for q in cands]
            cands = sorted(set(cands), key=lambda q: (len(q), q))
            if cands:
                n = cands[0]
            else:
                c = canon
                c = re.sub(r"\brkcommon::(math::|utility::|containers::|memory::|tasking::|networking::|xml::|array3D::|tracing::)?", "", c)
                c = c.replace(", void>", ">").replace(", false>", ">")
                n = sanitize(c)
        base, k = n, 1
        while n in self.rec_names.values():
            k += 1
            n = "%s_%d" % (base, k)
        self.rec_names[canon] = n
        return n

    def is_enum(self, canon):
        # enums have no R entry; look for EnumDecl by name is not possible from canon string alone.
        return canon not in self.ast.Rname

    def ctype(self, ty):
        """C type text (abstract, for casts/sizeof)"""
        return self.cdecl(ty, "")

    def cdecl(self, ty, name):
        k = ty.kind
        c = "const " if (ty.const and self.opts.get("keep_const", False)) else ""
        if k == "builtin":
            return (c + BUILTIN[ty.name] + " " + name).rstrip()
        if k == "rec":
            if ty.name == "verif_ctrl":
                return ("verif_ctrl " + name).rstrip()
            if ty.name in self.opts.get("opaque_types", {}):
                return (self.opts["opaque_types"][ty.name] + " " + name).rstrip()
            if ty.name in self.ast.Rname:
                self.need_record(ty.name)
                return (c + self.record_cname(ty.name) + " " + name).rstrip()
            # enum (no record entry): C int
            if ty.name in self.enum_underlying:
                return (BUILTIN[self.enum_underlying[ty.name]] + " " + name).rstrip()
            raise ExtractionBreak("unknown type '%s'" % ty.name)
        if k in ("ptr", "ref"):
            if ty.to.kind == "func":
                f = ty.to
                ps = ", ".join(self.cdecl(self.lower(p), "") for p in f.params) or "void"
                return "%s (*%s)(%s)" % (self.cdecl(self.lower(f.to), ""), name, ps)
            if ty.to.kind == "arr":
                raise ExtractionBreak("pointer to array type")
            return self.cdecl(ty.to, "*" + name)
        if k == "arr":
            return self.cdecl(ty.to, "%s[%s]" % (name, ty.n if ty.n is not None else ""))
        if k == "func":
            raise ExtractionBreak("bare function type")
        raise ExtractionBreak("ctype kind " + k)

    def lower(self, ty):
        """C-level type: references become pointers"""
        if ty.kind == "ref":
            return Ty("ptr", to=ty.to)
        return ty

    enum_underlying = {}

    # ------------------------------------------------------------ records
    def need_record(self, canon):
        cname = self.record_cname(canon)
        if cname in self.rec_defs or cname in getattr(self, "_rec_inprogress", set()):
            return cname
        if canon in self.opts.get("opaque_records", ()):  # modelled elsewhere (stdmodel)
            self.rec_defs[cname] = None
            return cname
        self._rec_inprogress = getattr(self, "_rec_inprogress", set())
        self._rec_inprogress.add(cname)
        rid = self.ast.Rname[canon]
        node = self.ast.nodes.get(rid)
        info = self.ast.R[rid]
        fields = []
        if node is None or canon.startswith("std::"):
            mf = self.model_record_fields(canon)
            if mf is not None:
                texts = [self.cdecl(self.lower(ft), fn) + ";" for (fn, ft) in mf]
                self.rec_defs[cname] = texts
                self.rec_info[cname] = dict(canon=canon, fields=[(fn, ft, None) for (fn, ft) in mf], size=0, align=0, tab=info, model=True)
                self._rec_inprogress.discard(cname)
                return cname
        if node is None:
            if canon in self.opts.get("model_records", {}):
                self.rec_defs[cname] = self.opts["model_records"][canon]
                self._rec_inprogress.discard(cname)
                return cname
            raise ExtractionBreak("record '%s' has no definition in the dumped files (needs a model)" % canon)
        if "poly" in info and not self.opts.get("allow_poly"):
            pass  # vptr is not modelled; virtual calls are resolved by the call rule or break there
        if "union" in info:
            raise ExtractionBreak("union '%s'" % canon)
        for b in node.get("bases", []):
            bt = parse_type(self._canon_of_base(b))
            brid = self.ast.Rname.get(bt.name)
            if brid is None:
                raise ExtractionBreak("base '%s' of '%s' unknown" % (bt.name, canon))
            if "empty" in self.ast.R[brid]:
                continue
            fields.append(("__base_" + self.record_cname(bt.name), bt, None))
        lam = getattr(self, "lambda_fields", {}).get(canon)
        k_unnamed = 0
        for c in node.get("inner", []):
            if c.get("kind") == "FieldDecl":
                fd = self.ast.D.get(c["id"])
                if fd is None:
                    raise ExtractionBreak("field without type: %s.%s" % (canon, c.get("name")))
                fname = c.get("name")
                if not fname:
                    fname = "__cap%d" % k_unnamed   # lambda capture
                    k_unnamed += 1
                fields.append((fname, parse_type(fd["type"]), c["id"]))
        texts = []
        for (fname, fty, _) in fields:
            texts.append(self.cdecl(self.lower(fty), fname) + ";")
        if not texts:
            texts.append("char __empty;")
        for g in self.opts.get("ghost_fields", {}).get(cname, []):
            texts.append(g)
        self.rec_defs[cname] = texts
        self.rec_info[cname] = dict(canon=canon, fields=fields, size=int(info.get("size", 0)), align=int(info.get("align", 0)), tab=info)
        self._rec_inprogress.discard(cname)
        return cname

    def model_record_fields(self, canon):
        return None

    def _canon_of_base(self, b):
        t = b["type"]
        s = t.get("desugaredQualType") or t["qualType"]
        # base types are printed as written; resolve via record table by suffix match
        if s in self.ast.Rname:
            return s
        cands = [nm for nm in self.ast.Rname if nm.endswith("::" + s) or nm == s]
        if len(cands) == 1:
            return cands[0]
        raise ExtractionBreak("cannot resolve base type '%s' (%d candidates)" % (s, len(cands)))

    # ------------------------------------------------------------ function naming
    def func_cname(self, fid):
        info = self.ast.finfo(fid)
        did = self.ast.D.get(fid, {}).get("def", fid)
        if did in self.fid2name:
            return self.fid2name[did]
        if did in self.aliases:
            n = self.aliases[did]
        else:
            n = self.auto_name(did, info)
        base, k = n, 1
        while n in self.names_used:
            k += 1
            n = "%s_%d" % (base, k)
        self.names_used[n] = did
        self.fid2name[did] = n
        return n

    def auto_name(self, did, info):
        node = self.ast.nodes.get(did, {})
        q = info.get("qname", node.get("name", "fn"))
        q = re.sub(r"^rkcommon::(math::|utility::|containers::|memory::|tasking::|networking::|xml::|array3D::|tracing::)?", "", q)
        kind = node.get("kind")
        ret, params = fn_ret_type(info["type"]) if "type" in info else ("void", [])
        short = []
        for p in params:
            t = parse_type(p)
            short.append(self.short_type(t))
        nm = node.get("name", "")
        prefix = ""
        if "parent" in info:
            prid = self.ast.Rcanon.get(info["parent"])
            if prid:
                prefix = self.record_cname(self.ast.R[prid]["name"]) + "_"
        if kind == "CXXConstructorDecl":
            base = prefix + "ctor"
        elif kind == "CXXDestructorDecl":
            base = prefix + "dtor"
        elif kind == "CXXConversionDecl":
            base = prefix + "conv_" + self.short_type(parse_type(ret))
        elif nm.startswith("operator"):
            op = nm[len("operator"):].strip()
            base = prefix + "op_" + OPNAMES.get(op, sanitize(op))
        else:
            if prefix:
                base = prefix + sanitize(nm)
            else:
                base = sanitize(re.sub(r"<.*>", "", q))
        if short:
            base += "__" + "_".join(short)
        if info.get("constm") and kind == "CXXMethodDecl":
            base += "_c"
        return base

    def short_type(self, t):
        if t.kind == "ref":
            return self.short_type(t.to)
        if t.kind == "ptr":
            return self.short_type(t.to) + "p"
        if t.kind == "arr":
            return self.short_type(t.to) + "a"
        if t.kind == "builtin":
            return {"unsigned char": "u8", "signed char": "i8", "char": "ch", "short": "i16", "unsigned short": "u16",
                    "int": "i32", "unsigned int": "u32", "long": "i64", "unsigned long": "u64", "long long": "ill",
                    "unsigned long long": "ull", "float": "f32", "double": "f64", "bool": "b", "void": "v"}.get(t.name, sanitize(t.name))
        if t.kind == "rec":
            if t.name in self.ast.Rname:
                return self.record_cname(t.name)
            return sanitize(t.name.split("::")[-1])
        return t.kind

    # ------------------------------------------------------------ driver
    def request(self, fid):
        """make sure function fid is (scheduled to be) translated; returns its C name"""
        did = self.ast.D.get(fid, {}).get("def", fid)
        n = self.func_cname(fid)
        if n not in self.funcs:
            self.funcs[n] = None
            self.pending.append((n, did))
        return n

    def run(self):
        while self.pending:
            n, did = self.pending.pop()
            self.funcs[n] = self.translate_function(n, did)

    # ------------------------------------------------------------ functions
    def translate_function(self, cname, did):
        node = self.ast.nodes.get(did)
        info = self.ast.D.get(did)
        if node is None or info is None:
            raise ExtractionBreak("function %s: no AST node (id %s)" % (cname, did))
        f = Func()
        f.cname, f.fid, f.kind = cname, did, node["kind"]
        f.qname = info.get("qname", node.get("name"))
        f.src = (info.get("file"), int(info.get("line", 0)))
        self.cur = f
        self.cur_captures = getattr(self, "lambda_by_callop", {}).get(did)
        self.temp_dtors = []
        self.prescan_lambdas(node, cname)
        self.tmpn = 0
        self.blockstack = []
        rets, ps = fn_ret_type(info["type"])
        f.cxx_ret, f.cxx_params = rets, ps
        is_method = node["kind"] in ("CXXMethodDecl", "CXXConstructorDecl", "CXXDestructorDecl", "CXXConversionDecl") and "static" not in info
        f.is_method = is_method
        params = []
        if is_method:
            prid = self.ast.Rcanon.get(info.get("parent"))
            if prid is None:
                raise ExtractionBreak("method %s without parent record" % cname)
            self.this_ty = Ty("ptr", to=Ty("rec", name=self.ast.R[prid]["name"]))
            self.need_record(self.ast.R[prid]["name"])
            params.append(("self", self.this_ty))
            self.rule("this->self")
        pnodes = [c for c in node.get("inner", []) if c.get("kind") == "ParmVarDecl"]
        if len(pnodes) != len(ps):
            if not (len(ps) and ps[-1] == "..."):
                raise ExtractionBreak("param count mismatch in %s" % cname)
        self.locals = {}
        for i, p in enumerate(pnodes):
            pt = parse_type(self.ast.D[p["id"]]["type"])
            pname = p.get("name") or ("__p%d" % i)
            if pname == "self":
                pname = "self_"
            self.locals[p["id"]] = (pname, pt)
            params.append((pname, self.lower(pt)))
            if pt.kind == "ref":
                self.rule("ref->ptr")
        f.params = params
        rt = parse_type(rets)
        f.ret = self.lower(rt)
        self.ret_cxx = rt
        if node["kind"] in ("CXXConstructorDecl", "CXXDestructorDecl"):
            f.ret = Ty("builtin", name="void")
        # make sure all types exist
        for (_, t) in params:
            self.ctype(t)
        self.ctype(f.ret)
        if cname in self.opts.get("opaque", ()) or cname in self.opts.get("stub_bodies", ()):
            f.body = None
            self.rule("opaque-function (assumed contract)" if cname in self.opts.get("opaque", ()) else "probe-operation (body given by the unit's stubs)")
            return f
        body = None
        stmts = []
        self.blockstack.append([])
        if node["kind"] == "CXXConstructorDecl":
            for c in node.get("inner", []):
                if c.get("kind") == "CXXCtorInitializer":
                    stmts += self.ctor_init(c)
                    stmts += self.flush_temp_dtors()
        for c in node.get("inner", []):
            if c.get("kind") == "CompoundStmt":
                body = c
            if c.get("kind") == "CXXTryStmt":
                body = c
        if body is None:
            if info.get("defaulted") or node.get("isImplicit"):
                if node["kind"] == "CXXDestructorDecl":
                    body = {"kind": "CompoundStmt", "inner": []}
                elif node["kind"] == "CXXConstructorDecl":
                    body = {"kind": "CompoundStmt", "inner": []}
                else:
                    raise ExtractionBreak("defaulted function %s without body" % cname)
            else:
                raise ExtractionBreak("function %s has no body" % cname)
        stmts += self.stmt(body)
        if node["kind"] == "CXXDestructorDecl":
            stmts += self.implicit_member_dtors(prid)
        temps = self.blockstack.pop()
        f.body = temps + stmts
        if self.opts.get("param_lifetime"):
            # a by-value parameter of class type is an object of the callee's frame: copy it into a block-scoped local, so that the
            # verifier ends its lifetime when the function returns (CBMC does not mark parameters dead) and a reference that
            # outlives the call is a dereference of a dead object
            ren, pre = [], []
            for (pn, pt) in f.params:
                if pt.kind == "rec" and pn != "self":
                    ren.append((pn + "__in", pt))
                    pre.append(X("decl", pt, pn, X("var", pn + "__in", ty=pt)))
                    self.rule("by-value parameter -> frame-local object")
                else:
                    ren.append((pn, pt))
            if pre:
                f.params = ren
                f.body = [X("block", pre + f.body)]
        return f

    def flush_temp_dtors(self):
        """destructor calls for temporaries of the full-expression just translated (reverse order of creation)"""
        out = []
        td = getattr(self, "temp_dtors", [])
        while td:
            (t, dfn) = td.pop()
            out.append(X("expr", X("call", dfn, [addr(t)])))
        return out

    def register_temp_dtor(self, t, dtor_id, ty):
        dfn = self.request_dtor(dtor_id, ty)
        if dfn:
            self.cur.calls[dfn] = True
            if not hasattr(self, "temp_dtors"):
                self.temp_dtors = []
            self.temp_dtors.append((t, dfn))
            self.rule("temporary-dtor")

    def prescan_lambdas(self, node, cname):
        """closure types get names that are stable under line shifts: <enclosing function>__lambda<k> in source order"""
        k = 0
        stack = [node]
        order = []
        while stack:
            n = stack.pop()
            if n.get("kind") == "LambdaExpr":
                order.append(n)
            for ch in reversed(n.get("inner", [])):
                if isinstance(ch, dict):
                    stack.append(ch)
        for n in order:
            info = self.ast.E.get(n.get("id"))
            if not info or "closure" not in info:
                continue
            r = self.ast.R.get(info["closure"])
            if r is None:
                continue
            canon = r["name"]
            k += 1
            if canon not in self.rec_names and canon not in self.rec_alias:
                self.rec_alias[canon] = "%s__lambda%d" % (cname, k)

    def rule(self, r, n=1):
        self.cur.rules[r] = self.cur.rules.get(r, 0) + n

    def newtmp(self, ty):
        self.tmpn += 1
        name = "__t%d" % self.tmpn
        self.blockstack[-1].append(X("decl", self.lower(ty), name, None))
        return X("var", name, ty=self.lower(ty))

    # ------------------------------------------------------------ ctor initializers
    def ctor_init(self, c):
        inner = c.get("inner", [])
        if "anyInit" in c:
            fd = c["anyInit"]
            fty = parse_type(self.ast.D[fd["id"]]["type"])
            target = X("mem", deref(X("var", "self", ty=self.this_ty)), fd["name"], ty=self.lower(fty))
            return self.init_object(target, fty, inner[0] if inner else None)
        if "baseInit" in c:
            e = inner[0]
            bt = parse_type(self.ast.E[e["id"]]["type"])
            brid = self.ast.Rname.get(bt.name)
            if brid and "empty" in self.ast.R[brid]:
                self.rule("empty-base-init-dropped")
                return []
            target = X("mem", deref(X("var", "self", ty=self.this_ty)), "__base_" + self.record_cname(bt.name), ty=bt)
            return self.init_object(target, bt, e)
        if "delegatingInit" in c:
            e = inner[0]
            target = deref(X("var", "self", ty=self.this_ty))
            return self.init_object(target, self.this_ty.to, e)
        raise ExtractionBreak("ctor initializer form")

    def init_object(self, target, ty, e):
        """statements initialising C lvalue `target` (of C++ type ty) from initialiser expression node e"""
        if e is None:
            return []
        if ty.kind == "ref":
            # reference member/variable: bind
            return [X("expr", X("assign", "=", target, self.bind_ref(e)))]
        e2 = self.skip_wrappers(e)
        if e2.get("kind") in ("CXXConstructExpr", "CXXTemporaryObjectExpr") and ty.kind == "rec":
            return self.construct_into(addr(target), e2)
        if e2.get("kind") == "InitListExpr" and ty.kind in ("arr", "rec"):
            return self.initlist_into(target, ty, e2)
        if e2.get("kind") == "ImplicitValueInitExpr" or e2.get("kind") == "CXXScalarValueInitExpr":
            if ty.kind in ("arr", "rec"):
                return [X("raw", "__builtin_memset(&(%s), 0, sizeof(%s));" % (self.pr(target), self.pr(target)))]
        if ty.kind == "arr":
            if e2.get("kind") == "StringLiteral":
                return [X("raw", "__builtin_memcpy(%s, %s, sizeof(%s));" % (self.pr(target), e2["value"], e2["value"]))]
            raise ExtractionBreak("array initialiser %s" % e2.get("kind"))
        return [X("expr", X("assign", "=", target, self.rv(e)))]

    def skip_wrappers(self, e):
        while e.get("kind") in ("ExprWithCleanups", "ParenExpr", "ConstantExpr", "CXXFunctionalCastExpr", "CXXBindTemporaryExpr", "ImplicitCastExpr", "MaterializeTemporaryExpr", "CXXStaticCastExpr") :
            k = e["kind"]
            if k in ("CXXFunctionalCastExpr", "ImplicitCastExpr", "CXXStaticCastExpr") and e.get("castKind") not in ("ConstructorConversion", "NoOp"):
                break
            if k == "CXXBindTemporaryExpr" and "dtor" in self.ast.E.get(e["id"], {}):
                break
            if k == "MaterializeTemporaryExpr":
                break
            e = e["inner"][0]
        if e.get("kind") in ("CXXConstructExpr",) and e.get("elidable"):
            src = e["inner"][0]
            s2 = src
            while s2.get("kind") in ("MaterializeTemporaryExpr", "ImplicitCastExpr", "CXXBindTemporaryExpr") and (s2.get("kind") != "ImplicitCastExpr" or s2.get("castKind") == "NoOp"):
                s2 = s2["inner"][0]   # (with elision the temporary IS the constructed object: no separate destructor)
            if s2.get("valueCategory") == "prvalue" and self.ast.E.get(s2.get("id"), {}).get("type") is not None:
                self.rule("copy-elision")
                return self.skip_wrappers(s2)
        return e

    def construct_into(self, ptr, ce):
        """statements: run constructor of CXXConstructExpr ce on storage ptr (C pointer expr)"""
        einfo = self.ast.E[ce["id"]]
        ctor = einfo["ctor"]
        cinfo = self.ast.finfo(ctor)
        args = ce.get("inner", [])
        rty = parse_type(einfo["type"])
        m = self.model_ctor(ctor, cinfo, ptr, args, ce)
        if m is not None:
            return m
        if ce.get("elidable"):
            inner = self.skip_wrappers(ce)
            if inner is not ce:
                if inner.get("kind") in ("CXXConstructExpr", "CXXTemporaryObjectExpr"):
                    return self.construct_into(ptr, inner)
                return [X("expr", X("assign", "=", deref(ptr), self.rv(inner)))]
        if "trivial" in cinfo:
            if "defctor" in cinfo and not args:
                if ce.get("zeroing"):
                    self.rule("value-init-zero")
                    return [X("raw", "__builtin_memset(%s, 0, sizeof(%s));" % (self.pr(ptr), self.ctype(rty)))]
                self.rule("trivial-default-ctor")
                return []
            if ("copyctor" in cinfo or "movector" in cinfo) and len(args) == 1:
                self.rule("trivial-copy")
                return [X("expr", X("assign", "=", deref(ptr), self.lv(args[0])))]
        out = []
        if ce.get("zeroing"):
            out.append(X("raw", "__builtin_memset(%s, 0, sizeof(%s));" % (self.pr(ptr), self.ctype(rty))))
        fn = self.request(ctor)
        cargs = [ptr] + self.call_args(ctor, args)
        self.cur.calls[fn] = True
        out.append(X("expr", self.wrap_call(ctor, X("call", fn, cargs, ty=Ty("builtin", name="void")))))
        return out

    def model_ctor(self, ctor, cinfo, ptr, args, ce):
        return None

    def wrap_call(self, fid, call):
        return call

    def initlist_into(self, target, ty, e):
        out = []
        items = e.get("inner", [])
        if ty.kind == "arr":
            for i, it in enumerate(items):
                out += self.init_object(X("index", target, X("lit", str(i)), ty=ty.to), ty.to, it)
            if ty.n is not None and len(items) < ty.n:
                filler = e.get("array_filler")
                if filler:
                    f0 = filler[0] if isinstance(filler, list) else filler
                    for i in range(len(items), ty.n):
                        out += self.init_object(X("index", target, X("lit", str(i)), ty=ty.to), ty.to, f0)
            return out
        cn = self.need_record(ty.name)
        fields = [f for f in self.rec_info[cn]["fields"]]
        for (fname, fty, _), it in zip(fields, items):
            out += self.init_object(X("mem", target, fname, ty=self.lower(fty)), fty, it)
        return out

    def implicit_member_dtors(self, prid):
        """destructor calls for members with non-trivial destructors, reverse order"""
        out = []
        cn = self.record_cname(self.ast.R[prid]["name"])
        self.need_record(self.ast.R[prid]["name"])
        info = self.rec_info.get(cn)
        if not info:
            return out
        for (fname, fty, fid) in reversed(info["fields"]):
            t = fty
            if t.kind == "rec" and t.name in self.ast.Rname:
                r = self.ast.R[self.ast.Rname[t.name]]
                if "ntdtor" in r:
                    d = r.get("dtor")
                    if not d:
                        raise ExtractionBreak("member with non-trivial dtor but no dtor decl")
                    fn = self.request_dtor(d, t)
                    if fn:
                        self.cur.calls[fn] = True
                        out.append(X("expr", X("call", fn, [addr(X("mem", deref(X("var", "self", ty=self.this_ty)), fname, ty=fty))])))
                        self.rule("member-dtor")
        return out

    def request_dtor(self, did, ty):
        m = self.model_dtor(did, ty)
        if m is not None:
            return m or None
        info = self.ast.finfo(did)
        if "trivial" in info:
            return None
        return self.request(did)

    def model_dtor(self, did, ty):
        return None

    # ------------------------------------------------------------ statements
    def stmt(self, s):
        k = s.get("kind")
        m = getattr(self, "s_" + k, None)
        if m is None:
            if "valueCategory" in s or k.endswith("Expr") or k.endswith("Operator") or k.endswith("Literal"):
                return self.full_expr_stmt(s)
            raise ExtractionBreak("function %s: unsupported statement kind %s" % (self.cur.cname, k))
        return m(s)

    def full_expr_stmt(self, s):
        dropped = self.droppable(s)
        if dropped and self.opts.get("stream_eval_operands"):
            # the formatting itself is dropped, but every operand of the << chain is still evaluated (its side effects, and any
            # undefined behaviour inside it, stay visible)
            self.rule("dropped:" + dropped + " (operands evaluated)")
            ops = []
            def walk(n):
                while n.get("kind") in ("ExprWithCleanups", "ParenExpr", "ImplicitCastExpr", "MaterializeTemporaryExpr", "CXXBindTemporaryExpr") and n.get("inner"):
                    n = n["inner"][0]
                if n.get("kind") == "CXXOperatorCallExpr" and len(n.get("inner", [])) == 3:
                    walk(n["inner"][1])
                    ops.append(n["inner"][2])
            walk(s)
            out = []
            for o in ops:
                out.append(X("expr", X("cast", "void", self.discard(o))))
            return out + self.flush_temp_dtors()
        if dropped:
            self.rule("dropped:" + dropped)
            return []
        e = self.discard(s)
        return [X("expr", e)] + self.flush_temp_dtors()

    def droppable(self, s):
        return None

    def discard(self, s):
        """expression evaluated for side effects only"""
        s2 = s
        while s2.get("kind") in ("ExprWithCleanups", "ParenExpr"):
            s2 = s2["inner"][0]
        if s2.get("kind") == "ImplicitCastExpr" and s2.get("castKind") == "ToVoid":
            s2 = s2["inner"][0]
        if s2.get("valueCategory") in ("lvalue", "xvalue"):
            return self.lv(s2)
        return self.rv(s2)

    def s_CompoundStmt(self, s):
        self.blockstack.append([])
        out = []
        self.scopes = getattr(self, "scopes", [])
        self.scopes.append([])
        for c in s.get("inner", []):
            out += self.stmt(c)
        out += self.scope_exit_dtors(self.scopes[-1], out)
        self.scopes.pop()
        temps = self.blockstack.pop()
        return [X("block", temps + out)]

    def scope_exit_dtors(self, scope, stmts):
        if not scope:
            return []
        # not needed if the block ends in an unconditional return (dtors were emitted there)
        if stmts and stmts[-1].k in ("return", "goto_ret"):
            return []
        out = []
        for (name, ty, dfn) in reversed(scope):
            out.append(X("expr", X("call", dfn, [addr(X("var", name, ty=ty))])))
        return out

    def all_scope_dtors(self):
        out = []
        for scope in reversed(getattr(self, "scopes", [])):
            for (name, ty, dfn) in reversed(scope):
                out.append(X("expr", X("call", dfn, [addr(X("var", name, ty=ty))])))
        return out

    def s_NullStmt(self, s):
        return []

    def s_DeclStmt(self, s):
        out = []
        for d in s.get("inner", []):
            k = d.get("kind")
            if k == "VarDecl":
                out += self.vardecl(d)
            elif k in ("TypedefDecl", "TypeAliasDecl", "UsingDecl", "StaticAssertDecl", "UsingDirectiveDecl", "CXXRecordDecl", "EnumDecl"):
                self.rule("decl-dropped:" + k)
            else:
                raise ExtractionBreak("DeclStmt with " + k)
        return out

    def vardecl(self, d):
        info = self.ast.D.get(d["id"])
        if info is None:
            raise ExtractionBreak("VarDecl %s without type" % d.get("name"))
        ty = parse_type(info["type"])
        name = d["name"]
        if "staticlocal" in info or d.get("storageClass") == "static":
            return self.static_local(d, info, ty)
        self.locals[d["id"]] = (name, ty)
        lty = self.lower(ty)
        inner = [c for c in d.get("inner", []) if "kind" in c and c["kind"] not in ("FullComment",)]
        init = inner[0] if inner else None
        out = []
        if ty.kind == "ref":
            self.rule("ref-var")
            out.append(X("decl", lty, name, self.bind_ref(init)))
            if getattr(self, "temp_dtors", None):
                raise ExtractionBreak("reference bound to a temporary with a destructor (lifetime extension)")
            return out
        if ty.kind == "rec" or ty.kind == "arr":
            out.append(X("decl", lty, name, None))
            if init is not None:
                out += self.init_object(X("var", name, ty=lty), ty, init)
            out += self.flush_temp_dtors()
            if "dtor" in info:
                dfn = self.request_dtor(info["dtor"], ty)
                if dfn:
                    self.cur.calls[dfn] = True
                    self.scopes[-1].append((name, lty, dfn))
                    self.rule("local-dtor")
            return out
        e = self.rv(init) if init is not None else None
        out.append(X("decl", lty, name, e))
        out += self.flush_temp_dtors()
        return out

    def static_local(self, d, info, ty):
        raise ExtractionBreak("static local variable %s" % d.get("name"))

    def s_ReturnStmt(self, s):
        inner = s.get("inner", [])
        dt = self.all_scope_dtors()
        if not inner:
            return dt + [X("return", None)]
        e = inner[0]
        if self.ret_cxx.kind == "ref":
            v = self.bind_ref(e)
        else:
            v = self.rv(e)
        chk = self.flush_temp_dtors()
        if dt or chk:
            t = self.newtmp(self.cur.ret)
            return [X("expr", X("assign", "=", t, v))] + chk + dt + [X("return", t)]
        return [X("return", v)]

    def s_IfStmt(self, s):
        inner = s["inner"]
        idx = 0
        pre = []
        if s.get("hasInit"):
            pre += self.stmt(inner[idx]); idx += 1
        if s.get("hasVar"):
            pre += self.stmt(inner[idx]); idx += 1
        c = self.cond(inner[idx])
        chk = self.flush_temp_dtors()
        if chk:
            t = self.newtmp(Ty("builtin", name="bool"))
            pre += [X("expr", X("assign", "=", t, c))] + chk
            c = t
        th = self.stmt(inner[idx + 1])
        el = self.stmt(inner[idx + 2]) if len(inner) > idx + 2 else None
        r = [X("if", c, th, el)]
        return [X("block", pre + r)] if pre else r

    def cond(self, e):
        return self.rv(e)

    def s_ForStmt(self, s):
        init, condvar, cond, inc, body = s["inner"]
        self.cur.loops += 1
        lid = self.cur.loops
        self.blockstack.append([])
        self.scopes.append([])
        i = self.stmt(init) if init.get("kind") else []
        c = self.cond(cond) if cond.get("kind") else None
        self.no_exc_pending("for-condition")
        n = self.discard(inc) if inc.get("kind") else None
        self.no_exc_pending("for-increment")
        b = self.stmt(body)
        self.scopes.pop()
        temps = self.blockstack.pop()
        return [X("block", temps + i + [X("for", None, c, n, b, lid)])]

    def s_CXXForRangeStmt(self, s):
        inner = s["inner"]
        # [init, range, begin, end, cond, inc, loopvar, body]
        init, rng, beg, end, cond, inc, loopvar, body = inner
        self.cur.loops += 1
        lid = self.cur.loops
        self.blockstack.append([])
        self.scopes.append([])
        pre = []
        for d in (init, rng, beg, end):
            if d.get("kind"):
                pre += self.stmt(d)
        c = self.cond(cond)
        self.no_exc_pending("range-for condition")
        n = self.discard(inc)
        self.no_exc_pending("range-for increment")
        self.blockstack.append([])
        self.scopes.append([])
        b = self.stmt(loopvar) + self.stmt(body)
        b += self.scope_exit_dtors(self.scopes[-1], b)
        self.scopes.pop()
        bt = self.blockstack.pop()
        self.scopes.pop()
        temps = self.blockstack.pop()
        self.rule("range-for")
        return [X("block", temps + pre + [X("for", None, c, n, [X("block", bt + b)], lid)])]

    def s_WhileStmt(self, s):
        inner = s["inner"]
        cond, body = inner[-2], inner[-1]
        self.cur.loops += 1
        lid = self.cur.loops
        c = self.cond(cond)
        self.no_exc_pending("while-condition")
        b = self.stmt(body)
        return [X("while", c, b, lid)]

    def s_DoStmt(self, s):
        body, cond = s["inner"]
        self.cur.loops += 1
        lid = self.cur.loops
        b = self.stmt(body)
        c = self.cond(cond)
        self.no_exc_pending("do-condition")
        return [X("do", c, b, lid)]

    def s_BreakStmt(self, s):
        return [X("break")]

    def s_ContinueStmt(self, s):
        return [X("continue")]

    def s_SwitchStmt(self, s):
        inner = s["inner"]
        c = self.rv(inner[-2])
        b = self.stmt(inner[-1])
        return [X("switch", c, b)]

    def s_CaseStmt(self, s):
        inner = s["inner"]
        v = self.rv(inner[0])
        rest = []
        for c in inner[1:]:
            rest += self.stmt(c)
        return [X("case", v)] + rest

    def s_DefaultStmt(self, s):
        rest = []
        for c in s["inner"]:
            rest += self.stmt(c)
        return [X("case", None)] + rest

    # exceptions ---------------------------------------------------------
    def exc_check(self):
        return []

    def exc_check_if_called(self):
        return []

    def no_exc_pending(self, where):
        if getattr(self, "temp_dtors", None):
            raise ExtractionBreak("function %s: temporary with destructor in a %s" % (self.cur.cname, where))

    # ------------------------------------------------------------ expressions
    def ety(self, e):
        i = self.ast.E.get(e.get("id"))
        if i is None:
            raise ExtractionBreak("expression without side-table type: %s in %s" % (e.get("kind"), self.cur.cname))
        return parse_type(i["type"])

    def is_glvalue(self, e):
        return e.get("valueCategory") in ("lvalue", "xvalue")

    def bind_ref(self, e):
        """C pointer expression for binding a reference to expression e"""
        if self.is_glvalue(e):
            return addr(self.lv(e))
        # prvalue bound directly (should be wrapped in MaterializeTemporaryExpr, but be safe)
        t = self.newtmp(self.ety(e))
        return X("comma", X("assign", "=", t, self.rv(e)), addr(t))

    def lv(self, e):
        """C lvalue expression for glvalue e (for prvalues of class type: materialise)"""
        k = e["kind"]
        m = getattr(self, "e_" + k, None)
        if m is None:
            raise ExtractionBreak("function %s: unsupported expression kind %s" % (self.cur.cname, k))
        r = m(e)
        if not self.is_glvalue(e):
            # need an lvalue of a prvalue: materialise
            ty = self.ety(e)
            t = self.newtmp(ty)
            self.rule("materialize")
            return deref(X("comma", X("assign", "=", t, r), addr(t), ty=Ty("ptr", to=self.lower(ty))))
        return r

    def rv(self, e):
        """C rvalue expression for e (glvalues are read)"""
        k = e["kind"]
        m = getattr(self, "e_" + k, None)
        if m is None:
            raise ExtractionBreak("function %s: unsupported expression kind %s" % (self.cur.cname, k))
        return m(e)

    # leaves
    def e_IntegerLiteral(self, e):
        ty = self.ety(e)
        v = e["value"]
        suf = {"unsigned int": "u", "long": "l", "unsigned long": "ul", "long long": "ll", "unsigned long long": "ull"}.get(ty.name, "")
        return X("lit", v + suf, ty=ty)

    def e_FloatingLiteral(self, e):
        ty = self.ety(e)
        v = e["value"]
        if not re.search(r"[.eEn]", v):
            v += ".0"
        if v in ("inf", "+Inf", "Inf"):
            v = "(1.0/0.0)"
        return X("lit", v + ("f" if ty.name == "float" and not v.startswith("(") else ""), ty=ty)

    def e_CXXBoolLiteralExpr(self, e):
        return X("lit", "1" if e["value"] else "0", ty=Ty("builtin", name="bool"))

    def e_CharacterLiteral(self, e):
        return X("lit", str(e["value"]), ty=self.ety(e))

    def e_StringLiteral(self, e):
        return X("lit", e["value"], ty=Ty("ptr", to=Ty("builtin", name="char")))

    def e_CXXNullPtrLiteralExpr(self, e):
        return X("lit", "((void*)0)", ty=Ty("ptr", to=Ty("builtin", name="void")))

    def e_GNUNullExpr(self, e):
        return X("lit", "0", ty=Ty("builtin", name="long"))

    def e_ParenExpr(self, e):
        return self.rv(e["inner"][0])

    def e_ConstantExpr(self, e):
        return self.rv(e["inner"][0])

    def e_ExprWithCleanups(self, e):
        return self.rv(e["inner"][0])

    def e_SubstNonTypeTemplateParmExpr(self, e):
        return self.rv(e["inner"][-1])

    def e_CXXBindTemporaryExpr(self, e):
        if "dtor" in self.ast.E.get(e["id"], {}):
            return self.bind_temporary(e)
        return self.rv(e["inner"][0])

    def bind_temporary(self, e):
        """prvalue temporary with a destructor used as a value: park it in a temp, destroy at end of full-expression"""
        ty = self.ety(e)
        t = self.newtmp(ty)
        sub = e["inner"][0]
        s2 = self.skip_wrappers(sub)
        if ty.kind == "rec" and s2.get("kind") in ("CXXConstructExpr", "CXXTemporaryObjectExpr"):
            st = self.construct_into(addr(t), s2)
            r = X("sexpr", st, t, ty=ty)
        else:
            r = X("comma", X("assign", "=", t, self.rv(sub)), t, ty=ty)
        self.register_temp_dtor(t, self.ast.E[e["id"]]["dtor"], ty)
        return r

    def e_CXXThisExpr(self, e):
        caps = getattr(self, "cur_captures", None)
        if caps:
            for (fname, fty, var, _) in caps:
                if var == "this":
                    self.rule("captured-this access")
                    return X("mem", deref(X("var", "self", ty=self.this_ty)), fname, ty=self.lower(fty))
            raise ExtractionBreak("'this' used in a lambda that does not capture it")
        return X("var", "self", ty=self.this_ty)

    def e_DeclRefExpr(self, e):
        rd = e["referencedDecl"]
        rid, rk = rd["id"], rd["kind"]
        if rk in ("ParmVarDecl", "VarDecl"):
            if rid in self.locals:
                name, ty = self.locals[rid]
                if ty.kind == "ref":
                    return deref(X("var", name, ty=self.lower(ty)))
                return X("var", name, ty=ty)
            cap = self.captured(rid)
            if cap is not None:
                return cap
            return self.global_var(rd)
        if rk == "EnumConstantDecl":
            return X("lit", str(self.ast.C[rid]), ty=Ty("builtin", name="int"))
        if rk in ("FunctionDecl", "CXXMethodDecl"):
            fn = self.request_callee(rid)
            return X("var", fn)
        if rk == "NonTypeTemplateParmDecl":
            raise ExtractionBreak("unsubstituted template parameter")
        if rk == "BindingDecl":
            raise ExtractionBreak("structured binding")
        raise ExtractionBreak("DeclRefExpr to " + rk)

    def captured(self, rid):
        """access to a captured variable inside a lambda's call operator: self->__capI (dereferenced for by-reference captures;
        the captured variable may itself be a reference, whose referent the capture field points to)"""
        caps = getattr(self, "cur_captures", None)
        if not caps:
            return None
        for (fname, fty, var, _) in caps:
            if var == rid:
                self.rule("captured-variable access")
                m = X("mem", deref(X("var", "self", ty=self.this_ty)), fname, ty=self.lower(fty))
                return deref(m) if fty.kind == "ref" else m
        return None

    def global_var(self, rd):
        rid = rd["id"]
        info = self.ast.D.get(rid)
        node = self.ast.nodes.get(rid)
        if info is None and rd.get("name") == "npos":
            self.rule("std::string::npos")
            return X("lit", "((unsigned long)-1)", ty=parse_type("unsigned long"))
        if info is None:
            raise ExtractionBreak("global %s unknown" % rd.get("name"))
        ty = parse_type(info["type"])
        if "cval" in info and ty.kind == "builtin":
            self.rule("constant-global->literal")
            return X("lit", info["cval"], ty=ty)
        # canonical decl: find the definition with an initialiser
        name = rd["name"]
        gname = self.opts.get("global_names", {}).get(name, "g_" + name if name in ("min", "max", "abs") else name)
        if gname not in self.globals:
            init = None
            if node is not None:
                inner = [c for c in node.get("inner", []) if "kind" in c]
                if inner and ty.kind != "rec":
                    save = (self.cur, self.blockstack)
                    try:
                        self.blockstack = [[]]
                        x = self.rv(inner[0])
                        if self.blockstack[0]:
                            raise ExtractionBreak("global %s: non-constant initialiser" % name)
                        init = self.pr(x)
                    finally:
                        self.cur, self.blockstack = save
            if ty.kind == "ref":
                raise ExtractionBreak("global reference " + name)
            decl = "static " + self.cdecl(ty, gname) + ((" = " + init) if init is not None else "") + ";"
            self.globals[gname] = decl
            self.rule("global")
        self.cur.globals[gname] = True
        return X("var", gname, ty=ty)

    def e_MemberExpr(self, e):
        base = e["inner"][0]
        mid = e.get("referencedMemberDecl")
        mnode = self.ast.nodes.get(mid, {})
        minfo = self.ast.D.get(mid)
        if mnode.get("kind") not in ("FieldDecl",):
            if mnode.get("kind") == "VarDecl":  # static data member
                return self.global_var({"id": mid, "name": mnode["name"]})
            bty = self.ety(base)
            bty = bty.to if e.get("isArrow") and bty.kind == "ptr" else bty.noref()
            std = getattr(self, "stdlib", None)
            ext = self.opts.get("ext_records", {})
            if not mnode and bty.kind == "rec" and bty.name in ext:
                # field of a record the unit models itself
                fl = dict((fn, parse_type(ft)) for (fn, ft) in ext[bty.name])
                if e["name"] not in fl:
                    raise ExtractionBreak("field '%s' of modelled record %s" % (e["name"], bty.name))
                self.need_record(bty.name)
                self.rule("unit-modelled record field")
                b = deref(self.rv(base)) if e.get("isArrow") else self.lv(base)
                return X("mem", b, e["name"], ty=self.lower(fl[e["name"]]))
            if not mnode and std is not None and bty.kind == "rec" and std.record(bty.name) is not None and not std.is_opaque(bty.name):
                # field of a modelled std record (std::pair): the declaration lives in a system header (not dumped)
                fl = dict(std.record(bty.name))
                if e["name"] == "npos":
                    self.rule("std::string::npos")
                    return X("lit", "((unsigned long)-1)", ty=parse_type("unsigned long"))
                if e["name"] not in fl:
                    raise ExtractionBreak("field '%s' of modelled record %s" % (e["name"], bty.name))
                self.need_record(bty.name)
                self.rule("modelled std record field")
                b = deref(self.rv(base)) if e.get("isArrow") else self.lv(base)
                return X("mem", b, e["name"], ty=self.lower(fl[e["name"]]))
            raise ExtractionBreak("MemberExpr to %s" % mnode.get("kind"))
        fty = parse_type(minfo["type"])
        if e.get("isArrow"):
            b = deref(self.rv(base))
        else:
            b = self.lv(base)
        r = X("mem", b, e["name"], ty=self.lower(fty))
        g = self.guarded_check(mnode, e["name"], b)
        if g is not None:
            # lock discipline: the access is preceded by an assertion that the guarding mutex is held
            r = deref(X("sexpr", [g], addr(r), ty=Ty("ptr", to=self.lower(fty))))
        if fty.kind == "ref":
            return deref(r)
        return r

    def guarded_check(self, mnode, fname, base):
        gb = self.opts.get("guarded_by")
        if not gb:
            return None
        # constructors and destructors run before/after the object is shared
        if self.cur.kind in ("CXXConstructorDecl", "CXXDestructorDecl"):
            return None
        par = self.ast.parent.get(mnode.get("id"))
        prec = self.ast.nodes.get(par, {})
        key = None
        for (rec, fld), mtx in gb.items():
            if fld == fname and rec in (prec.get("name") or ""):
                key = mtx
        if key is None:
            return None
        self.rule("guarded-by check")
        return X("raw", "__CPROVER_assert(%s.%s.g_held != 0, \"LOCK field '%s' is accessed without holding '%s'\");" % (self.pr(base) if base.k != "deref" else "(*%s)" % self.pr(base.a[0]), key, fname, key))

    def e_ArraySubscriptExpr(self, e):
        a, i = e["inner"]
        return X("index", self.rv(a), self.rv(i), ty=self.ety(e))

    def e_UnaryOperator(self, e):
        op = e["opcode"]
        sub = e["inner"][0]
        ty = self.ety(e)
        if op == "&":
            return addr(self.lv(sub))
        if op == "*":
            return deref(self.rv(sub))
        if op in ("++", "--"):
            return X("incdec", op, not e.get("isPostfix", False), self.lv(sub), ty=ty)
        if op in ("-", "+", "!", "~"):
            return X("un", op, self.rv(sub), ty=ty)
        if op == "__extension__":
            return self.rv(sub)
        raise ExtractionBreak("unary operator " + op)

    def e_BinaryOperator(self, e):
        op = e["opcode"]
        a, b = e["inner"]
        ty = self.ety(e)
        if op == "=":
            return X("assign", "=", self.lv(a), self.rv(b), ty=ty)
        if op == ",":
            return X("comma", self.discard(a), self.rv(b) if not self.is_glvalue(b) else self.lv(b), ty=ty)
        if op in (".*", "->*"):
            raise ExtractionBreak("pointer to member")
        uf = self.uf_name(op, ty, self.ety(a), self.ety(b))
        if uf:
            self.rule("arith-op->uninterpreted")
            return X("call", uf, [self.rv(a), self.rv(b)], ty=ty)
        return X("bin", op, self.rv(a), self.rv(b), ty=ty)

    def e_CompoundAssignOperator(self, e):
        a, b = e["inner"]
        if (self.opts.get("uf_float") or self.opts.get("uf_arith")) and "computeResultType" in e:
            crt = parse_type(e["computeResultType"].get("desugaredQualType") or e["computeResultType"]["qualType"])
            op = e["opcode"][:-1]
            uf = self.uf_name(op, crt, self.ety(a), self.ety(b))
            if uf:
                lhs = self.lv(a)
                if not self.simple_lvalue(lhs):
                    raise ExtractionBreak("compound arithmetic assignment to a complex lvalue")
                self.rule("arith-op->uninterpreted")
                lty = self.ety(a)
                call = X("call", uf, [X("cast", self.ctype(crt), lhs), X("cast", self.ctype(crt), self.rv(b))], ty=crt)
                return X("assign", "=", lhs, X("cast", self.ctype(lty), call), ty=lty)
        return X("assign", e["opcode"], self.lv(a), self.rv(b), ty=self.ety(e))

    UFT = {"int": "i32", "unsigned int": "u32", "long": "i64", "unsigned long": "u64", "float": "f32", "double": "f64"}

    def uf_name(self, op, ty, ta, tb):
        """name of the uninterpreted symbol standing for scalar `op` in type ty, or None"""
        if op not in ("+", "-", "*", "/", "%"):
            return None
        if ty.kind != "builtin" or ty.name not in self.UFT:
            return None
        if ta.kind != "builtin" or tb.kind != "builtin":
            return None
        if ty.is_float():
            if not (self.opts.get("uf_float") or self.opts.get("uf_arith")) or op == "%":
                return None
        elif not self.opts.get("uf_arith"):
            return None
        return "verif_%s_%s" % ({"+": "add", "-": "sub", "*": "mul", "/": "div", "%": "mod"}[op], self.UFT[ty.name])

    def simple_lvalue(self, x):
        if x.k == "var":
            return True
        if x.k in ("mem",):
            return self.simple_lvalue(x.a[0])
        if x.k == "deref":
            return x.a[0].k == "var"
        return False

    def e_ConditionalOperator(self, e):
        c, a, b = e["inner"]
        ty = self.ety(e)
        if self.is_glvalue(e):
            return deref(X("cond", self.rv(c), addr(self.lv(a)), addr(self.lv(b)), ty=Ty("ptr", to=ty)))
        return X("cond", self.rv(c), self.rv(a), self.rv(b), ty=ty)

    def e_CXXScalarValueInitExpr(self, e):
        ty = self.ety(e)
        if ty.kind in ("rec", "arr"):
            t = self.newtmp(ty)
            return X("comma", X("raw", "__builtin_memset(&%s, 0, sizeof(%s))" % (t.a[0], t.a[0])), t, ty=ty)
        return X("cast", self.ctype(ty), X("lit", "0"), ty=ty)

    e_ImplicitValueInitExpr = e_CXXScalarValueInitExpr

    def e_UnaryExprOrTypeTraitExpr(self, e):
        v = self.ast.E[e["id"]].get("value")
        if v is None:
            raise ExtractionBreak("sizeof/alignof not constant")
        return X("lit", v + "ul", ty=Ty("builtin", name="unsigned long"))

    def e_CXXDefaultArgExpr(self, e):
        i = self.ast.E[e["id"]]
        node = self.ast.nodes.get(i["defexpr"])
        if node is None:
            raise ExtractionBreak("default argument expression not in dump")
        self.rule("default-arg")
        return self.rv(node) if not self.is_glvalue(node) else self.lv(node)

    def e_CXXDefaultInitExpr(self, e):
        i = self.ast.E[e["id"]]
        node = self.ast.nodes.get(i["defexpr"])
        if node is None:
            raise ExtractionBreak("default member initialiser not in dump")
        self.rule("default-member-init")
        return self.rv(node)

    # casts
    def cast_common(self, e):
        ck = e.get("castKind")
        sub = e["inner"][-1]
        ty = self.ety(e)
        if ck in ("LValueToRValue",):
            return self.lv(sub)
        if ck in ("NoOp",):
            if self.is_glvalue(e):
                return self.lv(sub)
            r = self.rv(sub)
            return r
        if ck in ("IntegralCast", "IntegralToFloating", "FloatingToIntegral", "FloatingCast", "IntegralToBoolean",
                  "FloatingToBoolean", "PointerToBoolean", "BooleanToSignedIntegral"):
            if ck == "PointerToBoolean":
                return X("bin", "!=", self.rv(sub), X("lit", "((void*)0)"), ty=ty)
            return X("cast", self.ctype(ty), self.rv(sub), ty=ty)
        if ck in ("ArrayToPointerDecay",):
            if sub.get("kind") == "StringLiteral":
                return self.rv(sub)
            l = self.lv(sub)
            return X("addr", X("index", l, X("lit", "0")), ty=ty)
        if ck in ("FunctionToPointerDecay", "BuiltinFnToFnPtr"):
            return self.rv(sub)
        if ck == "NullToPointer":
            return X("lit", "((void*)0)", ty=ty)
        if ck in ("BitCast", "PointerToIntegral", "IntegralToPointer", "CPointerToObjCPointerCast"):
            return X("cast", self.ctype(ty), self.rv(sub), ty=ty)
        if ck in ("DerivedToBase", "UncheckedDerivedToBase"):
            return self.derived_to_base(e, sub, ty)
        if ck == "BaseToDerived":
            return self.base_to_derived(e, sub, ty)
        if ck in ("ConstructorConversion", "UserDefinedConversion"):
            return self.rv(sub) if not self.is_glvalue(e) else self.lv(sub)
        if ck == "ToVoid":
            return X("cast", "void", self.discard(sub))
        if ck == "Dependent":
            raise ExtractionBreak("dependent cast")
        raise ExtractionBreak("cast kind %s" % ck)

    def derived_to_base(self, e, sub, ty):
        subty = self.ety(sub)
        is_ptr = subty.kind == "ptr"
        obj = deref(self.rv(sub)) if is_ptr else self.lv(sub)
        dname = (subty.to if is_ptr else subty).name
        tname = (ty.to if ty.kind == "ptr" else ty).name
        path = self.base_path(dname, tname)
        if path is None:
            raise ExtractionBreak("no base path from '%s' to '%s'" % (dname, tname))
        cur = obj
        for canon in path:
            brid = self.ast.Rname[canon]
            if "empty" in self.ast.R[brid]:
                raise ExtractionBreak("cast to empty base '%s'" % canon)
            self.need_record(canon)
            cur = X("mem", cur, "__base_" + self.record_cname(canon), ty=Ty("rec", name=canon))
        self.rule("derived->base")
        return addr(cur) if is_ptr else cur

    def direct_bases(self, canon):
        rid = self.ast.Rname.get(canon)
        node = self.ast.nodes.get(rid) if rid else None
        out = []
        for b in (node or {}).get("bases", []):
            out.append(self._canon_of_base(b))
        return out

    def base_path(self, dname, tname):
        if dname == tname:
            return []
        for b in self.direct_bases(dname):
            p = self.base_path(b, tname)
            if p is not None:
                return [b] + p
        return None

    def base_to_derived(self, e, sub, ty):
        # only valid when base is the first member at offset 0 (checked by record layout: single non-empty base first)
        subty = self.ety(sub)
        if subty.kind == "ptr":
            self.rule("base->derived")
            return X("cast", self.ctype(ty), self.rv(sub), ty=ty)
        self.rule("base->derived")
        return deref(X("cast", self.ctype(Ty("ptr", to=ty)), addr(self.lv(sub)), ty=Ty("ptr", to=ty)))

    def resolve_record_name(self, nm):
        if nm in self.ast.Rname:
            return nm
        c = [n for n in self.ast.Rname if n.endswith("::" + nm)]
        if len(c) == 1:
            return c[0]
        raise ExtractionBreak("cannot resolve record '%s' (%d candidates)" % (nm, len(c)))

    e_ImplicitCastExpr = cast_common
    e_CStyleCastExpr = cast_common
    e_CXXStaticCastExpr = cast_common
    e_CXXReinterpretCastExpr = cast_common
    e_CXXConstCastExpr = cast_common
    e_CXXFunctionalCastExpr = cast_common

    def e_MaterializeTemporaryExpr(self, e):
        sub = e["inner"][0]
        ty = self.ety(e)
        t = self.newtmp(ty)
        self.rule("materialize")
        bt = sub
        while bt.get("kind") in ("ImplicitCastExpr",) and bt.get("castKind") == "NoOp":
            bt = bt["inner"][0]
        if bt.get("kind") == "CXXBindTemporaryExpr" and "dtor" in self.ast.E.get(bt["id"], {}):
            inner = bt["inner"][0]
            s3 = self.skip_wrappers(inner)
            if ty.kind == "rec" and s3.get("kind") in ("CXXConstructExpr", "CXXTemporaryObjectExpr"):
                st = self.construct_into(addr(t), s3)
                r = deref(X("sexpr", st, addr(t), ty=Ty("ptr", to=ty)))
            else:
                r = deref(X("comma", X("assign", "=", t, self.rv(inner)), addr(t), ty=Ty("ptr", to=self.lower(ty))))
            self.register_temp_dtor(t, self.ast.E[bt["id"]]["dtor"], ty)
            return r
        s2 = self.skip_wrappers(sub)
        if ty.kind == "rec" and s2.get("kind") in ("CXXConstructExpr", "CXXTemporaryObjectExpr"):
            st = self.construct_into(addr(t), s2)
            return deref(X("sexpr", st, addr(t), ty=Ty("ptr", to=ty)))
        return deref(X("comma", X("assign", "=", t, self.rv(sub)), addr(t), ty=Ty("ptr", to=self.lower(ty))))

    # construction as prvalue
    def e_CXXConstructExpr(self, e):
        ty = self.ety(e)
        e2 = self.skip_wrappers(e)
        if e2 is not e and e2.get("kind") not in ("CXXConstructExpr", "CXXTemporaryObjectExpr"):
            return self.rv(e2)
        e = e2
        einfo = self.ast.E[e["id"]]
        cinfo = self.ast.finfo(einfo["ctor"])
        args = e.get("inner", [])
        if "trivial" in cinfo and ("copyctor" in cinfo or "movector" in cinfo) and len(args) == 1:
            self.rule("trivial-copy")
            return self.lv(args[0])
        t = X("var", "__r", ty=ty)
        st = [X("decl", self.lower(ty), "__r", None)] + self.construct_into(addr(t), e)
        self.rule("ctor-prvalue")
        return X("sexpr", st, t, ty=ty)

    e_CXXTemporaryObjectExpr = e_CXXConstructExpr

    def e_InitListExpr(self, e):
        ty = self.ety(e)
        if ty.kind in ("rec", "arr"):
            t = X("var", "__r", ty=ty)
            st = [X("decl", self.lower(ty), "__r", None)] + self.initlist_into(t, ty, e)
            return X("sexpr", st, t, ty=ty)
        inner = e.get("inner", [])
        if len(inner) == 1:
            return self.rv(inner[0])
        if not inner:
            return X("cast", self.ctype(ty), X("lit", "0"), ty=ty)
        raise ExtractionBreak("scalar init list")

    # lambdas ------------------------------------------------------------
    def e_LambdaExpr(self, e):
        """closure object: a struct with one field per capture (by-reference captures hold a pointer)"""
        info = self.ast.E[e["id"]]
        crid = info["closure"]
        callop = info["callop"]
        rinfo = self.ast.R.get(crid)
        if rinfo is None:
            raise ExtractionBreak("lambda closure record unknown")
        canon = rinfo["name"]
        inner = e.get("inner", [])
        cls = inner[0]
        fields = [c for c in cls.get("inner", []) if c.get("kind") == "FieldDecl"]
        inits = [c for c in inner[1:] if c.get("kind") != "CompoundStmt"]
        if len(inits) != len(fields):
            raise ExtractionBreak("lambda: %d captures but %d initialisers" % (len(fields), len(inits)))
        # name the capture fields and remember which variable each one captures
        self.lambda_info = getattr(self, "lambda_info", {})
        caps = []
        for i, (fd, init) in enumerate(zip(fields, inits)):
            fname = "__cap%d" % i
            fty = parse_type(self.ast.D[fd["id"]]["type"])
            tgt = init
            while tgt.get("kind") in ("ImplicitCastExpr", "ParenExpr", "CXXConstructExpr", "MaterializeTemporaryExpr", "ExprWithCleanups") and tgt.get("inner"):
                if tgt["kind"] == "CXXConstructExpr" and len(tgt["inner"]) != 1:
                    break
                tgt = tgt["inner"][0]
            var = tgt["referencedDecl"]["id"] if tgt.get("kind") == "DeclRefExpr" else ("this" if tgt.get("kind") == "CXXThisExpr" else None)
            caps.append((fname, fty, var, fd["id"]))
        self.lambda_info[crid] = caps
        self.lambda_fields = getattr(self, "lambda_fields", {})
        self.lambda_fields[canon] = [(fn, ft) for (fn, ft, _, _) in caps]
        self.lambda_by_callop = getattr(self, "lambda_by_callop", {})
        self.lambda_by_callop[callop] = caps
        cn = self.need_record(canon)
        ty = Ty("rec", name=canon)
        r = X("var", "__lam", ty=ty)
        st = [X("decl", ty, "__lam", None)]
        for (fname, fty, var, _), init in zip(caps, inits):
            tgtf = X("mem", r, fname, ty=self.lower(fty))
            if fty.kind == "ref":
                st.append(X("expr", X("assign", "=", tgtf, self.bind_ref(init))))
            else:
                st += self.init_object(tgtf, fty, init)
        self.rule("lambda->closure struct")
        return X("sexpr", st, r, ty=ty)

    # calls --------------------------------------------------------------
    def callee_decl(self, ce):
        """function decl id referenced by call expression's callee"""
        c = ce
        while c.get("kind") in ("ImplicitCastExpr", "ParenExpr"):
            c = c["inner"][0]
        if c.get("kind") == "DeclRefExpr":
            return c["referencedDecl"]["id"], c["referencedDecl"]["kind"]
        if c.get("kind") == "MemberExpr":
            return c["referencedMemberDecl"], "member"
        return None, None

    def std_model_for(self, fid):
        return None

    def request_callee(self, fid):
        return self.request(fid)

    def call_args(self, fid, args, skip_params=0):
        """translate args against the callee's parameter types"""
        info = self.ast.finfo(fid)
        _, ps = fn_ret_type(info["type"])
        out = []
        for i, a in enumerate(args):
            if i < len(ps) and ps[i] != "...":
                pt = parse_type(ps[i])
            else:
                pt = None
            out.append(self.arg(a, pt))
        return out

    def arg(self, a, pt):
        if pt is not None and pt.kind == "ref":
            return self.bind_ref(a)
        if pt is not None and pt.kind == "rec" and self.is_glvalue(a):
            return self.lv(a)
        return self.rv(a)

    def finish_call(self, fid, call, e):
        """wrap a call's result according to the callee's return type"""
        info = self.ast.finfo(fid)
        rets, _ = fn_ret_type(info["type"])
        rt = parse_type(rets)
        self.after_call(fid)
        if rt.kind == "ref":
            call.ty = self.lower(rt)
            return deref(self.wrap_call(fid, call))
        call.ty = rt
        return self.wrap_call(fid, call)

    def after_call(self, fid):
        pass

    def e_CallExpr(self, e):
        inner = e["inner"]
        fid, k = self.callee_decl(inner[0])
        if fid is None:
            return self.indirect_call(e)
        m = self.intercept_call(fid, e, inner[1:], None)
        if m is not None:
            return m
        args = self.call_args(fid, inner[1:])
        fn = self.request_callee(fid)
        self.cur.calls[fn] = True
        return self.finish_call(fid, X("call", fn, args), e)

    def indirect_call(self, e):
        raise ExtractionBreak("function %s: indirect call" % self.cur.cname)

    def intercept_call(self, fid, e, args, obj):
        return None

    def e_CXXMemberCallExpr(self, e):
        inner = e["inner"]
        me = inner[0]
        while me.get("kind") == "ParenExpr":
            me = me["inner"][0]
        if me.get("kind") != "MemberExpr":
            raise ExtractionBreak("member call through %s" % me.get("kind"))
        fid = me["referencedMemberDecl"]
        objn = me["inner"][0]
        m = self.intercept_call(fid, e, inner[1:], (objn, me.get("isArrow")))
        if m is not None:
            return m
        info = self.ast.finfo(fid)
        if "virtual" in info and not self.devirtualize_ok(fid, objn, me):
            return self.virtual_call(fid, e, objn, me, inner[1:])
        if "trivial" in info and ("copyassign" in info or "moveassign" in info):
            obj = deref(self.rv(objn)) if me.get("isArrow") else self.lv(objn)
            self.rule("trivial-assign")
            return X("assign", "=", obj, self.lv(inner[1]), ty=self.ety(e))
        fn = self.request_callee(fid)
        self.cur.calls[fn] = True
        objp = self.rv(objn) if me.get("isArrow") else addr(self.lv(objn))
        args = [objp] + self.call_args(fid, inner[1:])
        return self.finish_call(fid, X("call", fn, args), e)

    def devirtualize_ok(self, fid, objn, me):
        """virtual call resolved statically: the method's class is declared final-in-this-universe by the unit
        (opts virtual_final: no overrider of it exists in the driver TU's closed universe)"""
        info = self.ast.finfo(fid)
        prid = self.ast.Rcanon.get(info.get("parent"))
        if prid is None:
            return False
        name = self.ast.R[prid]["name"]
        for pat in self.opts.get("virtual_final", ()):
            if pat in name:
                self.rule("devirtualized(closed universe)")
                return True
        return False

    def virtual_call(self, fid, e, objn, me, args):
        raise ExtractionBreak("function %s: virtual call" % self.cur.cname)

    def e_CXXOperatorCallExpr(self, e):
        inner = e["inner"]
        fid, k = self.callee_decl(inner[0])
        if fid is None:
            raise ExtractionBreak("operator call without decl")
        info = self.ast.finfo(fid)
        node = self.ast.nodes.get(self.ast.D.get(fid, {}).get("def", fid)) or self.ast.nodes.get(fid) or {}
        is_member = "parent" in info and "static" not in info
        args = inner[1:]
        if is_member:
            m = self.intercept_call(fid, e, args[1:], (args[0], False))
            if m is not None:
                return m
            if "trivial" in info and ("copyassign" in info or "moveassign" in info):
                self.rule("trivial-assign")
                return X("assign", "=", self.lv(args[0]), self.lv(args[1]), ty=self.ety(e))
            fn = self.request_callee(fid)
            self.cur.calls[fn] = True
            cargs = [addr(self.lv(args[0]))] + self.call_args(fid, args[1:])
            return self.finish_call(fid, X("call", fn, cargs), e)
        m = self.intercept_call(fid, e, args, None)
        if m is not None:
            return m
        fn = self.request_callee(fid)
        self.cur.calls[fn] = True
        return self.finish_call(fid, X("call", fn, self.call_args(fid, args)), e)

    # ------------------------------------------------------------ printing
    def pr(self, x):
        k = x.k
        a = x.a
        if k == "lit":
            v = a[0]
            return "(%s)" % v if v.startswith("-") else v
        if k == "var":
            return a[0]
        if k == "raw":
            return a[0]
        if k == "un":
            return "(%s%s)" % (a[0], self.pr(a[1]))
        if k == "bin":
            return "(%s %s %s)" % (self.pr(a[1]), a[0], self.pr(a[2]))
        if k == "cast":
            return "((%s)%s)" % (a[0], self.pr(a[1]))
        if k == "call":
            return "%s(%s)" % (a[0], ", ".join(self.pr(y) for y in a[1]))
        if k == "callx":
            call, fname, jump, zero = a
            inner = self.pr(call)
            if not self.may_throw_fn(fname):
                return inner
            ty = call.ty
            if ty is None or (ty.kind == "builtin" and ty.name == "void"):
                return "({ %s; if (__verif_exc) { %s } })" % (inner, jump)
            return "({ %s = %s; if (__verif_exc) { %s } __c; })" % (self.cdecl(ty, "__c"), inner, jump)
        if k == "icall":
            return "(%s)(%s)" % (self.pr(a[0]), ", ".join(self.pr(y) for y in a[1]))
        if k == "mem":
            b = a[0]
            if b.k == "deref":
                return "%s->%s" % (self.pr_post(b.a[0]), a[1])
            return "%s.%s" % (self.pr_post(b), a[1])
        if k == "deref":
            return "(*%s)" % self.pr(a[0])
        if k == "addr":
            return "(&%s)" % self.pr(a[0])
        if k == "index":
            return "%s[%s]" % (self.pr_post(a[0]), self.pr(a[1]))
        if k == "cond":
            return "(%s ? %s : %s)" % (self.pr(a[0]), self.pr(a[1]), self.pr(a[2]))
        if k == "assign":
            return "(%s %s %s)" % (self.pr(a[1]), a[0], self.pr(a[2]))
        if k == "incdec":
            return "(%s%s)" % (a[0], self.pr(a[2])) if a[1] else "(%s%s)" % (self.pr(a[2]), a[0])
        if k == "comma":
            return "(%s, %s)" % (self.pr(a[0]), self.pr(a[1]))
        if k == "sexpr":
            return "({ %s %s; })" % (" ".join(self.prs(s, 0).strip() for s in a[0]), self.pr(a[1]))
        if k == "sizeof":
            return "sizeof(%s)" % a[0]
        raise ExtractionBreak("print expr " + k)

    def may_throw_fn(self, fname):
        return False

    def pr_post(self, x):
        s = self.pr(x)
        if x.k in ("var", "mem", "index", "call", "callx") or (s.startswith("(") and s.endswith(")")):
            return s
        return "(" + s + ")"

    def prs(self, s, ind, loopann=None):
        sp = "  " * ind
        k, a = s.k, s.a
        if k == "decl":
            d = self.cdecl(a[0], a[1])
            if a[2] is not None:
                return "%s%s = %s;\n" % (sp, d, self.pr(a[2]))
            return "%s%s;\n" % (sp, d)
        if k == "expr":
            return "%s%s;\n" % (sp, self.pr(a[0]))
        if k == "raw":
            return "%s%s\n" % (sp, a[0])
        if k == "return":
            return "%sreturn%s;\n" % (sp, (" " + self.pr(a[0])) if a[0] is not None else "")
        if k == "block":
            return "%s{\n%s%s}\n" % (sp, "".join(self.prs(t, ind + 1, loopann) for t in a[0]), sp)
        if k == "if":
            r = "%sif (%s)\n%s" % (sp, self.pr(a[0]), self.prblock(a[1], ind, loopann))
            if a[2] is not None:
                r += "%selse\n%s" % (sp, self.prblock(a[2], ind, loopann))
            return r
        if k == "for":
            ann = self.loop_annot(a[4], loopann, sp)
            return "%sfor (; %s; %s)\n%s%s" % (sp, self.pr(a[1]) if a[1] is not None else "", self.pr(a[2]) if a[2] is not None else "", ann, self.prblock(a[3], ind, loopann))
        if k == "while":
            ann = self.loop_annot(a[2], loopann, sp)
            return "%swhile (%s)\n%s%s" % (sp, self.pr(a[0]), ann, self.prblock(a[1], ind, loopann))
        if k == "do":
            ann = self.loop_annot(a[2], loopann, sp)
            return "%sdo\n%s%s%swhile (%s);\n" % (sp, ann, self.prblock(a[1], ind, loopann), sp, self.pr(a[0]))
        if k == "break":
            return sp + "break;\n"
        if k == "continue":
            return sp + "continue;\n"
        if k == "switch":
            return "%sswitch (%s)\n%s" % (sp, self.pr(a[0]), self.prblock(a[1], ind, loopann))
        if k == "case":
            return "%s%s:;\n" % (sp, ("case " + self.pr(a[0])) if a[0] is not None else "default")
        if k == "label":
            return "%s%s:;\n" % (sp, a[0])
        if k == "goto":
            return "%sgoto %s;\n" % (sp, a[0])
        raise ExtractionBreak("print stmt " + k)

    def loop_annot(self, lid, loopann, sp):
        if not loopann or lid not in loopann:
            return ""
        self.loop_used.add(lid)
        return "".join("%s  %s\n" % (sp, l) for l in loopann[lid])

    def prblock(self, stmts, ind, loopann):
        if len(stmts) == 1 and stmts[0].k == "block":
            return self.prs(stmts[0], ind, loopann)
        sp = "  " * ind
        return "%s{\n%s%s}\n" % (sp, "".join(self.prs(t, ind + 1, loopann) for t in stmts), sp)

    def signature(self, f, name=None):
        ps = ", ".join(self.cdecl(t, n) for (n, t) in f.params) or "void"
        return "%s(%s)" % (self.cdecl(f.ret, name or f.cname), ps)

    def function_text(self, f, contract="", loopann=None, static=False, ghost_entry=()):
        self.loop_used = set()
        if f.body is None:
            return "%s\n%s;\n" % (self.signature(f), contract)
        body = "".join("  %s /* ghost: snapshot at function entry */\n" % g for g in ghost_entry)
        body += "".join(self.prs(s, 1, loopann) for s in f.body)
        if loopann:
            missing = set(loopann) - self.loop_used
            if missing:
                raise ExtractionBreak("function %s: loop contract for loop(s) %s but function has %d loops" % (f.cname, sorted(missing), f.loops))
        head = ("static inline " if static else "") + self.signature(f)
        return "%s\n%s{\n%s}\n" % (head, contract, body)

    def records_text(self):
        out = []
        for cn, fields in self.rec_defs.items():
            if fields is None:
                continue
            out.append("typedef struct %s %s;" % (cn, cn))
        for cn, fields in self.rec_defs.items():
            if fields is None:
                continue
            out.append("struct %s { %s };" % (cn, " ".join(fields)))
        return "\n".join(out) + "\n"
