// astx: clang plugin used by /verif. For every top-level declaration whose
// (expansion) file lies under one of the given path prefixes it writes clang's
// own JSON dump (ADOF_JSON) to <out>.json, and for the whole translation unit
// a side table <out>.tab with facts the JSON dump lacks: canonical types of
// expressions and value declarations, the constructor a CXXConstructExpr
// binds to, destructors of variables/temporaries, record layout (size/align).
// Node ids in both files are the in-process pointers, so they match.
#include "clang/AST/AST.h"
#include "clang/AST/ASTConsumer.h"
#include "clang/AST/RecordLayout.h"
#include "clang/AST/RecursiveASTVisitor.h"
#include "clang/Frontend/CompilerInstance.h"
#include "clang/Frontend/FrontendPluginRegistry.h"
#include "llvm/Support/raw_ostream.h"
using namespace clang;
namespace {
class V : public RecursiveASTVisitor<V> {
 public:
  ASTContext &C;
  llvm::raw_ostream &O;
  PrintingPolicy PP;
  V(ASTContext &C, llvm::raw_ostream &O) : C(C), O(O), PP(C.getLangOpts())
  {
    PP.SuppressTagKeyword = true;
    PP.Bool = true;
  }
  bool shouldVisitTemplateInstantiations() const { return true; }
  bool shouldVisitImplicitCode() const { return true; }
  std::string ct(QualType T)
  {
    if (T.isNull()) return "?";
    return T.getCanonicalType().getAsString(PP);
  }
  bool VisitExpr(Expr *E)
  {
    if (E->isTypeDependent() || E->isValueDependent()) return true;
    O << "E\t" << (const void *)E << "\t" << ct(E->getType());
    if (auto *CE = dyn_cast<CXXConstructExpr>(E))
      O << "\tctor=" << (const void *)CE->getConstructor();
    if (auto *BT = dyn_cast<CXXBindTemporaryExpr>(E))
      if (BT->getTemporary() && BT->getTemporary()->getDestructor())
        O << "\tdtor=" << (const void *)BT->getTemporary()->getDestructor();
    if (auto *NE = dyn_cast<CXXNewExpr>(E)) {
      O << "\talloc=" << ct(NE->getAllocatedType());
      if (NE->getOperatorNew()) O << "\topnew=" << (const void *)NE->getOperatorNew();
    }
    if (auto *DE = dyn_cast<CXXDeleteExpr>(E)) {
      O << "\tdestroyed=" << ct(DE->getDestroyedType());
      if (!DE->getDestroyedType().isNull())
        if (auto *RD = DE->getDestroyedType()->getAsCXXRecordDecl())
          if (RD->hasDefinition() && RD->getDestructor())
            O << "\tdtor=" << (const void *)RD->getDestructor();
    }
    if (auto *DA = dyn_cast<CXXDefaultArgExpr>(E))
      O << "\tparam=" << (const void *)DA->getParam() << "\tdefexpr=" << (const void *)DA->getExpr();
    if (auto *DI = dyn_cast<CXXDefaultInitExpr>(E))
      O << "\tfield=" << (const void *)DI->getField() << "\tdefexpr=" << (const void *)DI->getExpr();
    if (auto *SE = dyn_cast<UnaryExprOrTypeTraitExpr>(E)) {
      Expr::EvalResult R;
      if (SE->EvaluateAsInt(R, C)) O << "\tvalue=" << llvm::toString(R.Val.getInt(), 10);
    }
    if (auto *LE = dyn_cast<LambdaExpr>(E))
      O << "\tclosure=" << (const void *)LE->getLambdaClass() << "\tcallop=" << (const void *)LE->getCallOperator();
    O << "\n";
    return true;
  }
  bool VisitValueDecl(ValueDecl *D)
  {
    if (D->getType().isNull() || D->getType()->isDependentType()) return true;
    O << "D\t" << (const void *)D << "\t" << ct(D->getType());
    if (auto *VD = dyn_cast<VarDecl>(D)) {
      if (auto *RD = VD->getType().getCanonicalType().getNonReferenceType()->getBaseElementTypeUnsafe()->getAsCXXRecordDecl())
        if (!VD->getType()->isReferenceType() && RD->hasDefinition() && RD->hasNonTrivialDestructor() && RD->getDestructor())
          O << "\tdtor=" << (const void *)RD->getDestructor();
      if (!VD->isInvalidDecl() && VD->getType()->isIntegralOrEnumerationType() && VD->getType().isConstQualified()) {
        const VarDecl *Def = nullptr;
        const Expr *Init = VD->getAnyInitializer(Def);
        if (Init && Def && !Init->isValueDependent() && !Def->isInvalidDecl())
          if (const APValue *V = Def->evaluateValue())
            if (V->isInt()) O << "\tcval=" << llvm::toString(V->getInt(), 10);
      }
      if (VD->isStaticLocal()) O << "\tstaticlocal=1";
      if (VD->hasGlobalStorage()) O << "\tglobal=1";
    }
    if (auto *FD = dyn_cast<FunctionDecl>(D)) {
      if (FD->isTrivial()) O << "\ttrivial=1";
      if (FD->isDefaulted()) O << "\tdefaulted=1";
      if (FD->isDeleted()) O << "\tdeleted=1";
      if (FD->doesThisDeclarationHaveABody()) O << "\tbody=1";
      if (auto *Def = FD->getDefinition()) O << "\tdef=" << (const void *)Def;
      O << "\tqname=" << FD->getQualifiedNameAsString();
      if (auto *MD = dyn_cast<CXXMethodDecl>(FD)) {
        O << "\tparent=" << (const void *)MD->getParent()->getCanonicalDecl();
        if (MD->isVirtual()) O << "\tvirtual=1";
        if (MD->isStatic()) O << "\tstatic=1";
        if (MD->isConst()) O << "\tconstm=1";
        if (MD->isCopyAssignmentOperator()) O << "\tcopyassign=1";
        if (MD->isMoveAssignmentOperator()) O << "\tmoveassign=1";
      }
      if (auto *CD = dyn_cast<CXXConstructorDecl>(FD)) {
        if (CD->isCopyConstructor()) O << "\tcopyctor=1";
        if (CD->isMoveConstructor()) O << "\tmovector=1";
        if (CD->isDefaultConstructor()) O << "\tdefctor=1";
      }
      if (auto *P = FD->getTemplateInstantiationPattern()) O << "\tpattern=" << (const void *)P;
      auto &SM = C.getSourceManager();
      PresumedLoc PL = SM.getPresumedLoc(SM.getExpansionLoc(FD->getLocation()));
      if (PL.isValid()) O << "\tfile=" << PL.getFilename() << "\tline=" << PL.getLine();
    }
    if (auto *FL = dyn_cast<FieldDecl>(D)) {
      if (!FL->getParent()->isDependentType() && FL->getParent()->isCompleteDefinition() && !FL->getParent()->isInvalidDecl() && !FL->isBitField())
        O << "\toffset=" << C.getFieldOffset(FL) / 8;
    }
    O << "\n";
    return true;
  }
  bool VisitCXXRecordDecl(CXXRecordDecl *RD)
  {
    if (!RD->isCompleteDefinition() || RD->isDependentType() || RD->isInvalidDecl()) return true;
    if (RD != RD->getDefinition()) return true;
    QualType T = C.getRecordType(RD);
    O << "R\t" << (const void *)RD << "\t" << ct(T);
    O << "\tcanon=" << (const void *)RD->getCanonicalDecl();
    O << "\tsize=" << C.getTypeSizeInChars(T).getQuantity();
    O << "\talign=" << C.getTypeAlignInChars(T).getQuantity();
    if (RD->isTriviallyCopyable()) O << "\ttrivcopy=1";
    if (RD->hasNonTrivialDestructor()) O << "\tntdtor=1";
    if (RD->getDestructor()) O << "\tdtor=" << (const void *)RD->getDestructor();
    if (RD->isEmpty()) O << "\tempty=1";
    if (RD->isPolymorphic()) O << "\tpoly=1";
    if (RD->isLambda()) O << "\tlambda=1";
    if (RD->isUnion()) O << "\tunion=1";
    O << "\n";
    return true;
  }
  bool VisitTypedefNameDecl(TypedefNameDecl *D)
  {
    auto *DC = D->getDeclContext();
    if (!(isa<NamespaceDecl>(DC) || isa<TranslationUnitDecl>(DC))) return true;
    QualType U = D->getUnderlyingType();
    if (U.isNull() || U->isDependentType()) return true;
    O << "T\t" << (const void *)D << "\t" << ct(U) << "\tqname=" << D->getQualifiedNameAsString() << "\n";
    return true;
  }
  bool VisitEnumConstantDecl(EnumConstantDecl *D)
  {
    O << "C\t" << (const void *)D << "\t" << llvm::toString(D->getInitVal(), 10) << "\n";
    return true;
  }
};
class Cons : public ASTConsumer {
  std::string out;
  std::vector<std::string> prefixes;

 public:
  Cons(std::string o, std::vector<std::string> p) : out(o), prefixes(p) {}
  void HandleTranslationUnit(ASTContext &C) override
  {
    std::error_code ec;
    {
      llvm::raw_fd_ostream O(out + ".tab", ec);
      V v(C, O);
      v.TraverseDecl(C.getTranslationUnitDecl());
    }
    llvm::raw_fd_ostream J(out + ".json", ec);
    auto &SM = C.getSourceManager();
    for (Decl *D : C.getTranslationUnitDecl()->decls()) {
      PresumedLoc PL = SM.getPresumedLoc(SM.getExpansionLoc(D->getLocation()));
      if (!PL.isValid()) continue;
      std::string fn = PL.getFilename();
      bool take = false;
      for (auto &p : prefixes)
        if (fn.compare(0, p.size(), p) == 0) take = true;
      if (!take) continue;
      D->dump(J, false, ADOF_JSON);
      J << "\n";
    }
    // implicit instantiations of a partial specialization that is written in a selected file while its primary template is
    // not (std::less<vec_t<T,N>> in vec.h): clang lists them under the primary template, which the loop above skips
    struct S : public RecursiveASTVisitor<S> {
      std::vector<ClassTemplateSpecializationDecl *> found;
      bool shouldVisitTemplateInstantiations() const { return true; }
      bool VisitClassTemplateSpecializationDecl(ClassTemplateSpecializationDecl *D)
      {
        if (!isa<ClassTemplatePartialSpecializationDecl>(D) && D->getSpecializationKind() == TSK_ImplicitInstantiation) found.push_back(D);
        return true;
      }
    } sv;
    sv.TraverseDecl(C.getTranslationUnitDecl());
    auto selected = [&](SourceLocation L) {
      PresumedLoc PL = SM.getPresumedLoc(SM.getExpansionLoc(L));
      if (!PL.isValid()) return false;
      std::string fn = PL.getFilename();
      for (auto &p : prefixes)
        if (fn.compare(0, p.size(), p) == 0) return true;
      return false;
    };
    for (auto *D : sv.found) {
      auto P = D->getSpecializedTemplateOrPartial();
      auto *PS = P.dyn_cast<ClassTemplatePartialSpecializationDecl *>();
      if (!PS || !selected(PS->getLocation())) continue;
      if (selected(D->getSpecializedTemplate()->getLocation())) continue;   // already under a dumped primary template
      D->dump(J, false, ADOF_JSON);
      J << "\n";
    }
  }
};
class Act : public PluginASTAction {
  std::string out = "astx";
  std::vector<std::string> prefixes;

 protected:
  std::unique_ptr<ASTConsumer> CreateASTConsumer(CompilerInstance &, llvm::StringRef) override
  {
    return std::make_unique<Cons>(out, prefixes);
  }
  bool ParseArgs(const CompilerInstance &, const std::vector<std::string> &a) override
  {
    for (auto &s : a) {
      if (s.rfind("out=", 0) == 0) out = s.substr(4);
      else if (s.rfind("prefix=", 0) == 0) prefixes.push_back(s.substr(7));
    }
    return true;
  }
  PluginASTAction::ActionType getActionType() override { return ReplaceAction; }
};
}  // namespace
static FrontendPluginRegistry::Add<Act> X("astx", "JSON dump of selected decls + canonical-type side table");
