// Instantiation driver for C19 (observers, time stamps)
#include "rkcommon/utility/Observer.h"
#include "rkcommon/utility/TimeStamp.cpp"
using namespace rkcommon::utility;
namespace verif_use {
TimeStamp ts_ctor_default() { return TimeStamp(); }
TimeStamp ts_ctor_copy(const TimeStamp &o) { return TimeStamp(o); }
TimeStamp &ts_assign(TimeStamp &a, const TimeStamp &b) { return a = b; }
TimeStamp ts_ctor_move(TimeStamp &o) { return TimeStamp(std::move(o)); }
TimeStamp &ts_assign_move(TimeStamp &a, TimeStamp &b) { return a = std::move(b); }
size_t ts_value(const TimeStamp &t) { return (size_t)t; }
void ts_renew(TimeStamp &t) { t.renew(); }
void obs_notify(Observable &o) { o.notifyObservers(); }
bool obr_wasNotified(Observer &o) { return o.wasNotified(); }
}
