// Instantiation driver for C18 (string prefix helpers)
#include "rkcommon/utility/StringManip.h"
namespace verif_use {
std::string s_longestBeginningMatch(const std::string &a, const std::string &b) { return rkcommon::utility::longestBeginningMatch(a, b); }
bool s_beginsWith(const std::string &a, const std::string &b) { return rkcommon::utility::beginsWith(a, b); }
}
