// Instantiation driver for C10 (ParameterizedObject's typed reads / query flag). findParam and the Any operations are named
// here so that the unit can replace them by interface stubs. The .cpp is included so that the native replay links.
#include "rkcommon/utility/ParameterizedObject.cpp"
#include "rkcommon/utility/demangle.cpp"
using namespace rkcommon::utility;
typedef ParameterizedObject::Param Param;
namespace verif_use {
Param *po_findParam(ParameterizedObject &o, const std::string &n, bool add) { return o.findParam(n, add); }
bool any_is_int(const Any &a) { return a.is<int>(); }
bool any_is_float(const Any &a) { return a.is<float>(); }
int &any_get_int(Any &a) { return a.get<int>(); }
float &any_get_float(Any &a) { return a.get<float>(); }
Any &any_assign_int(Any &a, const int &v) { return a = v; }
bool po_hasParam(ParameterizedObject &o, const std::string &n) { return o.hasParam(n); }
int po_getParam_int(ParameterizedObject &o, const std::string &n, int d) { return o.getParam<int>(n, d); }
float po_getParam_float(ParameterizedObject &o, const std::string &n, float d) { return o.getParam<float>(n, d); }
void po_setParam_int(ParameterizedObject &o, const std::string &n, const int &v) { o.setParam<int>(n, v); }
}
