// Instantiation driver for C20 (trace half): TraceRecorder::saveLog
#include "rkcommon/tracing/Tracing.cpp"
using namespace rkcommon::tracing;
namespace verif_use {
void tr_saveLog(TraceRecorder &r, const char *logFile, const char *processName) { r.saveLog(logFile, processName); }
}
