// Instantiation driver for C09 (Optional). `Probe` is a payload type whose special members have no bodies here:
// in the C unit they are stubs that track, in ghost state, whether the storage they are applied to holds a live object.
#include "rkcommon/utility/Optional.h"
using namespace rkcommon::utility;
struct Probe
{
  Probe();
  Probe(const Probe &);
  Probe(Probe &&);
  Probe(int);
  ~Probe();
  Probe &operator=(const Probe &);
  Probe &operator=(Probe &&);
  bool operator==(const Probe &) const;
  int v;
};
typedef Optional<Probe> OptProbe;
typedef Optional<int> OptInt;
namespace verif_use {
// probe operations (named so that the stubs can define them)
Probe probe_ctor_default() { return Probe(); }
Probe probe_ctor_copy(const Probe &o) { return Probe(o); }
Probe probe_ctor_move(Probe &&o) { return Probe(std::move(o)); }
void probe_dtor(Probe &p) { p.~Probe(); }
Probe &probe_assign_copy(Probe &a, const Probe &b) { return a = b; }
Probe &probe_assign_move(Probe &a, Probe &&b) { return a = std::move(b); }
bool probe_eq(const Probe &a, const Probe &b) { return a == b; }
// Optional<Probe>
OptProbe op_ctor_default() { return OptProbe(); }
OptProbe op_ctor_copy(const OptProbe &o) { return OptProbe(o); }
OptProbe op_ctor_move(OptProbe &&o) { return OptProbe(std::move(o)); }
OptProbe op_ctor_value(const Probe &v) { return OptProbe(v); }
void op_dtor(OptProbe &o) { o.~OptProbe(); }
OptProbe &op_assign_copy(OptProbe &a, const OptProbe &b) { return a = b; }
OptProbe &op_assign_move(OptProbe &a, OptProbe &&b) { return a = std::move(b); }
OptProbe &op_assign_value(OptProbe &a, const Probe &v) { return a = v; }
void op_reset(OptProbe &o) { o.reset(); }
Probe &op_emplace(OptProbe &o, const Probe &v) { return o.emplace(v); }
bool op_has_value(const OptProbe &o) { return o.has_value(); }
bool op_bool(const OptProbe &o) { return (bool)o; }
Probe &op_value(OptProbe &o) { return o.value(); }
const Probe &op_value_c(const OptProbe &o) { return o.value(); }
Probe op_value_or(const OptProbe &o, const Probe &d) { return o.value_or(d); }
bool op_eq(const OptProbe &a, const OptProbe &b) { return a == b; }
OptProbe op_make(const Probe &v) { return make_optional<Probe>(v); }
}
