// Instantiation driver for C18 (PseudoURL). PseudoURL.cpp is included so that the bodies are in the TU.
#include "rkcommon/utility/PseudoURL.cpp"
using rkcommon::utility::PseudoURL;
namespace verif_use {
PseudoURL pu_ctor(const std::string &s) { return PseudoURL(s); }
std::string pu_getType(const PseudoURL &u) { return u.getType(); }
std::string pu_getFileName(const PseudoURL &u) { return u.getFileName(); }
std::string pu_getValue(const PseudoURL &u, const std::string &n) { return u.getValue(n); }
bool pu_hasParam(PseudoURL &u, const std::string &n) { return u.hasParam(n); }
}
