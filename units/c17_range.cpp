// Instantiation driver for C17 (Array3D::getValueRange: the value range of a region, against a recording stub of get/size)
#include "rkcommon/array3D/Array3D.h"
using namespace rkcommon;
using namespace rkcommon::math;
using namespace rkcommon::array3D;
typedef Array3D<float> Array3Df;
namespace verif_use {
range1f vr_range(const Array3Df &a, const vec3i &b, const vec3i &e) { return a.getValueRange(b, e); }
range1f vr_all(const Array3Df &a) { return a.getValueRange(); }
}
