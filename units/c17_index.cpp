// Instantiation driver for C17 (index maps, 3-D array adaptors)
#include "rkcommon/utility/multidim_index_sequence.h"
#include "rkcommon/array3D/Array3D.h"
using namespace rkcommon;
using namespace rkcommon::math;
using namespace rkcommon::array3D;
typedef vec_t<size_t, 2> vec2sz;
typedef vec_t<size_t, 3> vec3sz;
typedef multidim_index_iterator<2> index_iterator_2D;
typedef multidim_index_iterator<3> index_iterator_3D;
typedef ActualArray3D<float> ActualArray3Df;
namespace verif_use {
size_t seq2_flatten(const index_sequence_2D &s, const vec2sz &c) { return s.flatten(c); }
size_t seq3_flatten(const index_sequence_3D &s, const vec3sz &c) { return s.flatten(c); }
vec2sz seq2_reshape(const index_sequence_2D &s, size_t i) { return s.reshape(i); }
vec3sz seq3_reshape(const index_sequence_3D &s, size_t i) { return s.reshape(i); }
size_t seq2_total(const index_sequence_2D &s) { return s.total_indices(); }
size_t seq3_total(const index_sequence_3D &s) { return s.total_indices(); }
vec3sz seq3_dimensions(const index_sequence_3D &s) { return s.dimensions(); }
index_sequence_3D seq3_ctor(const vec3sz &d) { return index_sequence_3D(d); }
index_iterator_3D seq3_begin(const index_sequence_3D &s) { return s.begin(); }
index_iterator_3D seq3_end(const index_sequence_3D &s) { return s.end(); }
vec3sz it3_deref(const index_iterator_3D &it) { return *it; }
index_iterator_3D it3_preinc(index_iterator_3D &it) { return ++it; }
index_iterator_3D &it3_postinc(index_iterator_3D &it) { return it++; }
bool it3_eq(const index_iterator_3D &a, const index_iterator_3D &b) { return a == b; }
bool it3_ne(const index_iterator_3D &a, const index_iterator_3D &b) { return a != b; }
void it3_jump_to(index_iterator_3D &it, size_t i) { it.jump_to(i); }
size_t it3_current(const index_iterator_3D &it) { return it.current(); }
size_t a3d_longProduct(const vec3i &dims) { return longProduct(dims); }
size_t a3d_longIndex(const vec3i &idx, const vec3i &dims) { return longIndex(idx, dims); }
vec3i a3d_coordsOf(const size_t idx, const vec3i &dims) { return coordsOf(idx, dims); }
size_t actual_indexOf(const ActualArray3Df &a, const vec3i &pos) { return a.indexOf(pos); }
size_t actual_numElements(const ActualArray3Df &a) { return a.numElements(); }
vec3i actual_size(const ActualArray3Df &a) { return a.size(); }
float actual_get(const ActualArray3Df &a, const vec3i &w) { return a.get(w); }
void actual_set(ActualArray3Df &a, const vec3i &w, const float &t) { a.set(w, t); }
}
