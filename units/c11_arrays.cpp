// Instantiation driver for C11 (array wrappers)
#include "rkcommon/utility/ArrayView.h"
#include "rkcommon/utility/OwnedArray.h"
#include "rkcommon/utility/FixedArray.h"
#include "rkcommon/utility/FixedArrayView.h"
#include "rkcommon/utility/DataView.h"
#include <cstdint>
using namespace rkcommon::utility;
typedef AbstractArray<int> AbstractArrayi;
typedef ArrayView<int> ArrayViewi;
typedef OwnedArray<int> OwnedArrayi;
typedef FixedArray<uint8_t> FixedArrayu8;
typedef FixedArrayView<uint8_t> FixedArrayViewu8;
typedef DataView<int> DataViewi;
typedef std::vector<int> vector_int;
typedef std::vector<uint8_t> vector_u8;
typedef std::array<int, 4> array_int4;
typedef std::shared_ptr<FixedArrayu8> sp_FixedArrayu8;
namespace verif_use {
size_t aa_size(const AbstractArrayi &a) { return a.size(); }
int &aa_index(const AbstractArrayi &a, size_t i) { return a[i]; }
int &aa_at(const AbstractArrayi &a, size_t i) { return a.at(i); }
bool aa_bool(const AbstractArrayi &a) { return (bool)a; }
int *aa_data(const AbstractArrayi &a) { return a.data(); }
int *aa_begin(const AbstractArrayi &a) { return a.begin(); }
int *aa_end(const AbstractArrayi &a) { return a.end(); }
const int *aa_cbegin(const AbstractArrayi &a) { return a.cbegin(); }
const int *aa_cend(const AbstractArrayi &a) { return a.cend(); }
ArrayViewi av_ctor_ptr(int *d, size_t n) { return ArrayViewi(d, n); }
ArrayViewi av_ctor_vec(vector_int &v) { return ArrayViewi(v); }
ArrayViewi av_ctor_arr(array_int4 &v) { return ArrayViewi(v); }
void av_reset(ArrayViewi &a) { a.reset(); }
void av_reset_ptr(ArrayViewi &a, int *d, size_t n) { a.reset(d, n); }
ArrayViewi &av_assign_vec(ArrayViewi &a, vector_int &v) { return a = v; }
ArrayViewi &av_assign_arr(ArrayViewi &a, array_int4 &v) { return a = v; }
OwnedArrayi oa_ctor_ptr(int *d, size_t n) { return OwnedArrayi(d, n); }
OwnedArrayi oa_ctor_vec(vector_int &v) { return OwnedArrayi(v); }
OwnedArrayi oa_ctor_arr(array_int4 &v) { return OwnedArrayi(v); }
OwnedArrayi oa_copy(const OwnedArrayi &o) { return OwnedArrayi(o); }
OwnedArrayi &oa_copy_assign(OwnedArrayi &a, const OwnedArrayi &o) { return a = o; }
OwnedArrayi &oa_assign_vec(OwnedArrayi &a, vector_int &v) { return a = v; }
OwnedArrayi &oa_assign_arr(OwnedArrayi &a, array_int4 &v) { return a = v; }
void oa_reset(OwnedArrayi &a) { a.reset(); }
void oa_reset_ptr(OwnedArrayi &a, int *d, size_t n) { a.reset(d, n); }
void oa_resize(OwnedArrayi &a, size_t n, const int &v) { a.resize(n, v); }
FixedArrayu8 fa_ctor_size(size_t n) { return FixedArrayu8(n); }
FixedArrayu8 fa_ctor_ptr(uint8_t *d, size_t n) { return FixedArrayu8(d, n); }
FixedArrayu8 fa_ctor_vec(vector_u8 &v) { return FixedArrayu8(v); }
FixedArrayu8 fa_copy(const FixedArrayu8 &o) { return FixedArrayu8(o); }
FixedArrayu8 &fa_assign_vec(FixedArrayu8 &a, vector_u8 &v) { return a = v; }
FixedArrayViewu8 fav_ctor(sp_FixedArrayu8 &d, size_t off, size_t n) { return FixedArrayViewu8(d, off, n); }
DataViewi dv_ctor(const void *d, size_t stride) { return DataViewi(d, stride); }
void dv_reset(DataViewi &v, const void *d, size_t stride) { v.reset(d, stride); }
const int &dv_index(const DataViewi &v, size_t i) { return v[i]; }
}
