// Instantiation driver for C19 (the observer registry: registration, removal, both destruction orders)
#include "rkcommon/utility/Observer.h"
#include "rkcommon/utility/TimeStamp.cpp"
#include <new>
using namespace rkcommon::utility;
namespace verif_use {
void obs_register(Observable &o, Observer &n) { o.registerObserver(n); }
void obs_remove(Observable &o, Observer &r) { o.removeObserver(r); }
void obs_dtor(Observable &o) { o.~Observable(); }
void obr_dtor(Observer &x) { x.~Observer(); }
Observer obr_ctor(Observable &o) { return Observer(o); }
}
