// Instantiation driver for C10 (FlatMap<int,int>)
#include "rkcommon/containers/FlatMap.h"
#include <cstddef>
using namespace rkcommon::containers;
typedef FlatMap<int, int> FlatMapii;
typedef std::pair<int, int> pair_ii;
namespace verif_use {
FlatMapii::iterator_t fm_lookup(FlatMapii &m, const int &k) { return m.lookup(k); }
FlatMapii::citerator_t fm_lookup_const(const FlatMapii &m, const int &k) { return m.lookup(k); }
int &fm_at(FlatMapii &m, const int &k) { return m.at(k); }
const int &fm_at_const(const FlatMapii &m, const int &k) { return m.at(k); }
int &fm_index(FlatMapii &m, const int &k) { return m[k]; }
pair_ii &fm_at_index(FlatMapii &m, size_t i) { return m.at_index(i); }
const pair_ii &fm_at_index_const(const FlatMapii &m, size_t i) { return m.at_index(i); }
size_t fm_size(const FlatMapii &m) { return m.size(); }
size_t fm_empty(const FlatMapii &m) { return m.empty(); }
bool fm_contains(const FlatMapii &m, const int &k) { return m.contains(k); }
void fm_erase(FlatMapii &m, const int &k) { m.erase(k); }
void fm_clear(FlatMapii &m) { m.clear(); }
void fm_reserve(FlatMapii &m, size_t n) { m.reserve(n); }
FlatMapii::iterator_t fm_begin(FlatMapii &m) { return m.begin(); }
FlatMapii::iterator_t fm_end(FlatMapii &m) { return m.end(); }
FlatMapii::citerator_t fm_cbegin(const FlatMapii &m) { return m.cbegin(); }
FlatMapii::citerator_t fm_cend(const FlatMapii &m) { return m.cend(); }
FlatMapii::citerator_t fm_begin_const(const FlatMapii &m) { return m.begin(); }
FlatMapii::citerator_t fm_end_const(const FlatMapii &m) { return m.end(); }
}
