// Instantiation driver for C18 (argument list and number formatting helpers of common.cpp). common.cpp is included so
// that the function bodies are in the TU.
#include "rkcommon/common.cpp"
namespace verif_use {
void x_removeArgs(int &ac, const char **&av, int where, int howMany) { rkcommon::removeArgs(ac, av, where, howMany); }
std::string x_prettyDouble(double v) { return rkcommon::prettyDouble(v); }
std::string x_prettyNumber(size_t s) { return rkcommon::prettyNumber(s); }
}
