// Instantiation driver for C14 (aligned allocation). malloc.cpp is included so that alignedMalloc/alignedFree are in the TU
// (built like /repo/_build: -DRKCOMMON_TASKING_TBB).
#include "rkcommon/memory/malloc.cpp"
#include "rkcommon/containers/aligned_allocator.h"
#include <cstdint>
using namespace rkcommon;
typedef containers::aligned_allocator<int, 64> alloc_i;
struct Big { char c[24]; };
typedef containers::aligned_allocator<Big, 64> alloc_big;
namespace verif_use {
void *am_alignedMalloc(size_t size, size_t align) { return memory::alignedMalloc(size, align); }
void am_alignedFree(void *p) { memory::alignedFree(p); }
float *am_alignedMalloc_f32(size_t n, size_t align) { return memory::alignedMalloc<float>(n, align); }
bool am_isAligned(void *p, int a) { return memory::isAligned(p, a); }
size_t am_align_ptr(size_t p, size_t a) { return ALIGN_PTR(p, a); }
int *al_allocate(const alloc_i &a, size_t n) { return a.allocate(n); }
void al_deallocate(const alloc_i &a, int *p, size_t n) { a.deallocate(p, n); }
size_t al_max_size(const alloc_i &a) { return a.max_size(); }
Big *alb_allocate(const alloc_big &a, size_t n) { return a.allocate(n); }
size_t alb_max_size(const alloc_big &a) { return a.max_size(); }
void al_construct(const alloc_i &a, int *p, const int &t) { a.construct(p, t); }
}
