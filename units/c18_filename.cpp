// Instantiation driver for C18 (FileName decomposition). FileName.cpp is included so that the bodies are in the TU.
#include "rkcommon/os/FileName.cpp"
using rkcommon::FileName;
namespace verif_use {
FileName fn_ctor_str(const std::string &s) { return FileName(s); }
FileName fn_ctor_cstr(const char *s) { return FileName(s); }
std::string fn_path(const FileName &f) { return f.path(); }
std::string fn_base(const FileName &f) { return f.base(); }
std::string fn_ext(const FileName &f) { return f.ext(); }
std::string fn_name(const FileName &f) { return f.name(); }
FileName fn_dropExt(const FileName &f) { return f.dropExt(); }
FileName fn_setExt(const FileName &f, const std::string &e) { return f.setExt(e); }
FileName fn_addExt(const FileName &f, const std::string &e) { return f.addExt(e); }
FileName fn_plus(const FileName &f, const FileName &g) { return f + g; }
FileName fn_plus_str(const FileName &f, const std::string &s) { return f + s; }
bool fn_eq(const FileName &a, const FileName &b) { return a == b; }
bool fn_ne(const FileName &a, const FileName &b) { return a != b; }
}
