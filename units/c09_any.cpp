// Instantiation driver for C09 (utility::Any)
#include "rkcommon/utility/Any.h"
#include "rkcommon/utility/demangle.cpp"   // (so that the native replay links; demangle itself is opaque to the extractor)
using rkcommon::utility::Any;
namespace verif_use {
Any any_ctor_default() { return Any(); }
Any any_ctor_int(int v) { return Any(v); }
Any any_ctor_copy(const Any &o) { return Any(o); }
Any &any_assign(Any &a, const Any &b) { return a = b; }
Any &any_assign_int(Any &a, int v) { return a = v; }
bool any_valid(const Any &a) { return a.valid(); }
bool any_eq(const Any &a, const Any &b) { return a == b; }
bool any_ne(const Any &a, const Any &b) { return a != b; }
std::string any_toString(const Any &a) { return a.toString(); }
void any_dtor(Any &a) { a.~Any(); }
}
