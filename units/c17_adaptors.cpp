// Instantiation driver for C17 (Array3D adaptors: which underlying cell they read)
#include "rkcommon/array3D/Array3D.h"
using namespace rkcommon;
using namespace rkcommon::math;
using namespace rkcommon::array3D;
typedef Array3D<float> Array3Df;
typedef Array3D<int> Array3Di;
typedef IndexShiftedArray3D<float> ShiftedArray3Df;
typedef SubBoxArray3D<float> SubBoxArray3Df;
typedef Array3DAccessor<int, float> AccessorArray3Dif;
typedef MultiSliceArray3D<float> MultiSliceArray3Df;
namespace verif_use {
float sh_get(const ShiftedArray3Df &a, const vec3i &w) { return a.get(w); }
vec3i sh_size(const ShiftedArray3Df &a) { return a.size(); }
float sb_get(const SubBoxArray3Df &a, const vec3i &w) { return a.get(w); }
vec3i sb_size(const SubBoxArray3Df &a) { return a.size(); }
float ac_get(const AccessorArray3Dif &a, const vec3i &w) { return a.get(w); }
float ms_get(const MultiSliceArray3Df &a, const vec3i &w) { return a.get(w); }
vec3i ms_size(const MultiSliceArray3Df &a) { return a.size(); }
}
