// Instantiation driver for C01 (parallel loops). Probe callbacks have no bodies: in the C unit they count invocations
// of an arbitrary ghost index.  Compiled once per tasking backend macro.
#include "rkcommon/tasking/parallel_for.h"
#include "rkcommon/tasking/parallel_foreach.h"
using namespace rkcommon::tasking;
struct FnI { void operator()(int i) const; };
struct FnU8 { void operator()(unsigned char i) const; };
struct FnSz { void operator()(size_t i) const; };
struct FnB { void operator()(int b, int e) const; };
struct FnP { void operator()(int &x) const; };
namespace verif_use {
void fni_call(const FnI &f, int i) { f(i); }
void fnu8_call(const FnU8 &f, unsigned char i) { f(i); }
void fnsz_call(const FnSz &f, size_t i) { f(i); }
void fnb_call(const FnB &f, int b, int e) { f(b, e); }
void fnp_call(const FnP &f, int &x) { f(x); }
void pf_serial_for_i32(int n, const FnI &f) { serial_for(n, f); }
void pf_serial_for_u8(unsigned char n, const FnU8 &f) { serial_for(n, f); }
void pf_impl_i32(int n, FnI &f) { detail::parallel_for_impl(n, f); }
void pf_impl_sz(size_t n, FnSz &f) { detail::parallel_for_impl(n, f); }
void pf_parallel_for_i32(int n, FnI &f) { parallel_for(n, f); }
void pf_parallel_for_sz(size_t n, FnSz &f) { parallel_for(n, f); }
void pf_blocks16_i32(int n, FnB &f) { parallel_in_blocks_of<16>(n, f); }
void pf_foreach_ptr(int *b, int *e, FnP &f) { parallel_foreach(b, e, f); }
}
