// Instantiation driver for C12 (cross-thread hand-off containers)
#include "rkcommon/containers/TransactionalBuffer.h"
#include "rkcommon/utility/TransactionalValue.h"
using namespace rkcommon;
typedef containers::TransactionalBuffer<int> TBuffer;
typedef utility::TransactionalValue<int> TValue;
typedef std::vector<int> vector_int;
namespace verif_use {
void tb_push_back(TBuffer &b, const int &v) { b.push_back(v); }
void tb_push_back_move(TBuffer &b, int &&v) { b.push_back(std::move(v)); }
vector_int tb_consume(TBuffer &b) { return b.consume(); }
size_t tb_size(const TBuffer &b) { return b.size(); }
bool tb_empty(const TBuffer &b) { return b.empty(); }
TValue &tv_assign(TValue &t, const int &v) { return t = v; }
bool tv_update(TValue &t) { return t.update(); }
int tv_get(TValue &t) { return t.get(); }
int &tv_ref(TValue &t) { return t.ref(); }
}
