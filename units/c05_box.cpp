// Instantiation driver for C05 (ranges and boxes). Each function in
// namespace verif_use names (by its own name) the rkcommon function its body
// calls; that function is extracted under this name.
#include "rkcommon/math/box.h"
using namespace rkcommon::math;
namespace verif_use {
bool box3i_contains(const box3i &b, const vec3i &p) { return b.contains(p); }
box3i box3i_intersectionOf(const box3i &a, const box3i &b) { return intersectionOf(a, b); }
void box3i_extend(box3i &a, const vec3i &b) { a.extend(b); }
void box3i_extend_box(box3i &a, const box3i &b) { a.extend(b); }
box3i box3i_default() { return box3i(); }
bool box3i_empty(const box3i &b) { return b.empty(); }
bool box3i_disjoint(const box3i &a, const box3i &b) { return disjoint(a, b); }
bool box3i_touchingOrOverlapping(const box3i &a, const box3i &b) { return touchingOrOverlapping(a, b); }
vec3i box3i_clamp(const box3i &a, const vec3i &p) { return a.clamp(p); }
vec3i box3i_size(const box3i &a) { return a.size(); }
}
