// Instantiation driver for C18 (tokenize / split on a delimiter set). PseudoURL.cpp is included so that tokenize's body is in the TU.
#include "rkcommon/utility/PseudoURL.cpp"
#include "rkcommon/utility/StringManip.h"
typedef std::vector<std::string> vector_string;
namespace verif_use {
void t_tokenize(const std::string &s, const char d, vector_string &out) { rkcommon::utility::tokenize(s, d, out); }
vector_string t_split_set(const std::string &s, const std::string &d, const bool keep) { return rkcommon::utility::split(s, d, keep); }
}
namespace verif_use {
vector_string t_split_char(const std::string &s, char d) { return rkcommon::utility::split(s, d); }
std::string t_lowerCase(const std::string &s) { return rkcommon::utility::lowerCase(s); }
std::string t_upperCase(const std::string &s) { return rkcommon::utility::upperCase(s); }
}
