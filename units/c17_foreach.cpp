// Instantiation driver for C17 (array3D::for_each). `Visit` is a probe functor: its call operator is a stub that checks the order of the visits.
#include "rkcommon/array3D/for_each.h"
using namespace rkcommon;
using namespace rkcommon::math;
using namespace rkcommon::array3D;
struct Visit { void operator()(const vec3i &c) const; };
namespace verif_use {
void visit_call(const Visit &v, const vec3i &c) { v(c); }
void fe_range(const vec3i &lo, const vec3i &hi, Visit v) { for_each(lo, hi, v); }
void fe_size(const vec3i &size, Visit v) { for_each(size, v); }
void fe_box(const box3i &b, Visit v) { for_each(b, v); }
}
