// Instantiation driver for C18 (ArgumentList / ArgumentsParser::parseAndRemove)
#include "rkcommon/utility/ArgumentList.h"
using namespace rkcommon::utility;
namespace verif_use {
ArgumentList al_ctor(int ac, const char **av) { return ArgumentList(ac, av); }
std::string al_index(const ArgumentList &a, const int i) { return a[i]; }
int al_size(const ArgumentList &a) { return a.size(); }
bool al_empty(const ArgumentList &a) { return a.empty(); }
void al_remove(ArgumentList &a, int where, int howMany) { a.remove(where, howMany); }
void ap_parseAndRemove(ArgumentsParser &p, ArgumentList &a) { p.parseAndRemove(a); }
}
