// Instantiation driver for C16 (XML reader). XML.cpp is included so that its static functions are in the TU; they are
// named through function pointers (no call needed: the wrappers below only take their address inside an unevaluated use).
#include "rkcommon/xml/XML.cpp"
using namespace rkcommon::xml;
namespace verif_use {
bool x_isWhite(char c) { return isWhite(c); }
void x_expect(char *&s, const char w) { expect(s, w); }
void x_expect2(char *&s, const char w0, const char w1) { expect(s, w0, w1); }
void x_consume(char *&s, const char w) { consume(s, w); }
void x_consume_word(char *&s, const char *word) { consume(s, word); }
void x_consumeComment(char *&s) { consumeComment(s); }
std::string x_makeString(const char *b, const char *e) { return makeString(b, e); }
void x_parseString(char *&s, std::string &v) { parseString(s, v); }
bool x_parseIdentifier(char *&s, std::string &id) { return parseIdentifier(s, id); }
void x_skipWhites(char *&s) { skipWhites(s); }
bool x_parseProp(char *&s, std::string &n, std::string &v) { return parseProp(s, n, v); }
bool x_skipComment(char *&s) { return skipComment(s); }
Node x_parseNode(char *&s) { return parseNode(s); }
bool x_parseHeader(char *&s) { return parseHeader(s); }
void x_parseXML(XMLDoc &doc, char *s) { parseXML(doc, s); }
}
