// Instantiation driver for C10 (ParameterizedObject's parameter list: findParam / removeParam / resetAllParamQueryStatus).
#include "rkcommon/utility/ParameterizedObject.cpp"
#include "rkcommon/utility/demangle.cpp"
using namespace rkcommon::utility;
typedef ParameterizedObject::Param Param;
namespace verif_use {
Param *pl_findParam(ParameterizedObject &o, const std::string &n, bool add) { return o.findParam(n, add); }
void pl_removeParam(ParameterizedObject &o, const std::string &n) { o.removeParam(n); }
void pl_resetAll(ParameterizedObject &o) { o.resetAllParamQueryStatus(); }
}
