// Instantiation driver for C07 (lerp / madd as written: checked with uninterpreted arithmetic)
#include "rkcommon/math/rkmath.h"
using namespace rkcommon::math;
namespace verif_use {
float lerp__f32(float f, const float &a, const float &b) { return lerp(f, a, b); }
float madd__f32(float a, float b, float c) { return madd(a, b, c); }
}
