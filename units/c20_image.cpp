// Instantiation driver for C20 (image writers)
#include "rkcommon/utility/SaveImage.h"
using namespace rkcommon::utility;
using namespace rkcommon::math;
namespace verif_use {
void wi_ppm(const std::string &f, const char *const h, const int x, const int y, const uint32_t *const p) { writeImage<unsigned char, 3, uint32_t, 4, true>(f, h, x, y, p); }
void wi_pgm(const std::string &f, const char *const h, const int x, const int y, const uint32_t *const p) { writeImage<unsigned char, 1, uint32_t, 4, true>(f, h, x, y, p); }
void wi_pfm1(const std::string &f, const char *const h, const int x, const int y, const float *const p) { writeImage<float, 1, float, 1, false>(f, h, x, y, p); }
void wi_pfm3(const std::string &f, const char *const h, const int x, const int y, const vec3f *const p) { writeImage<float, 3, vec3f, 3, false>(f, h, x, y, p); }
void wi_pfm3a(const std::string &f, const char *const h, const int x, const int y, const vec3fa *const p) { writeImage<float, 3, vec3fa, 4, false>(f, h, x, y, p); }
void wi_pfm4(const std::string &f, const char *const h, const int x, const int y, const vec4f *const p) { writeImage<float, 4, vec4f, 4, false>(f, h, x, y, p); }
void w_ppm(const std::string &f, const int x, const int y, const uint32_t *p) { writePPM(f, x, y, p); }
void w_pgm(const std::string &f, const int x, const int y, const uint32_t *p) { writePGM(f, x, y, p); }
void w_pfm1(const std::string &f, const int x, const int y, const float *p) { writePFM<float>(f, x, y, p); }
void w_pfm3(const std::string &f, const int x, const int y, const vec3f *p) { writePFM<vec3f>(f, x, y, p); }
void w_pfm3a(const std::string &f, const int x, const int y, const vec3fa *p) { writePFM<vec3fa>(f, x, y, p); }
void w_pfm4(const std::string &f, const int x, const int y, const vec4f *p) { writePFM<vec4f>(f, x, y, p); }
}
