// Instantiation driver for C15 (stream serialization)
#include "rkcommon/networking/DataStreaming.h"
#include "rkcommon/networking/DataStreaming.cpp"
#include <cstdint>
using namespace rkcommon;
using namespace rkcommon::networking;
using namespace rkcommon::utility;
typedef std::vector<int> vector_int;
typedef std::shared_ptr<ArrayView<uint8_t>> sp_ArrayViewu8;
typedef std::shared_ptr<FixedArray<uint8_t>::View> sp_FixedArrayViewu8;
typedef AbstractArray<int> AbstractArrayi;
typedef AbstractArray<uint8_t> AbstractArrayu8;
typedef OwnedArray<uint8_t> OwnedArrayu8;
typedef FixedArray<uint8_t> FixedArrayu8;
typedef std::shared_ptr<AbstractArrayu8> sp_AbstractArrayu8;
typedef std::shared_ptr<OwnedArrayu8> sp_OwnedArrayu8;
typedef std::shared_ptr<FixedArrayu8> sp_FixedArrayu8;
namespace verif_use {
void br_read(BufferReader &r, void *mem, size_t size) { r.read(mem, size); }
bool br_end(BufferReader &r) { return r.end(); }
sp_ArrayViewu8 br_getView(BufferReader &r, size_t count) { return r.getView<uint8_t>(count); }
void bw_write(BufferWriter &w, const void *mem, size_t size) { w.write(mem, size); }
void wsc_write(WriteSizeCalculator &w, const void *mem, size_t size) { w.write(mem, size); }
void fbw_write(FixedBufferWriter &w, const void *mem, size_t size) { w.write(mem, size); }
void *fbw_reserve(FixedBufferWriter &w, size_t size) { return w.reserve(size); }
size_t fbw_available(const FixedBufferWriter &w) { return w.available(); }
size_t fbw_capacity(const FixedBufferWriter &w) { return w.capacity(); }
sp_FixedArrayViewu8 fbw_getWrittenView(FixedBufferWriter &w) { return w.getWrittenView(); }
WriteStream &ws_put_u64(WriteStream &s, const size_t &v) { return s << v; }
WriteStream &ws_put_i32(WriteStream &s, const int &v) { return s << v; }
ReadStream &rs_get_u64(ReadStream &s, size_t &v) { return s >> v; }
ReadStream &rs_get_i32(ReadStream &s, int &v) { return s >> v; }
WriteStream &ws_put_string(WriteStream &s, const std::string &v) { return s << v; }
ReadStream &rs_get_string(ReadStream &s, std::string &v) { return s >> v; }
WriteStream &ws_put_cstr(WriteStream &s, const char *v) { return s << v; }
WriteStream &ws_put_array(WriteStream &s, const AbstractArrayi &v) { return s << v; }
WriteStream &ws_put_vec(WriteStream &s, const vector_int &v) { return s << v; }
ReadStream &rs_get_vec(ReadStream &s, vector_int &v) { return s >> v; }
}
