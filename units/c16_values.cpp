// Instantiation driver for C16 (leaf-level fidelity of the XML reader: the strings it cuts out of the text)
#include "rkcommon/xml/XML.cpp"
using namespace rkcommon::xml;
namespace verif_use {
bool x_isWhite(char c) { return isWhite(c); }
void x_expect(char *&s, const char w) { expect(s, w); }
void x_expect2(char *&s, const char w0, const char w1) { expect(s, w0, w1); }
void x_consume(char *&s, const char w) { consume(s, w); }
std::string x_makeString(const char *b, const char *e) { return makeString(b, e); }
void x_parseString(char *&s, std::string &v) { parseString(s, v); }
bool x_parseIdentifier(char *&s, std::string &id) { return parseIdentifier(s, id); }
void x_skipWhites(char *&s) { skipWhites(s); }
bool x_parseProp(char *&s, std::string &n, std::string &v) { return parseProp(s, n, v); }
}
