// Instantiation driver for C06 (linear / affine / quaternion algebra), float instantiations.
#include "rkcommon/math/AffineSpace.h"
using namespace rkcommon::math;
namespace verif_use {
float rcp__f32(float x) { return rcp(x); }
float rsqrt__f32(float x) { return rsqrt(x); }
// LinearSpace3f
float l3_det(const linear3f &m) { return m.det(); }
linear3f l3_adjoint(const linear3f &m) { return m.adjoint(); }
linear3f l3_inverse(const linear3f &m) { return m.inverse(); }
linear3f l3_transposed(const linear3f &m) { return m.transposed(); }
vec3f l3_row0(const linear3f &m) { return m.row0(); }
vec3f l3_row1(const linear3f &m) { return m.row1(); }
vec3f l3_row2(const linear3f &m) { return m.row2(); }
linear3f l3_scale(const vec3f &s) { return linear3f::scale(s); }
linear3f l3_rotate(const vec3f &u, const float &r) { return linear3f::rotate(u, r); }
linear3f l3_mul(const linear3f &a, const linear3f &b) { return a * b; }
vec3f l3_mulv(const linear3f &a, const vec3f &b) { return a * b; }
linear3f l3_add(const linear3f &a, const linear3f &b) { return a + b; }
linear3f l3_sub(const linear3f &a, const linear3f &b) { return a - b; }
linear3f l3_smul(const float &a, const linear3f &b) { return a * b; }
linear3f l3_divs(const linear3f &a, const float &b) { return a / b; }
linear3f l3_rcp(const linear3f &a) { return rcp(a); }
vec3f l3_xfmPoint(const linear3f &s, const vec3f &a) { return xfmPoint(s, a); }
vec3f l3_xfmVector(const linear3f &s, const vec3f &a) { return xfmVector(s, a); }
vec3f l3_xfmNormal(const linear3f &s, const vec3f &a) { return xfmNormal(s, a); }
linear3f l3_frame(const vec3f &N) { return frame(N); }
linear3f l3_from_quat(const quaternionf &q) { return linear3f(q); }
linear3f l3_one() { return linear3f(one); }
// LinearSpace2f
float l2_det(const linear2f &m) { return m.det(); }
linear2f l2_adjoint(const linear2f &m) { return m.adjoint(); }
linear2f l2_inverse(const linear2f &m) { return m.inverse(); }
linear2f l2_transposed(const linear2f &m) { return m.transposed(); }
linear2f l2_rotate(const float &r) { return linear2f::rotate(r); }
linear2f l2_scale(const vec2f &s) { return linear2f::scale(s); }
linear2f l2_mul(const linear2f &a, const linear2f &b) { return a * b; }
vec2f l2_mulv(const linear2f &a, const vec2f &b) { return a * b; }
linear2f l2_orthogonal(const linear2f &m) { return m.orthogonal(); }
// AffineSpace3f
affine3f a3_rcp(const affine3f &a) { return rcp(a); }
affine3f a3_mul(const affine3f &a, const affine3f &b) { return a * b; }
vec3f a3_xfmPoint(const affine3f &m, const vec3f &p) { return xfmPoint(m, p); }
vec3f a3_xfmVector(const affine3f &m, const vec3f &v) { return xfmVector(m, v); }
vec3f a3_xfmNormal(const affine3f &m, const vec3f &n) { return xfmNormal(m, n); }
affine3f a3_scale(const vec3f &s) { return affine3f::scale(s); }
affine3f a3_translate(const vec3f &p) { return affine3f::translate(p); }
affine3f a3_rotate(const vec3f &u, const float &r) { return affine3f::rotate(u, r); }
affine3f a3_rotate_about(const vec3f &p, const vec3f &u, const float &r) { return affine3f::rotate(p, u, r); }
affine3f a3_lookat(const vec3f &eye, const vec3f &point, const vec3f &up) { return affine3f::lookat(eye, point, up); }
// Quaternion
quaternionf q_mul(const quaternionf &a, const quaternionf &b) { return a * b; }
quaternionf q_conj(const quaternionf &a) { return conj(a); }
quaternionf q_rcp(const quaternionf &a) { return rcp(a); }
quaternionf q_normalize(const quaternionf &a) { return normalize(a); }
float q_dot(const quaternionf &a, const quaternionf &b) { return dot(a, b); }
quaternionf q_slerp(const float f, const quaternionf &a, const quaternionf &b) { return slerp(f, a, b); }
quaternionf q_neg(const quaternionf &a) { return -a; }
quaternionf q_lerp(const float f, const quaternionf &a, const quaternionf &b) { return lerp(f, a, b); }
vec3f q_mulv(const quaternionf &a, const vec3f &b) { return a * b; }
quaternionf q_from_basis(const vec3f &vx, const vec3f &vy, const vec3f &vz) { return quaternionf(vx, vy, vz); }
quaternionf q_from_ypr(const float &yaw, const float &pitch, const float &roll) { return quaternionf(yaw, pitch, roll); }
quaternionf q_rotate(const vec3f &u, const float &r) { return quaternionf::rotate(u, r); }
}
