// Instantiation driver for C08 (intrusive reference counting). Probe payload classes derive from RefCountedObject.
#include "rkcommon/memory/IntrusivePtr.h"
using namespace rkcommon::memory;
struct Obj : public RefCountedObject { int payload; };
struct Obj2 : public Obj { int more; };
typedef IntrusivePtr<Obj> Handle;
typedef IntrusivePtr<Obj2> Handle2;
namespace verif_use {
void rc_refInc(const RefCountedObject &o) { o.refInc(); }
void rc_refDec(const RefCountedObject &o) { o.refDec(); }
long long rc_useCount(const RefCountedObject &o) { return o.useCount(); }
void h_dtor(Handle &h) { h.~Handle(); }
Handle h_copy(const Handle &in) { return Handle(in); }
Handle h_move(Handle &&in) { return Handle(std::move(in)); }
Handle h_from_raw(Obj *p) { return Handle(p); }
Handle h_from_derived(const Handle2 &in) { return Handle(in); }
Handle &h_assign(Handle &h, const Handle &in) { return h = in; }
Handle &h_assign_move(Handle &h, Handle &&in) { return h = std::move(in); }
Handle &h_assign_raw(Handle &h, Obj *p) { return h = p; }
bool h_bool(const Handle &h) { return (bool)h; }
Obj &h_deref(const Handle &h) { return *h; }
Obj *h_arrow(const Handle &h) { return h.operator->(); }
bool h_eq(const Handle &a, const Handle &b) { return a == b; }
bool h_ne(const Handle &a, const Handle &b) { return a != b; }
}
