// Instantiation driver for C02 (schedule / AsyncTask), sequential core. `Result` is a probe result type (special members are
// stubs tracking liveness), `UserFn` a probe callable.
#include "rkcommon/tasking/AsyncTask.h"
#include "rkcommon/tasking/schedule.h"
#include <new>
using namespace rkcommon::tasking;
struct Result
{
  Result();
  Result(const Result &);
  Result(Result &&);
  ~Result();
  Result &operator=(const Result &);
  Result &operator=(Result &&);
  int v;
};
struct UserFn { Result operator()() const; };
struct VoidFn { void operator()() const; };
typedef AsyncTask<Result> AsyncTaskR;
typedef std::function<Result()> function_R;
#ifdef RKCOMMON_TASKING_INTERNAL
// what an enkiTS worker does with a task set it was handed (set size 1: one partition)
inline void verif_worker_runs(rkcommon::tasking::detail::Task *t) { t->ExecuteRange(enki::TaskSetPartition{0, 1}, 0); }
#endif
namespace verif_use {
Result result_ctor_default() { return Result(); }
Result result_ctor_copy(const Result &o) { return Result(o); }
Result result_ctor_move(Result &&o) { return Result(std::move(o)); }
void result_dtor(Result &r) { r.~Result(); }
Result &result_assign_copy(Result &a, const Result &b) { return a = b; }
Result &result_assign_move(Result &a, Result &&b) { return a = std::move(b); }
Result userfn_call(const UserFn &f) { return f(); }
void voidfn_call(const VoidFn &f) { f(); }
void at_ctor(void *mem, function_R f) { new (mem) AsyncTaskR(f); }
void at_dtor(AsyncTaskR &t) { t.~AsyncTaskR(); }
bool at_finished(const AsyncTaskR &t) { return t.finished(); }
void at_wait(AsyncTaskR &t) { t.wait(); }
Result at_get(AsyncTaskR &t) { return t.get(); }
void sched_schedule(VoidFn f) { schedule(f); }
#ifdef RKCOMMON_TASKING_INTERNAL
void run_task(rkcommon::tasking::detail::Task *t) { verif_worker_runs(t); }
#endif
}
