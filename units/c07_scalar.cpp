// Instantiation driver for C07 (scalar kernels). Compiled twice: default (SIMD) and -DRKCOMMON_NO_SIMD.
#include "rkcommon/math/vec.h"
#include "rkcommon/utility/random.h"
#include <cstdint>
using namespace rkcommon;
using namespace rkcommon::math;
namespace verif_use {
float sign__f32(float x) { return sign(x); }
float rcp__f32(float x) { return rcp(x); }
double rcp__f64(double x) { return rcp(x); }
float rsqrt__f32(float x) { return rsqrt(x); }
float rcp_safe_t__f32(float x) { return rcp_safe_t<float>(x); }
float rcp_safe__f32(float x) { return rcp_safe(x); }
double rcp_safe_t__f64(double x) { return rcp_safe_t<double>(x); }
float clamp__f32(const float &x, const float &lo, const float &hi) { return clamp(x, lo, hi); }
int clamp__i32(const int &x, const int &lo, const int &hi) { return clamp(x, lo, hi); }
float deg2rad__f32(const float &x) { return deg2rad(x); }
float madd__f32(float a, float b, float c) { return madd(a, b, c); }
float lerp__f32(float f, const float &a, const float &b) { return lerp(f, a, b); }
int divRoundUp__i32(int a, int b) { return divRoundUp(a, b); }
uint32_t divRoundUp__u32(uint32_t a, uint32_t b) { return divRoundUp(a, b); }
int64_t divRoundUp__i64(int64_t a, int64_t b) { return divRoundUp(a, b); }
uint32_t cvt_uint32__f32(float f) { return cvt_uint32(f); }
uint32_t cvt_uint32__vec4f(const vec4f &v) { return cvt_uint32(v); }
float linear_to_srgb__f32(float f) { return linear_to_srgb(f); }
vec4f linear_to_srgba__vec4f(const vec4f &c) { return linear_to_srgba(c); }
uint32_t linear_to_srgba8__vec4f(const vec4f &c) { return linear_to_srgba8(c); }
vec3f makeRandomColor__u32(unsigned int i) { return utility::makeRandomColor(i); }
}
