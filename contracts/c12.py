"""C12: cross-thread hand-off containers lose, duplicate and race on nothing (lock discipline + sequential specs)."""
from unit import Unit

MAXN = 1000000


GLOBALS = """
TBuffer *g_obj; TValue *g_tv; int g_s_gi;
unsigned long g_acq, g_n_lin, g_pushed_meanwhile; int g_role; _Bool g_new_lin; int g_q_lin;
"""
STUBS = """
/* Thread-modular interference point (rely of the calling thread).  A public operation that takes the mutex more than once is
 * not one atomic step: between two of its critical sections other threads run.  verif_on_acquire is called by the ghost lock on
 * every acquisition; from the second acquisition of one operation on it applies what the OTHER threads of the documented usage
 * may have done meanwhile.  For the consumer (g_role == 0) those are the producers: any number of elements appended (the block
 * may have been reallocated; the old elements keep their order -- tracked at the ghost index verif_gi).  For a producer
 * (g_role == 1) they are other producers and the consumer: any well-formed buffer.  g_n_lin is the number of elements present at
 * the operation's last acquisition -- the state its effect is specified against (its linearisation point). */
void verif_on_acquire(std_mutex *m)
{
  if (g_tv != 0 && m == &g_tv->mutex) {
    /* TransactionalValue, one producer + one consumer: between two critical sections of update() the producer may have assigned
     * (any value, flag raised); between two of an assignment the consumer may have run update() (flag lowered). */
    if (g_acq > 0) {
      if (g_role == 0) { if (nondet__Bool()) { g_tv->queuedValue = nondet_int(); g_tv->newValue = 1; } }
      else { if (g_tv->newValue && nondet__Bool()) g_tv->newValue = 0; }
    }
    g_acq++; g_new_lin = g_tv->newValue; g_q_lin = g_tv->queuedValue;
    return;
  }
  if (g_obj == 0 || m != &g_obj->bufferMutex) return;
  if (g_acq > 0) {
    unsigned long n0 = g_obj->buffer.n;
    unsigned long n2 = nondet_unsigned_long(); __CPROVER_assume(n2 <= %(M)d && (g_role == 1 || n2 >= n0));
    int *nb = n2 ? (int *)verif_malloc(n2 * sizeof(int)) : 0;
    if (g_role == 0 && verif_gi < n0) nb[verif_gi] = g_obj->buffer.b[verif_gi];
    g_obj->buffer.b = nb; g_obj->buffer.n = n2; g_obj->buffer.cap = n2;
    if (g_role == 0) g_pushed_meanwhile += n2 - n0;
  }
  g_acq++; g_n_lin = g_obj->buffer.n;
}
""" % dict(M=MAXN)


def units():
    U = Unit("c12_transactional", "units/c12_transactional.cpp", stubs=GLOBALS + STUBS,
             opts=dict(tracked_vec=True, on_acquire=True, guarded_by={("TransactionalBuffer", "buffer"): "bufferMutex", ("TransactionalValue", "queuedValue"): "mutex", ("TransactionalValue", "newValue"): "mutex"}))
    U.stub("verif_on_acquire", "ASSUMED rely condition of the documented usage (one consumer, any number of producers): what other threads may do between two critical sections of one operation; never exercised by the current code, whose operations are one critical section each")
    buf = """
  unsigned long in_n = nondet_unsigned_long(), in_cap = nondet_unsigned_long(); __CPROVER_assume(in_n <= in_cap && in_cap <= %d);
  o_@0.buffer.n = in_n; o_@0.buffer.cap = in_cap; o_@0.buffer.b = in_cap ? (int *)verif_malloc(in_cap * sizeof(int)) : 0; o_@0.bufferMutex.g_held = 0;
  verif_gi = nondet_unsigned_long(); verif_gj = verif_hi = verif_hj = verif_gi; if (verif_gi < in_n) g_s_gi = o_@0.buffer.b[verif_gi];
  g_obj = &o_@0; g_tv = 0; g_acq = nondet_unsigned_long(); g_n_lin = 0; g_pushed_meanwhile = nondet_unsigned_long(); g_role = ROLE;
  __CPROVER_assume(g_acq < 4294967296ul && g_pushed_meanwhile < 4294967296ul);
""" % MAXN
    FREE = "$0->bufferMutex.g_held == 0"
    OWN = ("($0->buffer.n <= $0->buffer.cap && $0->buffer.cap <= %d && (($0->buffer.cap == 0 && $0->buffer.b == 0) || ($0->buffer.cap > 0 && __CPROVER_rw_ok($0->buffer.b, $0->buffer.cap * sizeof(int)) && __CPROVER_POINTER_OFFSET($0->buffer.b) == 0)))" % MAXN)
    GH = ["g_obj == $0 && g_tv == 0 && g_acq < 4294967296ul && g_pushed_meanwhile < 4294967296ul", "verif_gj == verif_gi && verif_hi == verif_gi && verif_hj == verif_gi", "IMP(verif_gi < $0->buffer.n, $0->buffer.b[verif_gi] == g_s_gi)"]
    GA = ["g_acq", "g_n_lin", "g_pushed_meanwhile"]
    UNCH = "IMP(OLD(g_acq) == 0, $0->buffer.n == OLD($0->buffer.n) && $0->buffer.b == OLD($0->buffer.b) && $0->buffer.cap == OLD($0->buffer.cap))"
    GROW = "IMP(g_role == 0, $0->buffer.n == OLD($0->buffer.n) + (g_pushed_meanwhile - OLD(g_pushed_meanwhile)) && $0->buffer.n >= OLD($0->buffer.n) && IMP(verif_gi < OLD($0->buffer.n), $0->buffer.b[verif_gi] == g_s_gi))"
    OWN2 = "($0->buffer.n <= $0->buffer.cap && $0->buffer.cap <= %d && (($0->buffer.cap == 0 && $0->buffer.b == 0) || ($0->buffer.cap > 0 && $0->buffer.b == OLD($0->buffer.b) && $0->buffer.cap == OLD($0->buffer.cap)) || ($0->buffer.cap > 0 && __CPROVER_is_fresh($0->buffer.b, $0->buffer.cap * sizeof(int)))))" % MAXN
    ONE = "g_acq >= OLD(g_acq) + 1 && g_acq <= OLD(g_acq) + 1000"
    ONE_LEAF = "g_acq >= OLD(g_acq) + 1 && g_acq <= OLD(g_acq) + 8"
    for nm in ("tb_push_back", "tb_push_back_move"):
        U.fn(nm, pre_call=buf.replace("ROLE", "1"), requires=[FREE, OWN, "g_role == 1"] + GH, assigns=["$0->buffer", "$0->bufferMutex.g_held", "__CPROVER_object_whole($0->buffer.b)"] + GA, frees=["$0->buffer.b"], single=["v"], ensures={
            "push_back_appends_exactly_one_element_to_what_its_critical_section_found": "$0->buffer.n == g_n_lin + 1",
            "the_appended_element_is_the_pushed_value_at_the_end": "$0->buffer.b[$0->buffer.n - 1] == OLD($1[0])",
            "earlier_elements_keep_their_place_and_value": "IMP(OLD(g_acq) == 0 && g_acq == 1 && verif_gi < OLD($0->buffer.n), $0->buffer.b[verif_gi] == g_s_gi)",
            "the_operation_took_the_mutex": ONE, "mutex_released_on_return": FREE})
    U.fn("tb_consume", pre_call=buf.replace("ROLE", "0"), requires=[FREE, OWN, "g_role == 0"] + GH, assigns=["$0->buffer", "$0->bufferMutex.g_held", "__CPROVER_object_whole($0->buffer.b)"] + GA, frees=["$0->buffer.b"], ensures={
        "consume_takes_all_contents_present_at_its_critical_section": "RET.n == g_n_lin",
        "consume_leaves_the_buffer_empty": "$0->buffer.n == 0",
        "no_element_lost_or_duplicated_across_the_batch_boundary": "RET.n + $0->buffer.n == OLD($0->buffer.n) + (g_pushed_meanwhile - OLD(g_pushed_meanwhile))",
        "batch_holds_the_elements_in_push_order": "IMP(verif_gi < OLD($0->buffer.n), verif_gi < RET.n && RET.b[verif_gi] == g_s_gi)",
        "the_operation_took_the_mutex": ONE, "mutex_released_on_return": FREE})
    U.fn("tb_size", pre_call=buf.replace("ROLE", "0"), requires=[FREE, OWN] + GH, assigns=["$0->bufferMutex.g_held", "$0->buffer"] + GA, ensures={"a_read_only_operation_leaves_the_buffer_as_it_found_it": UNCH, "buffer_stays_well_formed": OWN2, "only_appended_elements_may_appear_meanwhile": GROW, "size_reads_under_the_lock": "RET == g_n_lin", "the_operation_took_the_mutex": ONE_LEAF, "mutex_released_on_return": FREE})
    U.fn("tb_empty", pre_call=buf.replace("ROLE", "0"), requires=[FREE, OWN] + GH, assigns=["$0->bufferMutex.g_held", "$0->buffer"] + GA, ensures={"a_read_only_operation_leaves_the_buffer_as_it_found_it": UNCH, "buffer_stays_well_formed": OWN2, "only_appended_elements_may_appear_meanwhile": GROW, "empty_reads_under_the_lock": "RET == (g_n_lin == 0)", "the_operation_took_the_mutex": ONE_LEAF, "mutex_released_on_return": FREE})
    TFREE = "$0->mutex.g_held == 0"
    tv = "\n  g_tv = &o_@0; g_obj = 0; g_acq = nondet_unsigned_long(); g_role = ROLE; __CPROVER_assume(g_acq < 4294967296ul);\n"
    TG = ["g_tv == $0 && g_obj == 0 && g_acq < 4294967296ul"]
    TA = ["g_acq", "g_new_lin", "g_q_lin"]
    U.fn("tv_assign", pre_call=tv.replace("ROLE", "1"), requires=[TFREE, "g_role == 1"] + TG, assigns=["$0->queuedValue", "$0->newValue", "$0->mutex.g_held"] + TA, single=["ot"], ensures={
        "assignment_queues_the_value_and_raises_the_flag": "$0->queuedValue == $1[0] && $0->newValue != 0", "current_value_untouched": "$0->currentValue == OLD($0->currentValue)",
        "the_operation_took_the_mutex": ONE, "mutex_released_on_return": TFREE, "returns_self": "RET == $0"})
    U.fn("tv_update", pre_call=tv.replace("ROLE", "0"), requires=[TFREE, "g_role == 0"] + TG, assigns=["$0->currentValue", "$0->newValue", "$0->queuedValue", "$0->mutex.g_held"] + TA, ensures={
        "update_returns_true_exactly_when_it_installed_a_queued_value": "RET == (g_new_lin != 0)",
        "update_installs_the_queued_value_and_clears_the_flag": "IMP(g_new_lin != 0, $0->currentValue == g_q_lin && $0->newValue == 0)",
        "update_without_pending_value_changes_nothing": "IMP(g_new_lin == 0, $0->currentValue == OLD($0->currentValue) && $0->newValue == 0)",
        "update_leaves_the_queued_slot_alone_unless_it_consumed_it": "IMP(g_new_lin == 0, $0->queuedValue == g_q_lin)",
        "the_operation_took_the_mutex": ONE, "mutex_released_on_return": TFREE})
    U.fn("tv_get", ensures={"get_returns_the_consumer_side_value": "RET == $0->currentValue"})
    U.fn("tv_ref", ensures={"ref_is_the_consumer_side_value": "RET == &$0->currentValue"})
    return [U]


META = dict(
    technique='CBMC 6.11 function contracts (dfcc): sequential specification over a value-tracking vector + ghost lock discipline (every guarded field accessed only while its mutex is held) + thread-modular interference at every re-acquisition of the mutex',
    level="proof",
    level_text="Every member function of TransactionalBuffer<int> and TransactionalValue<int> is extracted with std::mutex/lock_guard as a ghost lock; every read or write of a field declared guarded_by (buffer; queuedValue, newValue) is preceded by the obligation 'the guarding mutex is held' (lock discipline); lock_guard's destructor is placed after the return value has been evaluated. The effect of each operation is specified against the state found at its LAST acquisition of the mutex (ghost g_n_lin / g_new_lin / g_q_lin): the ghost lock calls a unit-supplied interference function on every acquisition, which from the second acquisition of one operation on applies what the other threads of the documented usage may have done in between (consumer: producers appended any number of elements, order of the old ones kept; producer: any well-formed buffer; TransactionalValue: the other side assigned / updated). Proved under that: push_back appends exactly the pushed value at the end and keeps the earlier elements; consume takes all contents present at its critical section, in push order, leaves the buffer empty and conserves the element count across the batch boundary (nothing pushed between two critical sections of one consume is lost or duplicated); size/empty read under the lock and leave the buffer alone; assignment queues + raises the flag; update returns true exactly when it installs the queued value and clears the flag; the mutex is free on return. Element values are tracked at a ghost index (std::vector value-tracking model).",
    level_note="From 'every access to the shared fields happens under the one mutex' + 'each operation's effect is atomic with respect to the state at its linearising critical section, under arbitrary interference between critical sections' the statement's no-loss/no-duplication/order/torn-state clauses and data-race freedom follow for all interleavings by the lock-linearisation argument, which is a trusted meta-theorem here, not a mechanised proof. On the current code every operation is one critical section, so the interference function is never exercised; it exists so that a change splitting an operation into several critical sections is judged against the concurrent property instead of the sequential one. currentValue is consumer-private by the documented usage. A function that acquires a loop the contracts do not know is checked with a bounded unwinding (6) as a fallback: failures inside the bound are reported, anything else is inconclusive.",
    assumptions=["lock discipline + per-operation atomicity under interference => race freedom + linearisability (thread-modular argument, trusted)", "rely conditions of the documented usage (verif_on_acquire)", "std::vector value-tracking model / std::mutex / std::lock_guard models"],
    unverified=["TransactionalValue copy-assignment from another TransactionalValue (does not compile when instantiated)", "progress / 'once the producer has stopped'", "heap-owning payload types (int payload only)"],
)
