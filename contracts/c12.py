"""C12: cross-thread hand-off containers lose, duplicate and race on nothing (lock discipline + sequential specs)."""
from unit import Unit

MAXN = 1000000


def units():
    U = Unit("c12_transactional", "units/c12_transactional.cpp",
             opts=dict(guarded_by={("TransactionalBuffer", "buffer"): "bufferMutex", ("TransactionalValue", "queuedValue"): "mutex", ("TransactionalValue", "newValue"): "mutex"}))
    buf = """
  unsigned long in_n = nondet_unsigned_long(); __CPROVER_assume(in_n <= %d);
  o_@0.buffer.n = in_n; o_@0.buffer.cap = in_n; o_@0.buffer.b = in_n ? (int *)verif_malloc(in_n * sizeof(int)) : 0; o_@0.bufferMutex.g_held = 0;
""" % MAXN
    FREE = "$0->bufferMutex.g_held == 0"
    OWN = "(($0->buffer.n == 0 && $0->buffer.b == 0) || ($0->buffer.n > 0 && $0->buffer.n <= %d && __CPROVER_r_ok($0->buffer.b, $0->buffer.n * sizeof(int))))" % MAXN
    for nm in ("tb_push_back", "tb_push_back_move"):
        U.fn(nm, pre_call=buf, requires=[FREE, OWN], assigns=["$0->buffer", "$0->bufferMutex.g_held"], frees=["$0->buffer.b"], single=["v"], ensures={
            "push_back_appends_exactly_one_element": "$0->buffer.n == OLD($0->buffer.n) + 1", "mutex_released_on_return": FREE})
    U.fn("tb_consume", pre_call=buf, requires=[FREE, OWN], assigns=["$0->buffer", "$0->bufferMutex.g_held"], ensures={
        "consume_hands_over_the_whole_batch": "RET.n == OLD($0->buffer.n) && RET.b == OLD($0->buffer.b)",
        "consume_leaves_the_buffer_empty": "$0->buffer.n == 0 && $0->buffer.b == 0", "mutex_released_on_return": FREE})
    U.fn("tb_size", pre_call=buf, requires=[FREE, OWN], assigns=["$0->bufferMutex.g_held"], ensures={"size_reads_under_the_lock": "RET == $0->buffer.n", "mutex_released_on_return": FREE})
    U.fn("tb_empty", pre_call=buf, requires=[FREE, OWN], assigns=["$0->bufferMutex.g_held"], ensures={"empty_reads_under_the_lock": "RET == ($0->buffer.n == 0)", "mutex_released_on_return": FREE})
    TFREE = "$0->mutex.g_held == 0"
    U.fn("tv_assign", requires=[TFREE], assigns=["$0->queuedValue", "$0->newValue", "$0->mutex.g_held"], single=["ot"], ensures={
        "assignment_queues_the_value_and_raises_the_flag": "$0->queuedValue == $1[0] && $0->newValue != 0", "current_value_untouched": "$0->currentValue == OLD($0->currentValue)",
        "mutex_released_on_return": TFREE, "returns_self": "RET == $0"})
    U.fn("tv_update", requires=[TFREE], assigns=["$0->currentValue", "$0->newValue", "$0->mutex.g_held"], ensures={
        "update_returns_true_exactly_when_it_installed_a_queued_value": "RET == (OLD($0->newValue) != 0)",
        "update_installs_the_queued_value_and_clears_the_flag": "IMP(OLD($0->newValue) != 0, $0->currentValue == OLD($0->queuedValue) && $0->newValue == 0)",
        "update_without_pending_value_changes_nothing": "IMP(OLD($0->newValue) == 0, $0->currentValue == OLD($0->currentValue) && $0->newValue == 0)",
        "mutex_released_on_return": TFREE})
    U.fn("tv_get", ensures={"get_returns_the_consumer_side_value": "RET == $0->currentValue"})
    U.fn("tv_ref", ensures={"ref_is_the_consumer_side_value": "RET == &$0->currentValue"})
    return [U]


META = dict(
    technique='CBMC 6.11 function contracts (dfcc): sequential specification + ghost lock discipline (every guarded field accessed only while its mutex is held)',
    level="proof",
    level_text="Every member function of TransactionalBuffer<int> and TransactionalValue<int> is extracted with std::mutex/lock_guard as a ghost lock and every read or write of a field declared guarded_by (buffer; queuedValue, newValue) preceded by the obligation 'the guarding mutex is held' (lock discipline); lock_guard's destructor is placed after the return value has been evaluated. Under the lock the sequential specs are proved: push_back appends one element, consume hands over the whole batch and leaves the buffer empty, size/empty read under the lock, assignment queues + raises the flag, update returns true exactly when it installs the queued value and clears the flag; the mutex is free on return.",
    level_note="From 'every access to the shared fields happens under the one mutex' + the sequential specs, the statement's no-loss/no-duplication/order/torn-state clauses and data-race freedom follow for all interleavings by the lock-linearisation argument, which is a trusted meta-theorem here, not a proof. currentValue is consumer-private by the documented usage. std::vector is an owner model without element values (push order of elements is not tracked).",
    assumptions=["lock discipline => race freedom + linearisability (thread-modular argument, trusted)", "std::vector / std::mutex / std::lock_guard models"],
    unverified=["element order/values inside the batch", "TransactionalValue copy-assignment from another TransactionalValue (does not compile when instantiated)", "progress / 'once the producer has stopped'"],
)
