"""C11: array wrappers stay in bounds and keep the ownership they document."""
from unit import Unit

MAXN = 1000000
EXC = "EXC_std_runtime_error"


def buf_harness(obj, elem="int", base=None, inv=True):
    """pre_call text: give AbstractArray-like harness object `obj` a consistent (ptr, numItems) over a fresh heap block"""
    b = (obj + "." + base) if base else obj
    return """
  unsigned long in_n_%(o)s = nondet_unsigned_long(); __CPROVER_assume(in_n_%(o)s <= %(max)d);
  %(b)s.ptr = in_n_%(o)s ? (%(T)s *)verif_malloc(in_n_%(o)s * sizeof(%(T)s)) : 0;
  %(b)s.numItems = in_n_%(o)s;
""" % dict(o=obj.replace(".", "_").replace("@", "p"), b=b, T=elem, max=MAXN)


def vec_harness(obj, elem="int"):
    v = "in_vn_" + obj.replace(".", "_").replace("@", "p")
    return """
  unsigned long %(v)s = nondet_unsigned_long(); __CPROVER_assume(%(v)s <= %(max)d);
  %(o)s.b = %(v)s ? (%(T)s *)verif_malloc(%(v)s * sizeof(%(T)s)) : 0;
  %(o)s.n = %(v)s; %(o)s.cap = %(v)s;
""" % dict(o=obj, v=v, T=elem, max=MAXN)


def AA_INV(a, T="int"):
    return "((%s.numItems == 0 && %s.ptr == 0) || (%s.numItems > 0 && __CPROVER_r_ok(%s.ptr, %s.numItems * sizeof(%s))))" % (a, a, a, a, a, T)


def units():
    U = Unit("c11_arrays", "units/c11_arrays.cpp")
    A = "(*$0)"
    # ---------------- AbstractArray<int>
    common = dict(requires=[AA_INV(A)], pre_call=buf_harness("o_@0"))
    U.fn("aa_size", ensures={"size_is_numItems": "RET == $0->numItems"}, **common)
    for nm in ("aa_data", "aa_begin", "aa_cbegin"):
        U.fn(nm, ensures={"begin_is_ptr": "RET == $0->ptr"}, **common)
    for nm in ("aa_end", "aa_cend"):
        U.fn(nm, ensures={"end_minus_begin_is_size": "RET == $0->ptr + $0->numItems"}, **common)
    U.fn("aa_bool", ensures={"bool_iff_nonempty": "RET == ($0->numItems != 0)"}, **common)
    U.fn("aa_index", requires=[AA_INV(A), "$1 < $0->numItems"], pre_call=buf_harness("o_@0"),
         ensures={"index_addresses_element_i": "RET == $0->ptr + $1"})
    U.fn("aa_at", requires=[AA_INV(A), "__verif_exc == 0"], pre_call=buf_harness("o_@0"), ensures={
        "at_succeeds_exactly_for_i_below_size": "IMP($1 < $0->numItems, __verif_exc == 0 && RET == $0->ptr + $1)",
        "at_throws_otherwise": "IMP($1 >= $0->numItems, __verif_exc == %s)" % EXC})
    # ---------------- ArrayView<int>
    B = "$0->__base_AbstractArrayi"
    VIEW = lambda p, n: "%s.numItems == (%s) && %s.ptr == ((%s) > 0 ? (%s) : (int *)0)" % (B, n, B, n, p)
    U.fn("av_ctor_ptr", assigns=["*$0"], noalias=True, ensures={"view_aliases_source_exactly": VIEW("$1", "$2")})
    U.fn("av_reset_ptr", assigns=["*$0"], ensures={"view_aliases_source_exactly": VIEW("$1", "$2")})
    U.fn("av_reset", assigns=["*$0"], ensures={"reset_gives_empty_null_view": "%s.numItems == 0 && %s.ptr == 0" % (B, B)})
    U.fn("av_ctor_vec", assigns=["*$0"], noalias=True, pre_call=vec_harness("o_@1"), ensures={"view_aliases_vector_exactly": VIEW("$1->b", "$1->n")})
    U.fn("av_assign_vec", assigns=["*$0"], pre_call=vec_harness("o_@1"), ensures={"view_aliases_vector_exactly": VIEW("$1->b", "$1->n"), "returns_self": "RET == $0"})
    U.fn("av_ctor_arr", assigns=["*$0"], noalias=True, ensures={"view_aliases_array_exactly": "%s.numItems == 4 && %s.ptr == &$1->_M_elems[0]" % (B, B)})
    U.fn("av_assign_arr", assigns=["*$0"], ensures={"view_aliases_array_exactly": "%s.numItems == 4 && %s.ptr == &$1->_M_elems[0]" % (B, B), "returns_self": "RET == $0"})
    # ---------------- OwnedArray<int>: representation invariant after every operation
    OA = "$0->__base_AbstractArrayi"
    OA_INV = "(%s.numItems == $0->dataBuf.n && %s.ptr == ($0->dataBuf.n > 0 ? $0->dataBuf.b : (int *)0))" % (OA, OA)
    OWNS = "(($0->dataBuf.n == 0) || __CPROVER_r_ok($0->dataBuf.b, $0->dataBuf.n * sizeof(int)))"
    VEC_OK = lambda v: "((%s.n == 0 && %s.b == 0) || (%s.n > 0 && %s.n <= %d && __CPROVER_r_ok(%s.b, %s.n * sizeof(int))))" % (v, v, v, v, MAXN, v, v)
    self_vec = "\n  o_self.dataBuf.b = 0; o_self.dataBuf.n = 0; o_self.dataBuf.cap = 0; o_self.__base_AbstractArrayi.ptr = 0; o_self.__base_AbstractArrayi.numItems = 0;\n"
    def self_owned(o="o_self"):
        return vec_harness(o + ".dataBuf") + "  %s.__base_AbstractArrayi.ptr = %s.dataBuf.n ? %s.dataBuf.b : 0; %s.__base_AbstractArrayi.numItems = %s.dataBuf.n;\n" % (o, o, o, o, o)
    U.fn("oa_ctor_ptr", assigns=["*$0"], noalias=True, requires=["$2 <= %d" % MAXN, "$2 == 0 || __CPROVER_r_ok($1, $2 * sizeof(int))"],
         pre_call="  p_d = (int *)malloc(in__size * sizeof(int));\n" if False else "", harness=None,
         ensures={"size_is_requested": "$0->dataBuf.n == $2", "exposed_view_is_own_buffer": OA_INV, "contents_independent_of_source_buffer": "IMP($2 > 0, %s.ptr != $1)" % OA})
    U.fn("oa_ctor_vec", assigns=["*$0"], noalias=True, pre_call=vec_harness("o_@1"), requires=[VEC_OK("(*$1)")],
         ensures={"size_is_source_size": "$0->dataBuf.n == $1->n", "exposed_view_is_own_buffer": OA_INV, "contents_independent_of_source_buffer": "IMP($1->n > 0, %s.ptr != $1->b)" % OA})
    U.fn("oa_ctor_arr", assigns=["*$0"], noalias=True,
         ensures={"size_is_4": "$0->dataBuf.n == 4", "exposed_view_is_own_buffer": OA_INV})
    U.fn("oa_copy", assigns=["*$0"], noalias=True, pre_call=self_owned("o_@1"), requires=[VEC_OK("$1->dataBuf")],
         ensures={"copy_has_source_size": "$0->dataBuf.n == $1->dataBuf.n", "copy_exposes_its_own_buffer": OA_INV,
                  "copy_is_independent_of_source": "IMP($1->dataBuf.n > 0, %s.ptr != $1->__base_AbstractArrayi.ptr)" % OA})
    U.fn("oa_copy_assign", assigns=["*$0"], frees=["$0->dataBuf.b"], noalias=True, pre_call=self_owned("o_@0") + self_owned("o_@1"), requires=[VEC_OK("$1->dataBuf"), VEC_OK("$0->dataBuf")],
         ensures={"copy_has_source_size": "$0->dataBuf.n == $1->dataBuf.n", "copy_exposes_its_own_buffer": OA_INV,
                  "copy_is_independent_of_source": "IMP($1->dataBuf.n > 0, %s.ptr != $1->__base_AbstractArrayi.ptr)" % OA})
    U.fn("oa_assign_vec", assigns=["*$0"], frees=["$0->dataBuf.b"], pre_call=self_owned("o_@0") + vec_harness("o_@1"), requires=[VEC_OK("(*$1)"), VEC_OK("$0->dataBuf")],
         ensures={"size_is_source_size": "$0->dataBuf.n == $1->n", "exposed_view_is_own_buffer": OA_INV, "returns_self": "RET == $0"})
    U.fn("oa_assign_arr", assigns=["*$0"], frees=["$0->dataBuf.b"], pre_call=self_owned("o_@0"), requires=[VEC_OK("$0->dataBuf")],
         ensures={"size_is_4": "$0->dataBuf.n == 4", "exposed_view_is_own_buffer": OA_INV, "returns_self": "RET == $0"})
    U.fn("oa_reset", assigns=["*$0"], frees=["$0->dataBuf.b"], pre_call=self_owned("o_@0"), requires=[VEC_OK("$0->dataBuf")],
         ensures={"reset_empties": "$0->dataBuf.n == 0 && %s.numItems == 0 && %s.ptr == 0" % (OA, OA)})
    U.fn("oa_reset_ptr", assigns=["*$0"], frees=["$0->dataBuf.b"], pre_call=self_owned("o_@0"), requires=[VEC_OK("$0->dataBuf"), "$2 <= %d" % MAXN, "$2 == 0 || __CPROVER_r_ok($1, $2 * sizeof(int))"],
         ensures={"size_is_requested": "$0->dataBuf.n == $2", "exposed_view_is_own_buffer": OA_INV})
    U.fn("oa_resize", assigns=["*$0"], frees=["$0->dataBuf.b"], pre_call=self_owned("o_@0"), requires=[VEC_OK("$0->dataBuf"), "__verif_exc == 0"], single=["val"],
         ensures={"size_is_requested": "IMP(__verif_exc == 0, $0->dataBuf.n == $1)", "resize_within_max_size_succeeds": "IMP($1 <= %d, __verif_exc == 0)" % MAXN,
                  "exposed_view_is_own_buffer": OA_INV})
    # ---------------- FixedArray<uint8_t>
    FA = "$0->__base_AbstractArray_uchar"
    FA_INV = "(%s.ptr == (%s.numItems > 0 ? $0->array.p : (unsigned char *)0))" % (FA, FA)
    U.fn("fa_ctor_size", assigns=["*$0"], noalias=True, requires=["$1 <= %d" % MAXN],
         ensures={"size_is_requested": "%s.numItems == $1" % FA, "exposed_view_is_own_buffer": FA_INV,
                  "buffer_is_fresh_and_large_enough": "IMP($1 > 0, __CPROVER_is_fresh($0->array.p, $1))", "sole_owner": "__CPROVER_is_fresh($0->array.c, sizeof(verif_ctrl)) && $0->array.c->cnt == 1"})
    U.fn("fa_ctor_ptr", assigns=["*$0"], noalias=True, requires=["$2 <= %d" % MAXN, "$1 == 0 || $2 == 0 || __CPROVER_r_ok($1, $2)"],
         ensures={"size_is_requested": "%s.numItems == $2" % FA, "exposed_view_is_own_buffer": FA_INV,
                  "buffer_is_fresh_and_large_enough": "IMP($2 > 0, __CPROVER_is_fresh($0->array.p, $2))"})
    U.fn("fa_ctor_vec", assigns=["*$0"], noalias=True, pre_call=vec_harness("o_@1", "unsigned char"), requires=["$1->n <= %d" % MAXN, "$1->n == 0 || __CPROVER_r_ok($1->b, $1->n)"],
         ensures={"size_is_source_size": "%s.numItems == $1->n" % FA, "exposed_view_is_own_buffer": FA_INV,
                  "buffer_is_fresh_and_large_enough": "IMP($1->n > 0, __CPROVER_is_fresh($0->array.p, $1->n))"})
    # FixedArray held by the harness: block of n0 bytes + control block with an arbitrary number (>=1) of owners
    def fa_state(o):
        return """
  unsigned long in_n0 = nondet_unsigned_long(); __CPROVER_assume(in_n0 <= %(max)d);
  long in_owners = nondet_long(); __CPROVER_assume(in_owners >= 1 && in_owners <= 1000);
  %(o)s.array.p = (unsigned char *)verif_malloc(in_n0); %(o)s.array.c = (verif_ctrl *)verif_malloc(sizeof(verif_ctrl)); %(o)s.array.c->cnt = in_owners;
  %(o)s.__base_AbstractArray_uchar.numItems = in_n0; %(o)s.__base_AbstractArray_uchar.ptr = in_n0 ? %(o)s.array.p : 0;
""" % dict(o=o, max=MAXN)
    U.fn("fa_assign_vec", assigns=["*$0", "$0->array.c->cnt"], frees=["$0->array.p", "$0->array.c"], pre_call=fa_state("o_@0") + vec_harness("o_@1", "unsigned char"),
         requires=["$1->n <= %d" % MAXN, "$1->n == 0 || __CPROVER_r_ok($1->b, $1->n)", "__CPROVER_rw_ok($0->array.c, sizeof(verif_ctrl))", "$0->array.c->cnt >= 1"],
         ensures={"size_is_source_size": "%s.numItems == $1->n" % FA, "exposed_view_is_own_buffer": FA_INV, "returns_self": "RET == $0",
                  "assignment_installs_a_fresh_buffer_not_shared_with_earlier_copies": "IMP($1->n > 0, __CPROVER_is_fresh($0->array.p, $1->n))",
                  "earlier_copies_keep_their_buffer": "IMP(OLD($0->array.c->cnt) > 1, OLD($0->array.c)->cnt == OLD($0->array.c->cnt) - 1)"})
    U.fn("fa_copy", assigns=["*$0", "$1->array.c->cnt"], noalias=True, pre_call=fa_state("o_@1"),
         requires=["__CPROVER_rw_ok($1->array.c, sizeof(verif_ctrl))", "$1->array.c->cnt >= 1"],
         ensures={"copy_shares_the_buffer": "$0->array.p == $1->array.p && $0->array.c == $1->array.c", "copy_is_one_more_owner": "$1->array.c->cnt == OLD($1->array.c->cnt) + 1",
                  "copy_has_same_view": "%s.ptr == $1->__base_AbstractArray_uchar.ptr && %s.numItems == $1->__base_AbstractArray_uchar.numItems" % (FA, FA)})
    # DataView<int>
    U.fn("dv_ctor", assigns=["*$0"], noalias=True, nullable=["_data"], ptr_requires=True, ensures={"view_remembers_base_and_stride": "$0->ptr == (unsigned char *)$1 && $0->stride == $2"})
    U.fn("dv_reset", assigns=["*$0"], nullable=["_data"], ensures={"view_remembers_base_and_stride": "$0->ptr == (unsigned char *)$1 && $0->stride == $2"})
    U.fn("dv_index", requires=["$0->stride <= 64 && $1 <= 65535"], flags=["--no-pointer-check"], ensures={"index_reads_at_byte_offset_i_times_stride": "(unsigned char *)RET == $0->ptr + $1 * $0->stride"})
    return [U]


META = dict(
    technique='CBMC 6.11 function contracts (dfcc) on the extracted array wrappers with std::vector / shared_ptr reference models',
    level="proof",
    level_text="AbstractArray/ArrayView/OwnedArray/FixedArray operations are extracted from /repo and proved by CBMC against contracts over the representation (ptr, numItems) for buffers of ANY length up to 10^6 elements (symbolic size, heap-allocated in the harness): size()/data()/begin()/end() consistent, at(i) returns &data()[i] exactly for i < size() and otherwise throws, views alias their source exactly, setPtr(p,0) gives null, and the OwnedArray representation invariant (exposed ptr/numItems == own vector's data()/size()) holds after every constructor, assignment, reset and resize, including the compiler-generated copy operations; FixedArray constructors allocate a fresh block of exactly the requested size.",
    level_note="std::vector is modelled as the owner of one heap block whose mutators are assumed contracts (fresh block of exactly n elements); std::shared_ptr as an exact reference-counting model; memcpy by an assumed contract whose precondition (both ranges valid) is checked at each call; allocation never fails. Element VALUES (copies preserve contents) are not tracked. Buffer length bound 10^6 elements is a harness bound on the symbolic size, not an unrolling bound.",
    assumptions=["std::vector / std::shared_ptr / memcpy models (lib/stdlib.py)", "operator new never fails", "buffer sizes <= 10^6 elements in harnesses"],
    unverified=["element values after copies", "FixedArrayView / DataView (see evidence when listed)", "std::array constructors of OwnedArray/FixedArray for sizes other than 4"],
)
