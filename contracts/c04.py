"""C04: every vec_t operator is the component-wise lifting of its scalar definition."""
import os
from unit import Unit
import vecgen

QUICK_TYPES = ["i32", "u8", "f32"]
ALL_TYPES = ["i8", "u8", "i16", "u16", "i32", "u32", "i64", "u64", "f32", "f64"]
QUICK_MIXED = [("i32", "f32"), ("u8", "i32"), ("f32", "i32"), ("u32", "i64")]
ALL_MIXED = QUICK_MIXED + [("i8", "u8"), ("i16", "u32"), ("i64", "u64"), ("f32", "f64"), ("f64", "i64"), ("u16", "f32"), ("i32", "u32"), ("u64", "f32")]


def units():
    tier = os.environ.get("VERIF_TIER_EFFECTIVE", "quick")
    G = vecgen.Gen("c04_vec")
    if tier == "thorough":
        vecgen.build_vec_ops(G, ALL_TYPES, mixed_pairs=ALL_MIXED, tier=tier, shapes3a_types=ALL_TYPES)
    else:
        vecgen.build_vec_ops(G, QUICK_TYPES, mixed_pairs=QUICK_MIXED, tier=tier)
    M = []
    types = ALL_TYPES if tier == "thorough" else QUICK_TYPES
    for t in types:
        for s in ["2", "3", "4"] + (["3a"] if (t in ("f32", "i32") or tier == "thorough") else []):
            vecgen.math_specs(G, M, t, s)
        if t in ("f32", "i32") or tier == "thorough":
            vecgen.math_specs(G, M, t, "3", "3a")
            vecgen.math_specs(G, M, t, "3a", "3")
    U = Unit("c04_vec", "build/units/c04_vec.cpp", gen=lambda p: G.write(p, ["rkcommon/math/vec.h"]), opts=dict(uf_arith=True))
    G.apply(U)
    for (alias, mode, ens, kw) in M:
        U.mfn(alias, mode, ens, **kw)
    return [U]


META = dict(
    technique='CBMC 6.11 function contracts (dfcc) on 846 extracted vec_t functions with scalar arithmetic abstracted to uninterpreted functions (term identity with the scalar definition)',
    level="proof",
    level_text="Each vec_t overload is instantiated through a use site (so the overload real user code binds to is the one verified), extracted from /repo on every run, and proved by CBMC to return, for all operand values, exactly the value the scalar definition gives per component (C semantics of `T op U` with the usual arithmetic conversions, computed by the spec generator independently of the library's decltype). Bit-precise for integers and single floating-point operations, all 2^k inputs, no bound; signed overflow / division by zero / MIN/-1 are excluded by generated preconditions, so CBMC's own overflow and division checks prove absence of UB under them.",
    level_note="Trusted: clang AST + cxx2c + CBMC. quick tier: element types int32/uint8/float (+4 mixed pairs) x shapes 2,3,3a,4; thorough: all 10 element types, 12 mixed pairs. Multi-operation float expressions (dot, cross, length, normalize, interpolate_uv, float sum/product) are decided over the reals by z3 (machine arithmetic treated as mathematical) or unverified; libm (sin, cos, sqrt) and SSE rcp/rsqrt are uninterpreted.",
    assumptions=["floating-point equality is 'equal or both NaN'", "signed integer operands satisfy the generated no-overflow preconditions", "float->int element conversions restricted to |x|<100 (out-of-range conversion is UB)"],
    unverified=["operator<< streaming", "sin/cos/sqrt values (libm)", "rounding magnitude of float sums"],
)
