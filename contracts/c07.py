"""C07: scalar math kernels -- accuracy and range contracts."""
import os
import z3
from unit import Unit

FLT_MIN = "1.17549435e-38f"
FLT_MAX = "3.40282347e+38f"
DBL_MIN = "2.2250738585072014e-308"
DBL_MAX = "1.7976931348623157e+308"

HELPERS = """
/* scalar definition of the 8-bit conversion, written from the property statement: clamp to [0,1], scale, round */
static inline unsigned spec_cvt(float f) { float c = f < 0.f ? 0.f : (f > 1.f ? 1.f : f); return (unsigned)roundf(255.f * c); }
#define FINITE_F(x) ((x) == (x) && (x) <= 3.40282347e+38f && (x) >= -3.40282347e+38f)
#define FINITE_D(x) ((x) == (x) && (x) <= 1.7976931348623157e+308 && (x) >= -1.7976931348623157e+308)
"""


def common_specs(U, simd):
    U.fn("sign__f32", ensures={"sign_is_minus_one_for_negative_else_one": "RET == ($0 < 0 ? -1.0f : 1.0f)"})
    for nm in ("clamp__f32", "clamp__i32"):
        nonan = ["*$0 == *$0", "*$1 == *$1", "*$2 == *$2"] if nm.endswith("f32") else []
        U.fn(nm, requires=nonan + ["*$1 <= *$2"], ensures={
            "clamp_result_inside_range": "*$1 <= RET && RET <= *$2",
            "clamp_is_identity_inside": "IMP(*$1 <= *$0 && *$0 <= *$2, RET == *$0)"})
    U.fn("deg2rad__f32", ensures={"deg2rad_is_x_times_pi_over_180": "FEQ(RET, *$0 * (float)1.745329251994329576923690768489e-2)"})
    U.mfn("lerp__f32", "real", {"lerp_is_convex_combination": lambda P, RET, Q: RET == (1 - P[0]) * P[1] + P[0] * P[2]})
    # ... and AS WRITTEN in floating point: an algebraically equal rewrite such as a + f*(b-a) differs in rounding, absorption and
    # overflow (lerp(1, 1e8f, 1) must be 1). The PROOF is in unit c07_lerp_uf (arithmetic uninterpreted: the body is the stated term);
    # this bit-precise variant is a 40 s counterexample SEARCH (two structurally equal float multipliers do not finish as a proof) that
    # gives natively replayable inputs when the body is a different term.
    U.fn("lerp__f32", variant="float_search", timeout=40, refute_only=True, noalias=True, solver=["--sat-solver", "cadical"],
         ensures={"lerp_is_one_minus_f_times_a_plus_f_times_b_in_float_arithmetic": "FEQ(RET, (1.f - $0) * *$1 + $0 * *$2)"})
    # divRoundUp: semantic over Z; absence of overflow bit-precisely (fails near the type maximum: known finding)
    for nm, T in (("divRoundUp__i32", "int"), ("divRoundUp__u32", "unsigned"), ("divRoundUp__i64", "long")):
        U.mfn(nm, "int", {"divRoundUp_is_least_q_with_q_times_b_ge_a": lambda P, RET, Q: z3.And(RET * P[1] >= P[0], (RET - 1) * P[1] < P[0])},
              requires=lambda P: [P[0] >= 0, P[1] > 0])
    # bit-precise: no wrap-around / overflow and a sane result whenever a+b-1 fits the type ...
    for nm, MAX, flags in (("divRoundUp__i32", "2147483647", []), ("divRoundUp__i64", "9223372036854775807l", []), ("divRoundUp__u32", "4294967295u", [])):
        U.fn(nm, requires=["$0 >= 0", "$1 > 0", "$0 <= %s - $1" % MAX], flags=flags, ensures={
            "divRoundUp_at_least_one_for_positive_a": "IMP($0 > 0, RET >= 1)", "divRoundUp_at_most_a": "IMP($0 > 0, RET <= $0)", "divRoundUp_zero_for_zero": "IMP($0 == 0, RET == 0)"})
        # ... and the same clause for a within b-1 of the type maximum, where a+b-1 wraps (listed in known_findings.json)
        U.fn(nm, variant="near_type_max", requires=["$0 >= 0", "$1 > 0", "$0 > %s - $1" % MAX], noflags=["--signed-overflow-check"], ensures={
            "divRoundUp_at_least_one_for_positive_a__a_plus_b_exceeds_type_max": "IMP($0 > 0, RET >= 1)"})
    # 8-bit packing
    U.fn("cvt_uint32__f32", requires=["$0 == $0"], inline=["clamp__f32"], ensures={
        "cvt_is_round_255_times_clamped": "RET == spec_cvt($0)",
        "cvt_in_0_255": "RET <= 255u",
        "cvt_saturates_low": "IMP($0 <= 0.f, RET == 0u)",
        "cvt_saturates_high": "IMP($0 >= 1.f, RET == 255u)"})
    U.fn("cvt_uint32__vec4f", requires=["$0->x == $0->x && $0->y == $0->y && $0->z == $0->z && $0->w == $0->w"], ensures={
        "per_channel_packing": "RET == ((spec_cvt($0->x) << 0) | (spec_cvt($0->y) << 8) | (spec_cvt($0->z) << 16) | (spec_cvt($0->w) << 24))"})
    U.lemma("cvt_monotone", [("float", "a"), ("float", "b")], """
  ASSUME(a == a && b == b && a <= b);
  unsigned ca = cvt_uint32__f32(a), cb = cvt_uint32__f32(b);
  ASSERT(cvt_monotone, ca <= cb);
""", uses=["cvt_uint32__f32"], inline=["cvt_uint32__f32", "clamp__f32"])
    U.fn("linear_to_srgb__f32", requires=["$0 == $0"], ensures={
        "srgb_is_pow_of_nonnegative_part": "FEQ(RET, verif_powf(($0 < 0.f ? 0.f : $0), 1.f / 2.2f))"})
    U.fn("linear_to_srgba__vec4f", requires=["$0.x == $0.x && $0.y == $0.y && $0.z == $0.z && $0.w == $0.w"], ensures={
        "alpha_is_not_gamma_corrected": "FEQ(RET.w, ($0.w < 0.f ? 0.f : $0.w))",
        "rgb_channels_go_through_linear_to_srgb_each": "FEQ(RET.x, verif_powf(($0.x < 0.f ? 0.f : $0.x), 1.f / 2.2f)) && FEQ(RET.y, verif_powf(($0.y < 0.f ? 0.f : $0.y), 1.f / 2.2f)) && FEQ(RET.z, verif_powf(($0.z < 0.f ? 0.f : $0.z), 1.f / 2.2f))"})
    U.fn("makeRandomColor__u32", ensures={
        "components_in_unit_interval": "RET.x >= 0.f && RET.x <= 1.f && RET.y >= 0.f && RET.y <= 1.f && RET.z >= 0.f && RET.z <= 1.f"})


def units():
    us = []
    # lerp / madd AS WRITTEN: scalar arithmetic uninterpreted (sound for "is this term": proved for every interpretation of + - *)
    W = Unit("c07_lerp_uf", "units/c07_lerp.cpp", opts=dict(uf_arith=True))
    W.fn("lerp__f32", ensures={"lerp_is_the_term_one_minus_f_times_a_plus_f_times_b": "FEQ(RET, verif_add_f32(verif_mul_f32(verif_sub_f32(1.f, $0), *$1), verif_mul_f32($0, *$2)))"})
    W.fn("madd__f32", ensures={"madd_is_the_term_a_times_b_plus_c": "FEQ(RET, verif_add_f32(verif_mul_f32($0, $1), $2))"})
    us.append(W)
    # default (SIMD) configuration: rcp/rsqrt are SSE estimate + Newton-Raphson: opaque, assumed contracts
    U = Unit("c07_simd", "units/c07_scalar.cpp", helpers=HELPERS, opts=dict(opaque=["rcp__f32", "rsqrt__f32"]))
    U.fn("rcp__f32", assumed=True, requires=["FINITE_F($0)", "__builtin_fabsf($0) >= %s" % FLT_MIN],
         ensures={"assumed_rcp_finite_and_sign_preserving_on_normal_floats": "FINITE_F(RET) && IMP($0 > 0, RET >= 0) && IMP($0 < 0, RET <= 0)"})
    U.stub("rcp__f32", "SSE _mm_rcp_ss + one Newton-Raphson step: assumed finite and sign preserving for finite |x| >= FLT_MIN; the 2^-20 accuracy claim is NOT decided")
    U.fn("rcp_safe_t__f32", requires=["FINITE_F($0)"], ensures={
        "rcp_safe_finite": "FINITE_F(RET)",
        "rcp_safe_never_opposite_sign": "IMP($0 > 0, RET >= 0) && IMP($0 < 0, RET <= 0)"})
    U.fn("rcp_safe__f32", requires=["FINITE_F($0)"], ensures={
        "rcp_safe_finite": "FINITE_F(RET)",
        "rcp_safe_never_opposite_sign": "IMP($0 > 0, RET >= 0) && IMP($0 < 0, RET <= 0)"})
    U.fn("rcp_safe_t__f64", requires=["FINITE_D($0)"], inline=["rcp__f64"], ensures={
        "rcp_safe_finite": "FINITE_D(RET)",
        "rcp_safe_never_opposite_sign": "IMP($0 > 0, RET >= 0) && IMP($0 < 0, RET <= 0)"})
    common_specs(U, True)
    us.append(U)
    # default (SIMD) configuration, rcp / rsqrt AS WRITTEN: the SSE intrinsics are read on lane 0 as float operations, the two
    # estimate instructions are nondeterministic within the documented hardware error
    S = Unit("c07_sse", "units/c07_scalar.cpp", helpers=HELPERS, stubs=SSE_STUBS, opts=dict(models=sse_models(), opaque_types={"__attribute__((__vector_size__(4 * sizeof(float)))) float": "float", "__m128": "float"}))
    S.stub("verif_sse_rsqrt_est / verif_sse_rcp_est", "ASSUMED hardware contract of _mm_rsqrt_ss / _mm_rcp_ss: relative error <= 1.5 * 2^-12 (Intel SDM), lane 0")
    # bit-precise counterexample SEARCH over the whole stated range 2^-126 <= x < 2^126 (incl. the outermost binades the rounding-model
    # proof below leaves out): six float multiplications do not finish as a proof; a body that overflows or loses the accuracy gives
    # natively replayable inputs
    SEARCH_T = 600 if os.environ.get("VERIF_TIER_EFFECTIVE") == "thorough" else 60
    S.fn("rsqrt__f32", variant="float_search", requires=["$0 >= 0x1p-126f && $0 < 0x1p126f"], timeout=SEARCH_T, refute_only=True, solver=["--sat-solver", "cadical"], replay_native=SSE_REPLAY % dict(fn="rsqrt", ref="1.0 / std::sqrt((double)x)", cond="x >= 0x1p-126f && x < 0x1p126f"), ensures={
        "rsqrt_within_2_pow_minus_20_of_one_over_sqrt_x": "FINITE_F(RET) && RET > 0.0f && (double)RET * (double)RET * (double)$0 >= 0.99999809 && (double)RET * (double)RET * (double)$0 <= 1.00000191"})
    S.fn("rcp__f32", variant="float_search", requires=["($0 >= 0x1p-126f && $0 < 0x1p126f) || ($0 <= -0x1p-126f && $0 > -0x1p126f)"], timeout=SEARCH_T, refute_only=True, solver=["--sat-solver", "cadical"], replay_native=SSE_REPLAY % dict(fn="rcp", ref="1.0 / (double)x", cond="std::fabs(x) >= 0x1p-126f && std::fabs(x) < 0x1p126f"), ensures={
        "rcp_within_2_pow_minus_20_of_one_over_x": "FINITE_F(RET) && (double)RET * (double)$0 >= 1.0 - 0x1p-20 && (double)RET * (double)$0 <= 1.0 + 0x1p-20"})
    # ... the same two functions over the reals with the standard model of rounding: every binary32 operation of the body is the exact
    # result times (1 + d), |d| <= 2^-24, with the OBLIGATIONS that the exact result does not overflow and is zero or normal. Proved
    # for 2^-125 <= x <= 2^125 (in the two outermost binades one intermediate is subnormal: no relative bound; those are left to the
    # bit-precise search above)
    VEC = "__attribute__((__vector_size__(4 * sizeof(float)))) float"
    def est_rsqrt(ev, st, a):
        r = ev.newsym("rsqrt_est")
        ev.side.append(z3.And(r > 0, r * r * a >= z3.RealVal("0.99926771"), r * r * a <= z3.RealVal("1.00073272")))
        return r
    def est_rcp(ev, st, a):
        r = ev.newsym("rcp_est")
        ev.side.append(z3.And(r * a >= z3.RealVal("0.99963378"), r * a <= z3.RealVal("1.00036622")))
        return r
    MM = {"verif_sse_rsqrt_est": est_rsqrt, "verif_sse_rcp_est": est_rcp}
    LO, HI = z3.Q(1, 2 ** 125), z3.RealVal(2 ** 125)
    S.mfn("rsqrt__f32", "real", {"rsqrt_within_2_pow_minus_20_of_one_over_sqrt_x__rounding_model": lambda P, RET, Q: z3.And(RET > 0, RET * RET * P[0] >= z3.RealVal("0.99999809"), RET * RET * P[0] <= z3.RealVal("1.00000191"))},
          requires=lambda P: [P[0] >= LO, P[0] <= HI], models=MM, rounding=True, rounding_types=(VEC, "__m128"), timeout=120)
    S.mfn("rcp__f32", "real", {"rcp_within_2_pow_minus_20_of_one_over_x__rounding_model": lambda P, RET, Q: z3.And(RET * P[0] >= 1 - z3.Q(1, 2 ** 20), RET * P[0] <= 1 + z3.Q(1, 2 ** 20))},
          requires=lambda P: [z3.Or(z3.And(P[0] >= LO, P[0] <= HI), z3.And(P[0] <= -LO, P[0] >= -HI))], models=MM, rounding=True, rounding_types=(VEC, "__m128"), timeout=120)
    us.append(S)
    # RKCOMMON_NO_SIMD configuration: rcp is one IEEE division; everything bit-precise
    V = Unit("c07_nosimd", "units/c07_scalar.cpp", defines=["RKCOMMON_NO_SIMD"], helpers=HELPERS)
    V.fn("rcp_safe_t__f32", requires=["FINITE_F($0)"], inline=["rcp__f32"], ensures={
        "rcp_safe_finite": "FINITE_F(RET)",
        "rcp_safe_never_opposite_sign": "IMP($0 > 0, RET >= 0) && IMP($0 < 0, RET <= 0)"})
    V.fn("rcp_safe__f32", requires=["FINITE_F($0)"], ensures={
        "rcp_safe_finite": "FINITE_F(RET)",
        "rcp_safe_never_opposite_sign": "IMP($0 > 0, RET >= 0) && IMP($0 < 0, RET <= 0)"})
    us.append(V)
    # definitional equalities of single IEEE operations: arithmetic as uninterpreted symbols (structural proof)
    W = Unit("c07_nosimd_defs", "units/c07_scalar.cpp", defines=["RKCOMMON_NO_SIMD"], helpers=HELPERS, opts=dict(uf_arith=True))
    W.fn("rcp__f32", ensures={"rcp_is_one_over_x": "FEQ(RET, verif_div_f32(1.f, $0))"})
    W.fn("rcp__f64", ensures={"rcp_double_is_one_over_x": "FEQ(RET, verif_div_f64(1.0, $0))"})
    W.fn("rsqrt__f32", ensures={"rsqrt_is_one_over_sqrt": "FEQ(RET, verif_div_f32(1.f, verif_sqrtf($0)))"})
    W.fn("madd__f32", ensures={"madd_is_a_times_b_plus_c": "FEQ(RET, verif_add_f32(verif_mul_f32($0, $1), $2))"})
    us.append(W)
    return us


META = dict(
    technique='CBMC 6.11 bit-precise function contracts (dfcc) + z3 integer-mode VCs with machine-range obligations; lerp/madd as term identities over uninterpreted arithmetic; one time-boxed bit-precise counterexample search',
    level="proof",
    level_text="Bit-precise CBMC contracts on the real scalar kernels for every float / int input: rcp_safe finite and never of opposite sign (RKCOMMON_NO_SIMD build: through the IEEE division itself; SIMD build: rcp_safe_t is proved to hand rcp() only finite arguments with |x| >= FLT_MIN, rcp() itself carrying an assumed contract), clamp inside [lo,hi] and identity inside, sign, deg2rad, madd equal to their definitions, cvt_uint32 equal to round(255*clamp01(f)), saturating, in [0,255], monotone (two-input lemma), per-channel packing of vec4f, alpha not gamma-corrected, makeRandomColor in [0,1]; divRoundUp = least q with q*b >= a over Z (z3) plus bit-precise overflow checks; lerp is the convex combination over the reals AND is the floating-point term (1-f)*a + f*b as written (unit c07_lerp_uf: arithmetic uninterpreted, so an algebraically equal rewrite with different rounding is not accepted), madd likewise; a 40 s bit-precise counterexample search for lerp supplies replayable inputs when the term differs.",
    level_note="NOT decided (stated in DESIGN.md 6/C07): the 2^-20 accuracy of rcp/rsqrt in either build (hardware estimate instructions have no semantics in any installed verifier; Newton-Raphson error is a non-linear floating-point fact), linear_to_srgb through pow (uninterpreted), the random distributions and their reproducibility (pcg32, third party). A change that only drops the refinement step is not detected.",
    assumptions=["rcp(float) in the SIMD build: assumed finite and sign preserving on finite |x| >= FLT_MIN", "roundf as modelled by CBMC's C library", "pow uninterpreted", "no NaN inputs where an order is needed",
                 "divRoundUp semantic clause: machine arithmetic treated as mathematical (valid when a+b-1 does not overflow)"],
    unverified=["rcp/rsqrt relative error 2^-20 (both builds)", "linear_to_srgb accuracy", "pcg32_biased_float_distribution / uniform_real_distribution range and reproducibility"],
)


# ---------------------------------------------------------------- SSE scalar-lane model (rcp / rsqrt as written)
SSE_STUBS = """
/* ASSUMED hardware contract of the SSE estimate instructions (Intel SDM: |relative error| <= 1.5 * 2^-12), lane 0 only:
 * the estimate is a nondeterministic float whose square times the argument (rsqrt) / whose product with the argument (rcp)
 * is within the documented relative error of 1; exact for the products formed in double (24+24 bit significands). */
float verif_sse_rsqrt_est(float a)
{
  float r = nondet_float();
  double p = (double)r * (double)r;             /* exact */
  double q = p * (double)a;                     /* one rounding, 2^-53 */
  __CPROVER_assume(r > 0.0f && r == r && q >= 0.99926771 && q <= 1.00073272);   /* (1 -+ 1.5*2^-12)^2 widened by 1e-8 */
  return r;
}
float verif_sse_rcp_est(float a)
{
  float r = nondet_float();
  double q = (double)r * (double)a;             /* exact */
  __CPROVER_assume(r == r && q >= 0.99963378 && q <= 1.00036622);                /* 1 -+ 1.5*2^-12 widened by 1e-8 */
  return r;
}
"""


SSE_REPLAY = """
int main()
{
  /* the counterexample's argument, then a sweep over every binade of the stated range: the real %(fn)s (with the real SSE estimate
   * instruction of this machine) against the double-precision reference */
  float cex = IN_in_x; bool ok = true; int shown = 0;
  for (int k = -1; k < 253 * 64; k++) {
    float x = k < 0 ? cex : std::ldexp(1.0f + (k %% 64) / 64.0f, -126 + k / 64);
    if (!(%(cond)s)) continue;
    float got = rkcommon::math::%(fn)s(x); double ref = %(ref)s;
    double rel = std::fabs(((double)got - ref) / ref);
    if (!(rel <= 0x1p-20)) { ok = false; if (shown++ < 5) printf("%(fn)s(%%a) = %%a, reference %%a, relative error %%g > 2^-20\\n", x, got, ref, rel); }
  }
  printf("REPLAY RESULT: %%s\\n", ok ? "not reproduced" : "violation reproduced on real code");
  return ok ? 0 : 1;
}
"""


def sse_models():
    from cxx2c import X, parse_type
    F = parse_type("float")
    def un(fn):
        def h(tr, fid, info, e, args, obj):
            tr.rule("SSE scalar lane -> float")
            if fn is None:
                return tr.rv(args[0])
            tr.cur.calls[fn] = True
            return X("call", fn, [tr.rv(args[0])], ty=F)
        return h
    def bin_(op):
        def h(tr, fid, info, e, args, obj):
            tr.rule("SSE scalar lane -> float")
            return X("bin", op, tr.rv(args[0]), tr.rv(args[1]), ty=F)
        return h
    return {"_mm_set_ss": un(None), "_mm_cvtss_f32": un(None), "_mm_rsqrt_ss": un("verif_sse_rsqrt_est"), "_mm_rcp_ss": un("verif_sse_rcp_est"),
            "_mm_mul_ss": bin_("*"), "_mm_add_ss": bin_("+"), "_mm_sub_ss": bin_("-")}
