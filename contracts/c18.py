"""C18 (partial): removeArgs, prettyDouble/prettyNumber, longestBeginningMatch/beginsWith."""
from unit import Unit
from cxx2c import X, parse_type, Ty

STUBS = """
/* ASSUMED interface model of snprintf for the three call shapes of common.cpp: records the value and suffix handed to it. */
double g_mant; int g_suffix; int g_calls; unsigned long g_zu; int g_kind;   /* g_kind: 1 "%.1f%c", 2 "%f", 3 "%zu" */
int verif_snprintf_fc(char *buf, unsigned long n, const char *fmt, double m, int c) { __CPROVER_assert(__CPROVER_w_ok(buf, n), "snprintf is handed a writable buffer of the stated size"); g_mant = m; g_suffix = c; g_kind = 1; g_calls++; return 0; }
int verif_snprintf_f(char *buf, unsigned long n, const char *fmt, double m) { __CPROVER_assert(__CPROVER_w_ok(buf, n), "snprintf is handed a writable buffer of the stated size"); g_mant = m; g_suffix = 0; g_kind = 2; g_calls++; return 0; }
int verif_snprintf_zu(char *buf, unsigned long n, const char *fmt, unsigned long v) { __CPROVER_assert(__CPROVER_w_ok(buf, n), "snprintf is handed a writable buffer of the stated size"); g_zu = v; g_suffix = 0; g_kind = 3; g_calls++; return 0; }
/* the power of ten an SI suffix stands for */
static inline double si_scale(int c) { return c == 'E' ? 1e18 : c == 'P' ? 1e15 : c == 'T' ? 1e12 : c == 'G' ? 1e9 : c == 'M' ? 1e6 : c == 'k' ? 1e3 : c == 'm' ? 1e-3 : c == 'u' ? 1e-6 : c == 'n' ? 1e-9 : c == 'p' ? 1e-12 : c == 'f' ? 1e-15 : 1.0; }
static inline double dabs(double x) { return x < 0 ? -x : x; }
char **g_s_gi, **g_s_gj_unused; char *g_a_gi, *g_a_gj;   /* ghost: argv entries at verif_gi / verif_gj on entry */
"""
GA = ["g_mant", "g_suffix", "g_calls", "g_zu", "g_kind"]


def fmt_models():
    def snprintf(tr, fid, info, e, args, obj):
        tr.rule("snprintf -> recording interface model")
        if len(args) == 5:
            fn = "verif_snprintf_fc"
        else:
            t = tr.ety(args[3]).noref()
            fn = "verif_snprintf_f" if t.name in ("double", "float") else "verif_snprintf_zu"
        tr.cur.calls[fn] = True
        return X("call", fn, [tr.rv(a) for a in args], ty=parse_type("int"))
    return {"snprintf": snprintf}


def units():
    U = Unit("c18_args", "units/c18_args.cpp", stubs=STUBS, opts=dict(opaque_std=True, models=fmt_models()))
    U.stub("snprintf", "ASSUMED interface model: records the mantissa/suffix (or integer) it is asked to print; the decimal rendering itself (%.1f rounding) is libc's")
    # ---- removeArgs: the remaining arguments are exactly the unconsumed ones, in their original order
    AV = "(*$1)"
    pre = """
  __CPROVER_assume(in_ac >= 0);
  char **the_av = in_ac ? (char **)verif_malloc((unsigned long)in_ac * sizeof(char *)) : 0; o_av = the_av;
  verif_gi = nondet_ulong(); verif_gj = nondet_ulong();
  if (verif_gi < (unsigned long)in_ac) g_a_gi = the_av[verif_gi];
  if (verif_gj < (unsigned long)in_ac) g_a_gj = the_av[verif_gj];
"""
    AC0 = "__CPROVER_old(*$0)"
    U.fn("x_removeArgs", pre_call=pre,
         requires=["*$0 >= 0 && $2 >= 0 && $3 >= 0 && $2 <= *$0 && $3 <= *$0 - $2", "*$0 == 0 || __CPROVER_rw_ok(%s, (unsigned long)*$0 * sizeof(char *))" % AV,
                   "!__CPROVER_same_object($0, %s) && !__CPROVER_same_object($1, %s) && !__CPROVER_same_object($0, $1)" % (AV, AV),
                   "IMP(verif_gi < (unsigned long)*$0, %s[verif_gi] == g_a_gi)" % AV, "IMP(verif_gj < (unsigned long)*$0, %s[verif_gj] == g_a_gj)" % AV],
         assigns=["*$0", "__CPROVER_object_whole(%s)" % AV],
         loops={1: dict(assigns=["i", "__CPROVER_object_whole(*av)"],
                        invariant=["where + howMany <= i && i <= *ac", "IMP(verif_gi < (unsigned long)where, (*av)[verif_gi] == g_a_gi)",
                                   "IMP(verif_gj >= (unsigned long)(i - howMany) && verif_gj < (unsigned long)*ac, (*av)[verif_gj] == g_a_gj)",
                                   "IMP(verif_gi >= (unsigned long)where && verif_gi < (unsigned long)(i - howMany) && verif_gj == verif_gi + (unsigned long)howMany, (*av)[verif_gi] == g_a_gj)"],
                        decreases="*ac - i")},
         ensures={"count_drops_by_howMany": "*$0 == %s - $3" % AC0,
                  "arguments_before_where_are_untouched": "IMP(verif_gi < (unsigned long)$2, %s[verif_gi] == g_a_gi)" % AV,
                  "arguments_after_the_removed_block_move_down_in_order": "IMP(verif_gi >= (unsigned long)$2 && verif_gi < (unsigned long)*$0 && verif_gj == verif_gi + (unsigned long)$3, %s[verif_gi] == g_a_gj)" % AV,
                  "argv_pointer_itself_unchanged": "%s == __CPROVER_old(%s)" % (AV, AV)})
    # ---- prettyDouble / prettyNumber: decided by the math back end (z3 over the reals: machine floating point treated as
    #      mathematical); the snprintf model records (mantissa, suffix) under the path condition
    import z3
    def rec(kind):
        def m(ev, st, buf, n, fmt, v, c=None):
            g = ev.globals.id
            st.heap[(g, "g_mant")] = v
            st.heap[(g, "g_suffix")] = c if c is not None else ev.num(0)
            st.heap[(g, "g_kind")] = ev.num(kind)
            st.heap[(g, "g_calls")] = st.heap.get((g, "g_calls"), ev.num(0)) + 1
            return ev.num(0)
        return m
    MODELS = {"verif_snprintf_fc": rec(1), "verif_snprintf_f": rec(2), "verif_snprintf_zu": rec(3)}
    SCALES = {'E': 18, 'P': 15, 'T': 12, 'G': 9, 'M': 6, 'k': 3, 'm': -3, 'u': -6, 'n': -9, 'p': -12, 'f': -15}
    def zabs(x):
        return z3.If(x < 0, -x, x)
    def P10(e):
        return z3.RealVal(10) ** e if e >= 0 else 1 / (z3.RealVal(10) ** (-e))
    def in_range(a, lo, hi):
        return z3.And(a >= P10(lo), a < P10(hi))
    def mant_ok(P, RET, Q, G, lo=-15, hi=21):
        v = P[0]
        return z3.Implies(z3.And(in_range(zabs(v), lo, hi), G["g_kind"] == 1), z3.And(zabs(G["g_mant"]) >= z3.RealVal("0.95"), zabs(G["g_mant"]) < z3.RealVal("1000.05")))
    def scale_ok(P, RET, Q, G, lo=-15, hi=21):
        v = P[0]
        cs = [z3.Implies(G["g_suffix"] == ord(c), zabs(G["g_mant"] * P10(e) - v) <= z3.RealVal("0.000001") * zabs(v)) for c, e in SCALES.items()]
        known = z3.Or(*[G["g_suffix"] == ord(c) for c in SCALES])
        return z3.Implies(z3.And(in_range(zabs(v), lo, hi), G["g_kind"] == 1), z3.And(known, *cs))
    def plain_ok(P, RET, Q, G, lo=-15, hi=21):
        v = P[0]
        return z3.And(G["g_calls"] == 1, z3.Implies(G["g_kind"] == 2, z3.And(G["g_mant"] == v, zabs(v) > 1, zabs(v) < 1000)), z3.Implies(G["g_kind"] == 3, z3.And(G["g_mant"] == v, v < 1000)))
    PRETTY_REPLAY = """
static double scale_of(char c) { const char *s = "EPTGMkmunpf"; const double e[] = {1e18,1e15,1e12,1e9,1e6,1e3,1e-3,1e-6,1e-9,1e-12,1e-15}; for (int i = 0; s[i]; i++) if (s[i] == c) return e[i]; return 1.0; }
int main()
{
  double v = IN_in_%(param)s;
  std::string s = rkcommon::%(fn)s(%(arg)s);
  char *end = 0; double m = strtod(s.c_str(), &end); char suf = *end;
  double sc = scale_of(suf);
  bool mant_ok = !suf || (std::fabs(m) >= 1.0 && std::fabs(m) <= 1000.0);
  bool back_ok = std::fabs(m * sc - v) <= (suf ? 0.0500001 * sc : 1e-5 * std::fabs(v) + 1e-6);
  printf("%(fn)s(%%.17g) = \\"%%s\\": mantissa %%g suffix '%%c' -> %%s, %%s\\n", v, s.c_str(), m, suf ? suf : ' ', mant_ok ? "mantissa in [1,1000]" : "MANTISSA OUTSIDE [1,1000]", back_ok ? "multiplies back" : "DOES NOT MULTIPLY BACK");
  printf("REPLAY RESULT: %%s\\n", (mant_ok && back_ok) ? "not reproduced" : "violation reproduced on real code");
  return (mant_ok && back_ok) ? 0 : 1;
}
"""
    def far(P, RET, Q, G):
        return z3.Or(zabs(G["g_mant"]) < z3.RealVal("0.5"), zabs(G["g_mant"]) > 1500)
    U.mfn("x_prettyDouble", "real", {"printed_mantissa_is_between_1_and_1000": mant_ok, "suffix_multiplies_the_mantissa_back_to_the_input": scale_ok, "prints_exactly_once_and_plain_numbers_unscaled": plain_ok},
          models=MODELS, exact_f32=True, prefer=far, replay_native=PRETTY_REPLAY % dict(param="val", fn="prettyDouble", arg="v"))
    U.mfn("x_prettyNumber", "real", {"printed_mantissa_is_between_1_and_1000": lambda P, RET, Q, G: mant_ok(P, RET, Q, G, 0, 20), "suffix_multiplies_the_mantissa_back_to_the_input": lambda P, RET, Q, G: scale_ok(P, RET, Q, G, 0, 20),
                                     "prints_exactly_once_and_small_numbers_unscaled": plain_ok},
          requires=lambda P: [P[0] >= 0, P[0] < z3.RealVal(2) ** 64], models=MODELS, exact_f32=True, prefer=far, replay_native=PRETTY_REPLAY % dict(param="s", fn="prettyNumber", arg="(size_t)v"))
    S = Unit("c18_strings", "units/c18_strings.cpp", opts=dict(tracked_vec=True, tracked_str=True))
    MAXS = "1099511627776ul"
    def SINV(v):
        return "(%(v)s.n <= %(v)s.cap && %(v)s.cap <= %(M)s && ((%(v)s.cap == 0 && %(v)s.b == 0) || (%(v)s.cap > 0 && __CPROVER_rw_ok(%(v)s.b, %(v)s.cap) && __CPROVER_POINTER_OFFSET(%(v)s.b) == 0)))" % dict(v=v, M=MAXS)
    def sharness(o, cap="nondet_ulong()"):
        return """
  unsigned long in_n_%(o)s = nondet_ulong(), in_cap_%(o)s = %(cap)s; __CPROVER_assume(in_n_%(o)s <= in_cap_%(o)s && in_cap_%(o)s <= %(M)s);
  %(o)s.b = in_cap_%(o)s ? (char *)verif_malloc(in_cap_%(o)s) : 0; %(o)s.n = in_n_%(o)s; %(o)s.cap = in_cap_%(o)s;
""" % dict(o=o, M=MAXS, cap=cap)
    def chars(o, tag):
        return "".join("  char in_%s%d = nondet_char(); if (%d < in_cap_%s) %s.b[%d] = in_%s%d;\n" % (tag, k, k, o, o, k, tag, k) for k in range(4))
    PREFIX_REPLAY = """
int main()
{
  unsigned long na = IN_in_n_o_%(a)s, nb = IN_in_n_o_%(b)s;
  const char ca[] = {IN_in_a0, IN_in_a1, IN_in_a2, IN_in_a3}, cb[] = {IN_in_b0, IN_in_b1, IN_in_b2, IN_in_b3};
  if (na > 4 || nb > 4) { printf("REPLAY RESULT: not reproduced (the counterexample's strings are longer than the 4 characters the harness exposes)\\n"); return 0; }
  std::string a(ca, na), b(cb, nb);
  bool got = rkcommon::utility::beginsWith(a, b);
  bool want = nb <= na && a.compare(0, nb, b) == 0;
  std::string m = rkcommon::utility::longestBeginningMatch(a, b);
  unsigned long k = 0; while (k < na && k < nb && a[k] == b[k]) k++;
  bool ok = got == want && m == a.substr(0, k);
  printf("beginsWith(len %%lu, len %%lu) = %%d, prefix relation says %%d; longestBeginningMatch has length %%lu, common prefix %%lu\\n", na, nb, (int)got, (int)want, (unsigned long)m.size(), k);
  printf("REPLAY RESULT: %%s\\n", ok ? "not reproduced" : "violation reproduced on real code");
  return ok ? 0 : 1;
}
"""
    pre = sharness("o_@0") + sharness("o_@1") + chars("o_@0", "a") + chars("o_@1", "b") + "  verif_gi = nondet_ulong(); verif_gj = nondet_ulong(); verif_hi = nondet_ulong(); verif_hj = nondet_ulong(); verif_mm = nondet_ulong();\n"
    pre_short = sharness("o_@0", "4ul") + sharness("o_@1", "4ul") + chars("o_@0", "a") + chars("o_@1", "b") + pre[pre.index("  verif_gi"):]
    A, Bs = "(*$0)", "(*$1)"
    S.fn("s_longestBeginningMatch", pre_call=pre, requires=[SINV(A), SINV(Bs)], noalias=True, assigns=["verif_mm"], apply_loops=True, replay_native=PREFIX_REPLAY % dict(a="first", b="second"), ensures={
        "result_owns_a_fresh_block": "(RET.cap == 0 && RET.b == 0) || (RET.cap > 0 && __CPROVER_is_fresh(RET.b, RET.cap))",
        "result_is_a_common_prefix": "RET.n <= RET.cap && RET.cap <= %s && RET.n <= $0->n && RET.n <= $1->n && IMP(verif_gi < RET.n, RET.b[verif_gi] == $0->b[verif_gi] && $0->b[verif_gi] == $1->b[verif_gi])" % MAXS,
        "result_is_the_longest_common_prefix": "RET.n == $0->n || RET.n == $1->n || $0->b[RET.n] != $1->b[RET.n]",
        "ghost_witness_is_the_first_difference": "verif_mm == RET.n"})
    S.fn("s_beginsWith", pre_call=pre, requires=[SINV(A), SINV(Bs)], noalias=True, assigns=["verif_mm"], apply_loops="auto", replay_native=PREFIX_REPLAY % dict(a="inputString", b="startsWithString"), ensures={
        "true_only_for_a_prefix": "IMP(RET, $1->n <= $0->n && IMP(verif_gi < $1->n, $0->b[verif_gi] == $1->b[verif_gi]))",
        "a_prefix_is_always_recognised": "IMP($1->n <= $0->n && verif_hi == verif_mm && IMP(verif_hi < $1->n, $0->b[verif_hi] == $1->b[verif_hi]), RET)"})
    def lcp(k):
        return "0ul" if k == 4 else "((%d < $0->n && %d < $1->n && $0->b[%d] == $1->b[%d]) ? 1ul + %s : 0ul)" % (k, k, k, k, lcp(k + 1))
    # the same contracts on strings of at most 4 fully exposed characters: counterexamples of these variants replay natively
    S.fn("s_longestBeginningMatch", variant="short", pre_call=pre_short, requires=[SINV(A), SINV(Bs)], noalias=True, assigns=["verif_mm"], unwind=6, replay_native=PREFIX_REPLAY % dict(a="first", b="second"), ensures={
        "result_owns_a_fresh_block": "(RET.cap == 0 && RET.b == 0) || (RET.cap > 0 && __CPROVER_is_fresh(RET.b, RET.cap))",
        "result_is_a_common_prefix": "RET.n <= RET.cap && RET.cap <= %s && RET.n <= $0->n && RET.n <= $1->n && IMP(verif_gi < RET.n, RET.b[verif_gi] == $0->b[verif_gi] && $0->b[verif_gi] == $1->b[verif_gi])" % MAXS,
        "result_is_the_longest_common_prefix": "RET.n == $0->n || RET.n == $1->n || $0->b[RET.n] != $1->b[RET.n]",
        "exactly_the_length_of_the_common_prefix": "RET.n == " + lcp(0),
        "ghost_witness_is_the_first_difference": "verif_mm == RET.n"})
    S.fn("s_beginsWith", variant="short", pre_call=pre_short, requires=[SINV(A), SINV(Bs)], noalias=True, assigns=["verif_mm"], unwind=6, inline=["s_longestBeginningMatch"], replay_native=PREFIX_REPLAY % dict(a="inputString", b="startsWithString"), ensures={
        "true_only_for_a_prefix": "IMP(RET, $1->n <= $0->n && IMP(verif_gi < $1->n, $0->b[verif_gi] == $1->b[verif_gi]))",
        "exactly_the_prefix_relation": "RET == (" + " && ".join(["$1->n <= $0->n"] + ["(%d >= $1->n || $0->b[%d] == $1->b[%d])" % (k, k, k) for k in range(4)]) + ")"})
    # ---- FileName: BOUNDED exact check against specification functions written from the property (include/c18_filename_spec.h)
    import os as _os
    SPEC_H = _os.path.join(_os.path.dirname(_os.path.dirname(_os.path.abspath(__file__))), "include", "c18_filename_spec.h")
    NA, NB2 = (8, 4) if _os.environ.get("VERIF_TIER_EFFECTIVE") == "thorough" else (6, 3)
    FCAP = NA + NB2 + 2          # longest string any operation can produce (left + '/' + right), plus one
    F = Unit("c18_filename", "units/c18_filename.cpp", helpers="#define RS_CAP %d\n" % FCAP + open(SPEC_H).read(), opts=dict(tracked_vec=True, tracked_str=True, bounded_str=FCAP))
    def fharness(o, tag, nmax):
        return ("  unsigned long in_n%(t)s = nondet_ulong(); __CPROVER_assume(in_n%(t)s <= %(m)d);\n"
                "  %(o)s.n = in_n%(t)s; %(o)s.cap = %(c)d;\n" % dict(o=o, t=tag, m=nmax, c=FCAP)
                + "".join("  char in_%s%d = nondet_char(); %s.b[%d] = in_%s%d;\n" % (tag, k, o, k, tag, k) for k in range(nmax)))
    def FINV(v, nmax):
        return "(%(v)s.n <= %(m)d)" % dict(v=v, m=nmax)
    RS = lambda v: "rs_make(%s.b, %s.n)" % (v, v)
    SELF = "$0->filename"
    REPLAY = """
#define RS_CAP %(cap)d
#include "%(spec)s"
int main()
{
  const char ca[] = {%(ca)s}, cb[] = {%(cb)s};
  std::string a(ca, (size_t)IN_in_na), b(cb, (size_t)IN_in_nb);
  rkcommon::FileName f, g; f.filename = a; g.filename = b;
  std::string got = %(call)s;
  rs want = %(want)s;
  bool ok = rs_same(want, got.data(), got.size());
  printf("%(what)s of \\"%%s\\"%(arg)s: got \\"%%s\\", the property's decomposition gives \\"%%.*s\\"\\n", a.c_str(), %(argv)s got.c_str(), (int)want.n, want.c);
  printf("REPLAY RESULT: %%s\\n", ok ? "not reproduced" : "violation reproduced on real code");
  return ok ? 0 : 1;
}
"""
    def replay(call, want, what, witharg=False):
        return REPLAY % dict(ca=", ".join("IN_in_a%d" % k for k in range(NA)), cb=", ".join("IN_in_b%d" % k for k in range(NB2)), cap=FCAP, spec=SPEC_H, call=call, want=want, what=what, arg=(' with \\"%s\\"' if witharg else ""), argv=("b.c_str()," if witharg else ""))
    A_ = "rs_make(a.data(), a.size())"
    B_ = "rs_make(b.data(), b.size())"
    one = dict(pre_call=fharness("o_@0.filename", "a", NA), requires=[FINV(SELF, NA), "__verif_exc == 0"], assigns=["__verif_exc"], unwind=FCAP + 2, timeout=600, inline=["fn_ctor_str"], solver=["--sat-solver", "cadical"])
    for (nm, spec, call) in (("fn_path", "spec_path", "f.path()"), ("fn_base", "spec_base", "f.base()"), ("fn_ext", "spec_ext", "f.ext()"), ("fn_name", "spec_name", "f.name()")):
        F.fn(nm, replay_native=replay(call, "%s(%s)" % (spec, A_), nm[3:] + "()"), ensures={
            nm[3:] + "_is_the_decomposition_the_property_states": "__verif_exc == 0 && rs_same(%s(%s), RET.b, RET.n)" % (spec, RS(SELF))}, **one)
    F.fn("fn_dropExt", replay_native=replay("f.dropExt().filename", "spec_dropExt(%s)" % A_, "dropExt()"), ensures={
        "dropExt_removes_the_extension_of_the_last_component_only": "__verif_exc == 0 && rs_same(spec_dropExt(%s), RET.filename.b, RET.filename.n)" % RS(SELF)}, **one)
    two = dict(one, pre_call=fharness("o_@0.filename", "a", NA) + fharness("o_@1", "b", NB2), requires=[FINV(SELF, NA), FINV("(*$1)", NB2), "__verif_exc == 0"], noalias=True)
    F.fn("fn_setExt", replay_native=replay("f.setExt(b).filename", "spec_setExt(%s, %s)" % (A_, B_), "setExt()", True), ensures={
        "setExt_replaces_the_extension_of_the_last_component": "__verif_exc == 0 && rs_same(spec_setExt(%s, %s), RET.filename.b, RET.filename.n)" % (RS(SELF), RS("(*$1)"))}, **two)
    F.fn("fn_addExt", replay_native=replay("f.addExt(b).filename", "spec_addExt(%s, %s)" % (A_, B_), "addExt()", True), ensures={
        "addExt_appends": "__verif_exc == 0 && rs_same(spec_addExt(%s, %s), RET.filename.b, RET.filename.n)" % (RS(SELF), RS("(*$1)"))}, **two)
    twof = dict(one, pre_call=fharness("o_@0.filename", "a", NA) + fharness("o_@1.filename", "b", NB2), requires=[FINV(SELF, NA), FINV("$1->filename", NB2), "__verif_exc == 0"], noalias=True)
    F.fn("fn_plus", replay_native=replay("(f + g).filename", "spec_plus(%s, %s)" % (A_, B_), "operator+", True), ensures={
        "plus_joins_with_one_separator_and_an_empty_left_side_is_neutral": "__verif_exc == 0 && rs_same(spec_plus(%s, %s), RET.filename.b, RET.filename.n)" % (RS(SELF), RS("$1->filename"))}, **twof)
    F.fn("fn_plus_str", replay_native=replay("(f + b).filename", "spec_plus(%s, rs_norm(%s))" % (A_, B_), "operator+(string)", True), ensures={
        "plus_with_a_string_is_plus_with_the_file_name_made_from_it": "__verif_exc == 0 && rs_same(spec_plus(%s, rs_norm(%s)), RET.filename.b, RET.filename.n)" % (RS(SELF), RS("(*$1)"))}, **dict(two, inline=["fn_ctor_str", "fn_plus"]))
    F.fn("fn_ctor_str", pre_call=fharness("o_@1", "a", NA), requires=[FINV("(*$1)", NA), "__verif_exc == 0"], assigns=["*$0", "__verif_exc"], noalias=True, unwind=FCAP + 2, timeout=600, solver=["--sat-solver", "cadical"],
         replay_native=replay("rkcommon::FileName(a).filename", "rs_norm(%s)" % A_, "FileName(string)"), ensures={
        "constructor_normalises_separators_and_drops_trailing_ones": "__verif_exc == 0 && rs_same(rs_norm(%s), $0->filename.b, $0->filename.n)" % RS("(*$1)"),
        "constructed_name_fits": "$0->filename.n <= %d" % FCAP})
    F.fn("fn_eq", replay_native=None, ensures={"equality_is_string_equality": "RET == (rs_same(%s, $1->filename.b, $1->filename.n) != 0)" % RS(SELF)}, **twof)
    # ---- tokenize / split(delimiter set): BOUNDED exact check against a specification function (include/c18_tokens_spec.h)
    TSPEC_H = _os.path.join(_os.path.dirname(SPEC_H), "c18_tokens_spec.h")
    TN = 7 if _os.environ.get("VERIF_TIER_EFFECTIVE") == "thorough" else 5      # characters in the input string
    TCAP, TTOK = TN + 2, TN + 2
    thelp = ("#define TS_CAP %d\n#define TS_MAXTOK %d\n#define TS_PTR(v, k) ((v)[k].b)\n#define TS_LEN(v, k) ((v)[k].n)\n" % (TCAP, TTOK) + open(TSPEC_H).read()
             + "static _Bool toks_ok(toks want, std_basic_string_char *v, unsigned long cnt) { _Bool res; TOKS_SAME(res, want, v, cnt); return res; }\n")
    T = Unit("c18_tokens", "units/c18_tokens.cpp", helpers=thelp, opts=dict(tracked_vec=True, tracked_str=True, bounded_str=TCAP, bounded_vec=TTOK))
    def sh(o, tag, nmax):
        return ("  unsigned long in_n%(t)s = nondet_ulong(); __CPROVER_assume(in_n%(t)s <= %(m)d); %(o)s.n = in_n%(t)s; %(o)s.cap = %(c)d;\n" % dict(o=o, t=tag, m=nmax, c=TCAP)
                + "".join("  char in_%s%d = nondet_char(); %s.b[%d] = in_%s%d;\n" % (tag, k, o, k, tag, k) for k in range(nmax)))
    TREPLAY = """
#define TS_CAP %(cap)d
#define TS_MAXTOK %(tok)d
#define TS_PTR(v, k) ((v)[k].data())
#define TS_LEN(v, k) ((v)[k].size())
#include "%(spec)s"
int main()
{
  const char ca[] = {%(ca)s, 0}, cb[] = {%(cb)s, 0};
  std::string a(ca, (size_t)IN_in_na), d(cb, (size_t)(%(nb)s));
  std::vector<std::string> got;
  %(call)s
  toks want = spec_tokens(a.data(), a.size(), d.data(), d.size(), %(keep)s);
  bool ok; TOKS_SAME(ok, want, got, got.size());
  printf("%(what)s of \\"%%s\\" on \\"%%s\\": got %%lu token(s):", a.c_str(), d.c_str(), (unsigned long)got.size());
  for (auto &t : got) printf(" [%%s]", t.c_str());
  printf("; the property gives %%lu:", want.n);
  for (unsigned long k = 0; k < want.n && k < TS_MAXTOK; k++) printf(" [%%.*s]", (int)want.t[k].n, want.t[k].c);
  printf("\\nREPLAY RESULT: %%s\\n", ok ? "not reproduced" : "violation reproduced on real code");
  return ok ? 0 : 1;
}
"""
    CA = ", ".join("IN_in_a%d" % k for k in range(TN))
    T.fn("t_tokenize", pre_call=sh("o_@0", "a", TN) + "  o_@2.n = 0; o_@2.cap = %d;\n" % TTOK, noalias=True, requires=["$0->n <= %d" % TN, "$2->n == 0", "__verif_exc == 0"], assigns=["*$2", "__verif_exc"],
         unwind=TCAP + 2, timeout=600, solver=["--sat-solver", "cadical"],
         replay_native=TREPLAY % dict(cap=TCAP, tok=TTOK, spec=TSPEC_H, ca=CA, cb="(char)IN_in_delim", nb="1", keep="0", what="tokenize", call="rkcommon::utility::tokenize(a, d[0], got);"),
         ensures={"tokenize_appends_exactly_the_non_empty_tokens_in_order": "__verif_exc == 0 && toks_ok(spec_tokens($0->b, $0->n, &$1, 1, 0), $2->b, $2->n)"})
    # split on one character (std::getline on a string stream): the NON-EMPTY tokens are exactly the maximal runs of non-delimiter
    # characters in order (getline also yields empty tokens between adjacent delimiters; the property speaks about the non-empty ones)
    T.helpers += """
static _Bool nonempty_toks_ok(toks want, std_basic_string_char *v, unsigned long cnt, char delim)
{
  unsigned long k, j = 0, a;
  for (k = 0; k < cnt && k < TS_MAXTOK + 3; k++)
  {
    for (a = 0; a < v[k].n && a < TS_CAP; a++) if (v[k].b[a] == delim) return 0;          /* no token contains the delimiter */
    if (v[k].n == 0) continue;
    if (j >= want.n || j >= TS_MAXTOK || want.t[j].n != v[k].n) return 0;
    for (a = 0; a < v[k].n && a < TS_CAP; a++) if (want.t[j].c[a] != v[k].b[a]) return 0;
    j++;
  }
  return j == want.n;
}
static _Bool case_ok(std_basic_string_char *r, std_basic_string_char *s, int upper)
{
  unsigned long i; if (r->n != s->n) return 0;
  for (i = 0; i < s->n && i < TS_CAP; i++) { char c = s->b[i]; char w = upper ? ((c >= 'a' && c <= 'z') ? (char)(c - 'a' + 'A') : c) : ((c >= 'A' && c <= 'Z') ? (char)(c - 'A' + 'a') : c); if (r->b[i] != w) return 0; }
  return 1;
}
"""
    T.fn("t_split_char", pre_call=sh("o_@0", "a", TN), requires=["$0->n <= %d" % TN, "__verif_exc == 0"], assigns=["__verif_exc"], unwind=TCAP + 3, timeout=600, solver=["--sat-solver", "cadical"],
         replay_native=TREPLAY % dict(cap=TCAP, tok=TTOK, spec=TSPEC_H, ca=CA, cb="(char)IN_in_delim", nb="1", keep="0", what="split(char), non-empty tokens,",
                                      call="{ std::vector<std::string> all = rkcommon::utility::split(a, d[0]); for (auto &t : all) if (!t.empty()) got.push_back(t); }"),
         ensures={"split_on_a_character_yields_exactly_the_non_empty_tokens_in_order": "__verif_exc == 0 && nonempty_toks_ok(spec_tokens($0->b, $0->n, &$1, 1, 0), RET.b, RET.n, $1)"})
    T.fn("t_lowerCase", pre_call=sh("o_@0", "a", TN), requires=["$0->n <= %d" % TN, "__verif_exc == 0"], assigns=["__verif_exc"], unwind=TCAP + 3, ensures={"lowerCase_maps_exactly_the_ASCII_capitals": "__verif_exc == 0 && case_ok(&RET, $0, 0)"})
    T.fn("t_upperCase", pre_call=sh("o_@0", "a", TN), requires=["$0->n <= %d" % TN, "__verif_exc == 0"], assigns=["__verif_exc"], unwind=TCAP + 3, ensures={"upperCase_maps_exactly_the_ASCII_small_letters": "__verif_exc == 0 && case_ok(&RET, $0, 1)"})
    T.fn("t_split_set", pre_call=sh("o_@0", "a", TN) + sh("o_@1", "b", 2), noalias=True, requires=["$0->n <= %d" % TN, "$1->n <= 2", "__verif_exc == 0"], assigns=["__verif_exc"],
         unwind=TCAP + 2, timeout=600, solver=["--sat-solver", "cadical"],
         replay_native=TREPLAY % dict(cap=TCAP, tok=TTOK, spec=TSPEC_H, ca=CA, cb="IN_in_b0, IN_in_b1", nb="IN_in_nb", keep="(int)IN_in_keepDelim", what="split", call="got = rkcommon::utility::split(a, d, (bool)IN_in_keepDelim);"),
         ensures={"split_returns_exactly_the_non_empty_tokens_in_order": "__verif_exc == 0 && toks_ok(spec_tokens($0->b, $0->n, $1->b, $1->n, $2), RET.b, RET.n)"})
    # ---- PseudoURL: BOUNDED exact check of the constructor against the documented format, getValue (last duplicate wins), hasParam
    USPEC_H = _os.path.join(_os.path.dirname(SPEC_H), "c18_url_spec.h")
    UN = 9 if _os.environ.get("VERIF_TIER_EFFECTIVE") == "thorough" else 7
    UCAP, UTOK = UN + 1, (UN + 1) // 2 + 1
    uhelp = ("#define TS_CAP %d\n#define TS_MAXTOK %d\n#define TS_PTR(v, k) ((v)[k].b)\n#define TS_LEN(v, k) ((v)[k].n)\n" % (UCAP, UTOK) + open(TSPEC_H).read() + open(USPEC_H).read() + """
static _Bool url_ok(urlspec w, PseudoURL *u)
{
  unsigned long k;
  if (!ts_eq_buf(w.type, u->type.b, u->type.n) || !ts_eq_buf(w.file, u->fileName.b, u->fileName.n) || w.nparams != u->params.n) return 0;
  for (k = 0; k < w.nparams && k < TS_MAXTOK; k++)
    if (!ts_eq_buf(w.name[k], u->params.b[k].first.b, u->params.b[k].first.n) || !ts_eq_buf(w.value[k], u->params.b[k].second.b, u->params.b[k].second.n)) return 0;
  return 1;
}
static _Bool str_same(std_basic_string_char *a, std_basic_string_char *b) { unsigned long i; if (a->n != b->n) return 0; for (i = 0; i < a->n && i < TS_CAP; i++) if (a->b[i] != b->b[i]) return 0; return 1; }
/* index of the LAST parameter with that name, or -1 (k is concrete in every unwound iteration: see DESIGN.md 14.3) */
static long last_param(PseudoURL *u, std_basic_string_char *name) { long k, r = -1; for (k = 0; k < (long)u->params.n && k < TS_MAXTOK; k++) if (str_same(&u->params.b[k].first, name)) r = k; return r; }
/* r is the value of the LAST parameter with that name */
static _Bool is_last_value(std_basic_string_char *r, PseudoURL *u, std_basic_string_char *name) { long k; _Bool ok = 0; for (k = 0; k < (long)u->params.n && k < TS_MAXTOK; k++) if (str_same(&u->params.b[k].first, name)) ok = str_same(r, &u->params.b[k].second); return ok; }
""")
    W = Unit("c18_url", "units/c18_url.cpp", helpers=uhelp, opts=dict(tracked_vec=True, tracked_str=True, bounded_str=UCAP, bounded_vec=UTOK))
    def ush(o, tag, nmax):
        return ("  unsigned long in_n%(t)s = nondet_ulong(); __CPROVER_assume(in_n%(t)s <= %(m)d); %(o)s.n = in_n%(t)s; %(o)s.cap = %(c)d;\n" % dict(o=o, t=tag, m=nmax, c=UCAP)
                + "".join("  char in_%s%d = nondet_char(); %s.b[%d] = in_%s%d;\n" % (tag, k, o, k, tag, k) for k in range(nmax)))
    UREPLAY = """
#define TS_CAP %(cap)d
#define TS_MAXTOK %(tok)d
#define TS_PTR(v, k) ((v)[k].data())
#define TS_LEN(v, k) ((v)[k].size())
#include "%(tspec)s"
#include "%(uspec)s"
int main()
{
  const char ca[] = {%(ca)s, 0};
  std::string a(ca, (size_t)IN_in_na);
  rkcommon::utility::PseudoURL u(a);
  urlspec w = spec_url(a.data(), a.size());
  bool ok = ts_eq_buf(w.type, u.type.data(), u.type.size()) && ts_eq_buf(w.file, u.fileName.data(), u.fileName.size()) && w.nparams == u.params.size();
  for (unsigned long k = 0; ok && k < w.nparams && k < TS_MAXTOK; k++)
    ok = ts_eq_buf(w.name[k], u.params[k].first.data(), u.params[k].first.size()) && ts_eq_buf(w.value[k], u.params[k].second.data(), u.params[k].second.size());
  printf("PseudoURL(\\"%%s\\"): type [%%s] file [%%s] %%lu parameter(s):", a.c_str(), u.type.c_str(), u.fileName.c_str(), (unsigned long)u.params.size());
  for (auto &p : u.params) printf(" [%%s]=[%%s]", p.first.c_str(), p.second.c_str());
  printf("; the format gives type [%%.*s] file [%%.*s] %%lu parameter(s):", (int)w.type.n, w.type.c, (int)w.file.n, w.file.c, w.nparams);
  for (unsigned long k = 0; k < w.nparams && k < TS_MAXTOK; k++) printf(" [%%.*s]=[%%.*s]", (int)w.name[k].n, w.name[k].c, (int)w.value[k].n, w.value[k].c);
  printf("\\nREPLAY RESULT: %%s\\n", ok ? "not reproduced" : "violation reproduced on real code");
  return ok ? 0 : 1;
}
""" % dict(cap=UCAP, tok=UTOK, tspec=TSPEC_H, uspec=USPEC_H, ca=", ".join("IN_in_a%d" % k for k in range(UN)))
    W.fn("pu_ctor", pre_call=ush("o_@1", "a", UN), noalias=True, requires=["$1->n <= %d" % UN, "__verif_exc == 0"], assigns=["*$0", "__verif_exc"], unwind=UCAP + 2, timeout=1800, solver=["--sat-solver", "cadical"],
         replay_native=UREPLAY, ensures={"constructor_parses_type_file_and_parameters_as_the_format_states": "__verif_exc == 0 && url_ok(spec_url($1->b, $1->n), $0)"})
    # accessors on an arbitrary parsed state: at most 3 parameters with names/values of at most 2 characters
    def upre():
        t = "  unsigned long in_np = nondet_ulong(); __CPROVER_assume(in_np <= 3); o_@0.params.n = in_np; o_@0.params.cap = %d;\n" % UTOK
        for k in range(3):
            for f in ("first", "second"):
                t += "  { unsigned long l = nondet_ulong(); __CPROVER_assume(l <= 2); o_@0.params.b[%d].%s.n = l; o_@0.params.b[%d].%s.b[0] = nondet_char(); o_@0.params.b[%d].%s.b[1] = nondet_char(); }\n" % (k, f, k, f, k, f)
        t += "  { unsigned long l = nondet_ulong(); __CPROVER_assume(l <= 2); o_@0.type.n = l; l = nondet_ulong(); __CPROVER_assume(l <= 2); o_@0.fileName.n = l; }\n"
        return t
    UREQ = ["$0->params.n <= 3 && $0->type.n <= 2 && $0->fileName.n <= 2", "__verif_exc == 0"] + ["$0->params.b[%d].first.n <= 2 && $0->params.b[%d].second.n <= 2" % (k, k) for k in range(3)]
    acc = dict(unwind=UCAP + 2, timeout=600, solver=["--sat-solver", "cadical"], noalias=True)
    W.fn("pu_getType", pre_call=upre(), requires=UREQ, assigns=["__verif_exc"], ensures={"getType_returns_the_parsed_type": "__verif_exc == 0 && str_same(&RET, &$0->type)"}, **acc)
    W.fn("pu_getFileName", pre_call=upre(), requires=UREQ, assigns=["__verif_exc"], ensures={"getFileName_returns_the_parsed_file_name": "__verif_exc == 0 && str_same(&RET, &$0->fileName)"}, **acc)
    W.fn("pu_getValue", pre_call=upre() + ush("o_@1", "b", 2), requires=UREQ + ["$1->n <= 2"], assigns=["__verif_exc"], ensures={
        "getValue_throws_exactly_for_an_unknown_name": "(__verif_exc != 0) == (last_param($0, $1) < 0) && IMP(__verif_exc != 0, __verif_exc == EXC_std_runtime_error)",
        "getValue_returns_the_value_of_the_last_parameter_with_that_name": "IMP(__verif_exc == 0, is_last_value(&RET, $0, $1))"}, **acc)
    W.fn("pu_hasParam", pre_call=upre() + ush("o_@1", "b", 2), requires=UREQ + ["$1->n <= 2"], assigns=["__verif_exc"], ensures={
        "hasParam_iff_some_parameter_has_that_name": "__verif_exc == 0 && RET == (last_param($0, $1) >= 0)"}, **acc)
    # ---- ArgumentList / ArgumentsParser::parseAndRemove: BOUNDED exact checks (at most 4 arguments of at most 2 characters)
    AN, AS = 4, 2
    VS = "std_vector_std_basic_string_char"
    ahelp = """
%(VS)s g_old;    /* ghost: the argument list on entry */
static _Bool s_eq(std_basic_string_char *a, std_basic_string_char *b) { unsigned long i; if (a->n != b->n) return 0; for (i = 0; i < a->n && i < %(SC)d; i++) if (a->b[i] != b->b[i]) return 0; return 1; }
static _Bool v_eq(%(VS)s *a, %(VS)s *b) { unsigned long k; if (a->n != b->n) return 0; for (k = 0; k < a->n && k < %(VC)d; k++) if (!s_eq(&a->b[k], &b->b[k])) return 0; return 1; }
/* exactly the arguments outside [where, where+howMany) remain, in their original order */
static _Bool removed_ok(%(VS)s *old, %(VS)s *now, long where, long howMany)
{
  unsigned long k, j = 0;
  for (k = 0; k < old->n && k < %(VC)d; k++) { if ((long)k >= where && (long)k < where + howMany) continue; if (j >= now->n || !s_eq(&old->b[k], &now->b[j])) return 0; j++; }
  return j == now->n;
}
/* interface stub for the pure virtual ArgumentsParser::tryConsume: an argument starting with 'x' is consumed alone, one starting
 * with 'y' is consumed together with its successor (when there is one), everything else is not recognised */
static int consume_rule(%(VS)s *v, unsigned long k) { unsigned long q; for (q = 0; q < %(VC)d; q++) if (q == k && q < v->n) { if (v->b[q].n > 0 && v->b[q].b[0] == 'x') return 1; if (v->b[q].n > 0 && v->b[q].b[0] == 'y' && q + 1 < v->n) return 2; } return 0; }
unsigned g_try_calls;
int tryConsume_stub(ArgumentsParser *self, ArgumentList *argList, int argID) { g_try_calls++; __CPROVER_assert(argID >= 0 && (unsigned long)argID < argList->arg.n, "tryConsume is asked about an argument that exists"); return consume_rule(&argList->arg, (unsigned long)argID); }
/* what must remain: the unconsumed arguments of the ORIGINAL list, in order */
static _Bool parsed_ok(%(VS)s *old, %(VS)s *now)
{
  unsigned long k = 0, j = 0, q;
  for (q = 0; q < %(VC)d; q++) { if (k >= old->n) break; int c = consume_rule(old, k); if (c) { k += (unsigned long)c; continue; } if (j >= now->n || !s_eq(&old->b[k < %(VC)d ? k : 0], &now->b[j])) return 0; j++; k++; }
  return j == now->n;
}
""" % dict(VS=VS, SC=AS + 2, VC=AN + 1)
    A = Unit("c18_arglist", "units/c18_arglist.cpp", helpers=ahelp, opts=dict(tracked_vec=True, tracked_str=True, bounded_str=AS + 2, bounded_vec=AN + 1,
             virtual_models={"rkcommon::utility::ArgumentsParser::tryConsume": "tryConsume_stub"}, stub_bodies=["tryConsume_stub"]))
    A.stub("ArgumentsParser::tryConsume", "interface stub for the pure virtual: consumption decided by the first character of the argument ('x': itself, 'y': itself and its successor); asserts the index it is asked about exists")
    def apre(o):
        t = "  unsigned long in_n = nondet_ulong(); __CPROVER_assume(in_n <= %d); %s.arg.n = in_n; %s.arg.cap = %d;\n" % (AN, o, o, AN + 1)
        for k in range(AN):
            t += "  { unsigned long in_l%d = nondet_ulong(); __CPROVER_assume(in_l%d <= %d); %s.arg.b[%d].n = in_l%d; %s.arg.b[%d].cap = %d; char in_c%d0 = nondet_char(), in_c%d1 = nondet_char(); %s.arg.b[%d].b[0] = in_c%d0; %s.arg.b[%d].b[1] = in_c%d1; }\n" % (
                k, k, AS, o, k, k, o, k, AS + 2, k, k, o, k, k, o, k, k)
        return t + "  g_old = %s.arg; g_try_calls = 0;\n" % o
    AREQ = ["$0->arg.n <= %d" % AN, "v_eq(&g_old, &$0->arg)", "__verif_exc == 0"] + ["$0->arg.b[%d].n <= %d" % (k, AS) for k in range(AN)]
    acc = dict(unwind=AN + 4, timeout=600, solver=["--sat-solver", "cadical"])
    A.fn("al_size", pre_call=apre("o_@0"), requires=AREQ, assigns=[], ensures={"size_is_the_number_of_arguments_left": "RET == (int)$0->arg.n"}, **acc)
    A.fn("al_empty", pre_call=apre("o_@0"), requires=AREQ, assigns=[], ensures={"empty_iff_no_arguments_left": "RET == ($0->arg.n == 0)"}, **acc)
    A.fn("al_index", pre_call=apre("o_@0"), requires=AREQ, assigns=["__verif_exc"], ensures={
        "index_returns_a_copy_of_argument_i_or_throws_out_of_range": "($1 >= 0 && (unsigned long)$1 < $0->arg.n) ? (__verif_exc == 0 && s_eq(&RET, &g_old.b[$1 >= 0 && $1 < %d ? $1 : 0])) : (__verif_exc == EXC_std_out_of_range)" % (AN + 1),
        "list_unchanged": "v_eq(&g_old, &$0->arg)"}, **acc)
    A.fn("al_remove", pre_call=apre("o_@0"), requires=AREQ + ["$1 >= 0 && $2 >= 0 && (unsigned long)$1 + (unsigned long)$2 <= $0->arg.n"], assigns=["$0->arg", "__verif_exc"], ensures={
        "remove_keeps_exactly_the_other_arguments_in_order": "__verif_exc == 0 && removed_ok(&g_old, &$0->arg, $1, $2)"}, **acc)
    A.fn("ap_parseAndRemove", pre_call=apre("o_@1"), requires=[r.replace("$0", "$1") for r in AREQ] + ["g_try_calls == 0"], assigns=["$1->arg", "g_try_calls", "__verif_exc"], inline=["al_remove", "al_size"], noalias=True, ensures={
        "parseAndRemove_keeps_exactly_the_unconsumed_arguments_in_order": "__verif_exc == 0 && parsed_ok(&g_old, &$1->arg)"}, **acc)
    # argv: one NUL-terminated buffer per entry (separate one-dimensional arrays, terminator written at a concrete position)
    avpre = ("  __CPROVER_assume(in_ac >= 0 && in_ac <= %d);\n  static char *the_av[%d];\n" % (AN + 1, AN + 1)
             + "".join("  static char the_buf%d[3]; { unsigned long l = nondet_ulong(); __CPROVER_assume(l <= 2); char c0 = nondet_char(), c1 = nondet_char(); __CPROVER_assume(c0 != 0 && c1 != 0);"
                       " the_buf%d[0] = c0; the_buf%d[1] = c1; the_buf%d[2] = 0; if (l == 0) the_buf%d[0] = 0; if (l == 1) the_buf%d[1] = 0; the_av[%d] = the_buf%d; }\n" % (k, k, k, k, k, k, k, k) for k in range(AN + 1))
             + "  p_av = the_av;\n")
    A.fn("al_ctor", pre_call=avpre, requires=["$1 >= 0 && $1 <= %d" % (AN + 1), "__verif_exc == 0"], assigns=["*$0", "__verif_exc"], noalias=True, ptr_requires=False, post_call="""
  { unsigned long k; __CPROVER_assert(o_self.arg.n == (in_ac > 0 ? (unsigned long)in_ac - 1 : 0ul), "POST one argument per argv entry after the program name");
    for (k = 0; k + 1 < (unsigned long)in_ac && k < %d; k++) { __CPROVER_assert(std_basic_string_char_eq_cstr(&o_self.arg.b[k], the_av[k + 1]), "POST argument k is argv[k+1]"); } }
""" % AN, ensures={"constructor_never_throws": "__verif_exc == 0"}, **acc)
    return [U, S, F, T, W, A]
    reset = "  g_calls = 0; g_kind = 0; g_suffix = 0;\n"
    INR = "(dabs($0) >= 1e-15 && dabs($0) < 1e21)"
    U.fn("x_prettyDouble", pre_call=reset, requires=["g_calls == 0", "__verif_exc == 0"], assigns=GA + ["__verif_exc"], solver=["--sat-solver", "cadical"], timeout=900, ensures={
        "prints_exactly_once": "g_calls == 1",
        "mantissa_prints_between_1_and_1000": "IMP(%s, dabs(g_mant) >= 0.95 && dabs(g_mant) < 1000.05)" % INR,
        "suffix_multiplies_the_mantissa_back_to_the_input": "IMP(%s, dabs(g_mant * si_scale(g_suffix) - $0) <= 1e-6 * dabs($0))" % INR})
    return [U]


META = dict(
    technique='mixed: CBMC function/loop contracts (removeArgs, prefix helpers: unbounded), z3 real-arithmetic VCs (number formatting), CBMC bounded unwinding against specification functions written from the property (FileName, tokenize, split, PseudoURL, ArgumentList)',
    level="other",
    level_text="PARTIAL coverage of the statement; items (4), (5), (6) and (7) are BOUNDED exact checks. (4) FileName: the string constructor, path, base, ext, name, dropExt, setExt, addExt, operator+ (FileName and std::string right operands) and == are extracted and checked with CBMC (bounded unwinding) against specification functions written from the property (include/c18_filename_spec.h: dot and separator of the LAST component, normalisation of separators) for every name of at most 6 characters and every extension / right operand of at most 3 (8 / 4 thorough), arbitrary bytes. (5) tokenize, split(delimiter set, keepDelim), split(single character; std::getline on a bounded string-stream model: its non-empty tokens) and lowerCase/upperCase (ASCII letters) are checked the same way against 'exactly the maximal runs of non-delimiter characters, in order, one-character tokens included' for every string of at most 5 characters (7 thorough) and every delimiter (set of at most 2). (6) PseudoURL: the constructor is checked the same way against a specification function written from the documented format <type>://<file>[:name=value]* (first '://' ends the type, ':'-separated non-empty components, first '=' splits name from value) for every input of at most 7 characters (9 thorough); getType/getFileName return the parsed parts, getValue returns the value of the LAST parameter with the name and throws std::runtime_error exactly when there is none, hasParam is existence (parsed states with at most 3 parameters of at most 2+2 characters). (7) ArgumentList: the (argc, argv) constructor stores argv[1..] in order, operator[] returns a copy of argument i or throws std::out_of_range, size/empty, remove(where, howMany) keeps exactly the other arguments in order, and ArgumentsParser::parseAndRemove -- against an interface stub of the pure virtual tryConsume that consumes by the argument's first character -- keeps exactly the unconsumed arguments of the original list in order (lists of at most 4 arguments of at most 2 characters). (1) removeArgs is extracted from /repo and proved by CBMC (function contract + loop contract, any argc): the count drops by howMany, arguments before `where` are untouched and every later argument moves down by howMany in order (ghost positions). (2) prettyDouble and prettyNumber are extracted and decided by the math back end (z3 over the reals, float literals at their exact binary32 values, snprintf as a recording interface model): for every magnitude in [1e-15, 1e21) (prettyNumber: every size_t) the mantissa handed to the formatter lies in [0.95, 1000.05) -- i.e. prints as 1.0 .. 1000.0 -- and mantissa x 10^(suffix) equals the input within 1e-6 relative; plain numbers are printed unscaled. (3) longestBeginningMatch and beginsWith are extracted and proved by CBMC on a value-tracking std::string model for strings of ANY length up to 2^40: the result of longestBeginningMatch is a common prefix (ghost position), is the longest one, and beginsWith is true only for prefixes and true for every prefix; the same two functions are also checked EXACTLY (full prefix relation, exact common-prefix length) for strings of at most 4 characters with bounded unwinding, which yields natively replayable counterexamples.",
    level_note="NOT covered (unverified): FileName::operator-/canonical/homeFolder. The FileName and tokenize/split checks are BOUNDED (string lengths above; std::string and std::vector are bounded CODE models with inline storage, loops unwound with unwinding assertions) -- not proofs for longer strings. Floating point is treated as real arithmetic in (2) (rounding of the division and of %.1f is not modelled). std::string is a value-tracking MODEL; std::mismatch/std::equal/std::min are reference models; the string range constructor is an assumed contract instantiated at ghost positions. removeArgs is proved under its natural precondition 0 <= where, 0 <= howMany, where + howMany <= ac.",
    explanation="mixed: CBMC function/loop contracts (removeArgs, prefix helpers), z3 real arithmetic VCs (number formatting), bounded exact variants for replay",
    assumptions=["bounded std::string / std::vector code models (FileName, tokenize, split)", "snprintf recording interface model", "floating point treated as real arithmetic (prettyDouble/prettyNumber)", "std::string value-tracking model; std::mismatch/std::equal/std::min reference models", "string range constructor: assumed contract at ghost positions", "strings shorter than 2^40", "allocation never fails"],
    bounded=["FileName operations: names of at most 6 characters, extensions / right operands of at most 3 (8 / 4 thorough), unwind capacity+2", "tokenize / split(set): strings of at most 5 characters (7 thorough), delimiter sets of at most 2 characters, unwind capacity+2", "ArgumentList / parseAndRemove: at most 4 arguments of at most 2 characters", "PseudoURL: constructor inputs of at most 7 characters (9 thorough); accessors on at most 3 parameters with names/values of at most 2 characters", "s_beginsWith#short, s_longestBeginningMatch#short: strings of at most 4 characters, unwind 6 (exact specification; the unbounded variants carry the proof)"],
    unverified=["FileName::operator- / canonical / homeFolder", "decimal rendering of %.1f"],
)
