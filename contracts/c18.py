"""C18 (partial): removeArgs, prettyDouble/prettyNumber, longestBeginningMatch/beginsWith."""
from unit import Unit
from cxx2c import X, parse_type, Ty

STUBS = """
/* ASSUMED interface model of snprintf for the three call shapes of common.cpp: records the value and suffix handed to it. */
double g_mant; int g_suffix; int g_calls; unsigned long g_zu; int g_kind;   /* g_kind: 1 "%.1f%c", 2 "%f", 3 "%zu" */
int verif_snprintf_fc(char *buf, unsigned long n, const char *fmt, double m, int c) { __CPROVER_assert(__CPROVER_w_ok(buf, n), "snprintf is handed a writable buffer of the stated size"); g_mant = m; g_suffix = c; g_kind = 1; g_calls++; return 0; }
int verif_snprintf_f(char *buf, unsigned long n, const char *fmt, double m) { __CPROVER_assert(__CPROVER_w_ok(buf, n), "snprintf is handed a writable buffer of the stated size"); g_mant = m; g_suffix = 0; g_kind = 2; g_calls++; return 0; }
int verif_snprintf_zu(char *buf, unsigned long n, const char *fmt, unsigned long v) { __CPROVER_assert(__CPROVER_w_ok(buf, n), "snprintf is handed a writable buffer of the stated size"); g_zu = v; g_suffix = 0; g_kind = 3; g_calls++; return 0; }
/* the power of ten an SI suffix stands for */
static inline double si_scale(int c) { return c == 'E' ? 1e18 : c == 'P' ? 1e15 : c == 'T' ? 1e12 : c == 'G' ? 1e9 : c == 'M' ? 1e6 : c == 'k' ? 1e3 : c == 'm' ? 1e-3 : c == 'u' ? 1e-6 : c == 'n' ? 1e-9 : c == 'p' ? 1e-12 : c == 'f' ? 1e-15 : 1.0; }
static inline double dabs(double x) { return x < 0 ? -x : x; }
char **g_s_gi, **g_s_gj_unused; char *g_a_gi, *g_a_gj;   /* ghost: argv entries at verif_gi / verif_gj on entry */
"""
GA = ["g_mant", "g_suffix", "g_calls", "g_zu", "g_kind"]


def fmt_models():
    def snprintf(tr, fid, info, e, args, obj):
        tr.rule("snprintf -> recording interface model")
        if len(args) == 5:
            fn = "verif_snprintf_fc"
        else:
            t = tr.ety(args[3]).noref()
            fn = "verif_snprintf_f" if t.name in ("double", "float") else "verif_snprintf_zu"
        tr.cur.calls[fn] = True
        return X("call", fn, [tr.rv(a) for a in args], ty=parse_type("int"))
    return {"snprintf": snprintf}


def units():
    U = Unit("c18_args", "units/c18_args.cpp", stubs=STUBS, opts=dict(opaque_std=True, models=fmt_models()))
    U.stub("snprintf", "ASSUMED interface model: records the mantissa/suffix (or integer) it is asked to print; the decimal rendering itself (%.1f rounding) is libc's")
    # ---- removeArgs: the remaining arguments are exactly the unconsumed ones, in their original order
    AV = "(*$1)"
    pre = """
  __CPROVER_assume(in_ac >= 0);
  char **the_av = in_ac ? (char **)verif_malloc((unsigned long)in_ac * sizeof(char *)) : 0; o_av = the_av;
  verif_gi = nondet_ulong(); verif_gj = nondet_ulong();
  if (verif_gi < (unsigned long)in_ac) g_a_gi = the_av[verif_gi];
  if (verif_gj < (unsigned long)in_ac) g_a_gj = the_av[verif_gj];
"""
    AC0 = "__CPROVER_old(*$0)"
    U.fn("x_removeArgs", pre_call=pre,
         requires=["*$0 >= 0 && $2 >= 0 && $3 >= 0 && $2 <= *$0 && $3 <= *$0 - $2", "*$0 == 0 || __CPROVER_rw_ok(%s, (unsigned long)*$0 * sizeof(char *))" % AV,
                   "!__CPROVER_same_object($0, %s) && !__CPROVER_same_object($1, %s) && !__CPROVER_same_object($0, $1)" % (AV, AV),
                   "IMP(verif_gi < (unsigned long)*$0, %s[verif_gi] == g_a_gi)" % AV, "IMP(verif_gj < (unsigned long)*$0, %s[verif_gj] == g_a_gj)" % AV],
         assigns=["*$0", "__CPROVER_object_whole(%s)" % AV],
         loops={1: dict(assigns=["i", "__CPROVER_object_whole(*av)"],
                        invariant=["where + howMany <= i && i <= *ac", "IMP(verif_gi < (unsigned long)where, (*av)[verif_gi] == g_a_gi)",
                                   "IMP(verif_gj >= (unsigned long)(i - howMany) && verif_gj < (unsigned long)*ac, (*av)[verif_gj] == g_a_gj)",
                                   "IMP(verif_gi >= (unsigned long)where && verif_gi < (unsigned long)(i - howMany) && verif_gj == verif_gi + (unsigned long)howMany, (*av)[verif_gi] == g_a_gj)"],
                        decreases="*ac - i")},
         ensures={"count_drops_by_howMany": "*$0 == %s - $3" % AC0,
                  "arguments_before_where_are_untouched": "IMP(verif_gi < (unsigned long)$2, %s[verif_gi] == g_a_gi)" % AV,
                  "arguments_after_the_removed_block_move_down_in_order": "IMP(verif_gi >= (unsigned long)$2 && verif_gi < (unsigned long)*$0 && verif_gj == verif_gi + (unsigned long)$3, %s[verif_gi] == g_a_gj)" % AV,
                  "argv_pointer_itself_unchanged": "%s == __CPROVER_old(%s)" % (AV, AV)})
    # ---- prettyDouble / prettyNumber: decided by the math back end (z3 over the reals: machine floating point treated as
    #      mathematical); the snprintf model records (mantissa, suffix) under the path condition
    import z3
    def rec(kind):
        def m(ev, st, buf, n, fmt, v, c=None):
            g = ev.globals.id
            st.heap[(g, "g_mant")] = v
            st.heap[(g, "g_suffix")] = c if c is not None else ev.num(0)
            st.heap[(g, "g_kind")] = ev.num(kind)
            st.heap[(g, "g_calls")] = st.heap.get((g, "g_calls"), ev.num(0)) + 1
            return ev.num(0)
        return m
    MODELS = {"verif_snprintf_fc": rec(1), "verif_snprintf_f": rec(2), "verif_snprintf_zu": rec(3)}
    SCALES = {'E': 18, 'P': 15, 'T': 12, 'G': 9, 'M': 6, 'k': 3, 'm': -3, 'u': -6, 'n': -9, 'p': -12, 'f': -15}
    def zabs(x):
        return z3.If(x < 0, -x, x)
    def P10(e):
        return z3.RealVal(10) ** e if e >= 0 else 1 / (z3.RealVal(10) ** (-e))
    def in_range(a, lo, hi):
        return z3.And(a >= P10(lo), a < P10(hi))
    def mant_ok(P, RET, Q, G, lo=-15, hi=21):
        v = P[0]
        return z3.Implies(z3.And(in_range(zabs(v), lo, hi), G["g_kind"] == 1), z3.And(zabs(G["g_mant"]) >= z3.RealVal("0.95"), zabs(G["g_mant"]) < z3.RealVal("1000.05")))
    def scale_ok(P, RET, Q, G, lo=-15, hi=21):
        v = P[0]
        cs = [z3.Implies(G["g_suffix"] == ord(c), zabs(G["g_mant"] * P10(e) - v) <= z3.RealVal("0.000001") * zabs(v)) for c, e in SCALES.items()]
        known = z3.Or(*[G["g_suffix"] == ord(c) for c in SCALES])
        return z3.Implies(z3.And(in_range(zabs(v), lo, hi), G["g_kind"] == 1), z3.And(known, *cs))
    def plain_ok(P, RET, Q, G, lo=-15, hi=21):
        v = P[0]
        return z3.And(G["g_calls"] == 1, z3.Implies(G["g_kind"] == 2, z3.And(G["g_mant"] == v, zabs(v) > 1, zabs(v) < 1000)), z3.Implies(G["g_kind"] == 3, z3.And(G["g_mant"] == v, v < 1000)))
    PRETTY_REPLAY = """
static double scale_of(char c) { const char *s = "EPTGMkmunpf"; const double e[] = {1e18,1e15,1e12,1e9,1e6,1e3,1e-3,1e-6,1e-9,1e-12,1e-15}; for (int i = 0; s[i]; i++) if (s[i] == c) return e[i]; return 1.0; }
int main()
{
  double v = IN_in_%(param)s;
  std::string s = rkcommon::%(fn)s(%(arg)s);
  char *end = 0; double m = strtod(s.c_str(), &end); char suf = *end;
  double sc = scale_of(suf);
  bool mant_ok = !suf || (std::fabs(m) >= 1.0 && std::fabs(m) <= 1000.0);
  bool back_ok = std::fabs(m * sc - v) <= (suf ? 0.0500001 * sc : 1e-5 * std::fabs(v) + 1e-6);
  printf("%(fn)s(%%.17g) = \\"%%s\\": mantissa %%g suffix '%%c' -> %%s, %%s\\n", v, s.c_str(), m, suf ? suf : ' ', mant_ok ? "mantissa in [1,1000]" : "MANTISSA OUTSIDE [1,1000]", back_ok ? "multiplies back" : "DOES NOT MULTIPLY BACK");
  printf("REPLAY RESULT: %%s\\n", (mant_ok && back_ok) ? "not reproduced" : "violation reproduced on real code");
  return (mant_ok && back_ok) ? 0 : 1;
}
"""
    U.mfn("x_prettyDouble", "real", {"printed_mantissa_is_between_1_and_1000": mant_ok, "suffix_multiplies_the_mantissa_back_to_the_input": scale_ok, "prints_exactly_once_and_plain_numbers_unscaled": plain_ok},
          models=MODELS, exact_f32=True, replay_native=PRETTY_REPLAY % dict(param="val", fn="prettyDouble", arg="v"))
    U.mfn("x_prettyNumber", "real", {"printed_mantissa_is_between_1_and_1000": lambda P, RET, Q, G: mant_ok(P, RET, Q, G, 0, 20), "suffix_multiplies_the_mantissa_back_to_the_input": lambda P, RET, Q, G: scale_ok(P, RET, Q, G, 0, 20),
                                     "prints_exactly_once_and_small_numbers_unscaled": plain_ok},
          requires=lambda P: [P[0] >= 0, P[0] < z3.RealVal(2) ** 64], models=MODELS, exact_f32=True, replay_native=PRETTY_REPLAY % dict(param="s", fn="prettyNumber", arg="(size_t)v"))
    return [U]
    reset = "  g_calls = 0; g_kind = 0; g_suffix = 0;\n"
    INR = "(dabs($0) >= 1e-15 && dabs($0) < 1e21)"
    U.fn("x_prettyDouble", pre_call=reset, requires=["g_calls == 0", "__verif_exc == 0"], assigns=GA + ["__verif_exc"], solver=["--sat-solver", "cadical"], timeout=900, ensures={
        "prints_exactly_once": "g_calls == 1",
        "mantissa_prints_between_1_and_1000": "IMP(%s, dabs(g_mant) >= 0.95 && dabs(g_mant) < 1000.05)" % INR,
        "suffix_multiplies_the_mantissa_back_to_the_input": "IMP(%s, dabs(g_mant * si_scale(g_suffix) - $0) <= 1e-6 * dabs($0))" % INR})
    return [U]


META = dict(level="proof", level_text="wip", level_note="wip")
