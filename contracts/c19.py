"""C19: observers see each notification once; time stamps are unique and increasing."""
from unit import Unit

BIG = "1000000000000ul"
GL = "global.v"


def units():
    U = Unit("c19_observer", "units/c19_observer.cpp", opts=dict(count_atomic_ops=True))
    FRESH = lambda v: "%s == OLD(%s) && %s == OLD(%s) + 1" % (v, GL, GL, GL)
    pre = ["%s <= %s" % (GL, BIG)]
    U.fn("ts_ctor_default", assigns=["*$0", GL, "verif_atomic_ops"], noalias=True, requires=pre, pre_call="  global.v = nondet_unsigned_long();\n", ensures={
        "fresh_stamp_is_larger_than_every_stamp_issued_before_and_distinct": "$0->value.v >= OLD(%s) && $0->value.v < %s" % (GL, GL),
        "exactly_one_value_is_consumed": "%s == OLD(%s) + 1" % (GL, GL)})
    U.fn("ts_renew", assigns=["$0->value.v", GL, "verif_atomic_ops"], requires=pre + ["$0->value.v < %s" % GL], pre_call="  global.v = nondet_unsigned_long();\n", ensures={
        "renewed_stamp_is_larger_than_every_stamp_issued_before_and_distinct": "$0->value.v >= OLD(%s) && $0->value.v < %s" % (GL, GL),
        "renewed_stamp_is_larger_than_its_old_value": "$0->value.v > OLD($0->value.v)",
        "exactly_one_value_is_consumed": "%s == OLD(%s) + 1" % (GL, GL)})
    U.fn("ts_ctor_copy", assigns=["*$0", GL, "verif_atomic_ops"], noalias=True, requires=pre, pre_call="  global.v = nondet_unsigned_long();\n",
         ensures={"copy_carries_its_sources_value": "$0->value.v == $1->value.v", "counter_never_decreases": "%s >= OLD(%s)" % (GL, GL)})
    U.fn("ts_assign", assigns=["$0->value.v", "verif_atomic_ops"], ensures={"assigned_carries_its_sources_value": "$0->value.v == OLD($1->value.v)", "returns_self": "RET == $0"})
    U.fn("ts_value", assigns=["verif_atomic_ops"], ensures={"conversion_reads_the_value": "RET == $0->value.v"})
    # ---- notification protocol; state invariant I: every stamp < global
    obs_state = "  global.v = nondet_unsigned_long(); o_@0.observers.b = 0; o_@0.observers.n = 0; o_@0.observers.cap = 0;\n"
    U.fn("obs_notify", pre_call=obs_state, requires=pre + ["$0->lastNotified.value.v < %s" % GL], assigns=["$0->lastNotified.value.v", GL, "verif_atomic_ops"], ensures={
        "notification_stamp_is_newer_than_every_stamp_issued_before": "$0->lastNotified.value.v >= OLD(%s) && $0->lastNotified.value.v < %s" % (GL, GL),
        "exactly_one_value_is_consumed": "%s == OLD(%s) + 1" % (GL, GL)})
    obr_state = """
  global.v = nondet_unsigned_long();
  Observable the_obs; unsigned long in_ln = nondet_unsigned_long(); the_obs.lastNotified.value.v = in_ln; the_obs.observers.b = 0; the_obs.observers.n = 0; the_obs.observers.cap = 0;
  _Bool in_orphan = nondet__Bool(); o_@0.observee = in_orphan ? (Observable *)0 : &the_obs;
"""
    U.fn("obr_wasNotified", pre_call=obr_state, assigns=["$0->lastObserved.value.v", GL, "verif_atomic_ops"],
         requires=pre + ["$0->lastObserved.value.v < %s" % GL, "$0->observee == 0 || (__CPROVER_r_ok($0->observee, sizeof(Observable)) && $0->observee->lastNotified.value.v < %s)" % GL],
         ensures={
             "orphaned_observer_reports_false": "IMP($0->observee == 0, RET == 0 && $0->lastObserved.value.v == OLD($0->lastObserved.value.v))",
             "true_exactly_when_notified_since_previous_poll": "IMP($0->observee != 0, RET == (OLD($0->lastObserved.value.v) < $0->observee->lastNotified.value.v))",
             "the_notification_is_reported_only_once": "IMP($0->observee != 0, $0->lastObserved.value.v >= $0->observee->lastNotified.value.v)",
             "later_notifications_will_be_seen__stamp_invariant": "$0->lastObserved.value.v < %s" % GL,
             "counter_never_decreases": "%s >= OLD(%s) && %s <= OLD(%s) + 1" % (GL, GL, GL, GL)})
    # history lemma from the contracts: notify, poll (true), poll (false), notify, poll (true) -- each notification seen exactly once
    U.lemma("notify_poll_history", [("Observable", "obs"), ("Observer", "o1"), ("Observer", "o2")], """
  global.v = nondet_unsigned_long();
  ASSUME(global.v <= 1000000ul);
  obs.observers.b = 0; obs.observers.n = 0; obs.observers.cap = 0;
  o1.observee = &obs; o2.observee = &obs;
  ASSUME(obs.lastNotified.value.v < global.v && o1.lastObserved.value.v < global.v && o2.lastObserved.value.v < global.v);
  ASSUME(o1.lastObserved.value.v >= obs.lastNotified.value.v && o2.lastObserved.value.v >= obs.lastNotified.value.v); /* nothing pending */
  ASSERT(no_notification_without_notify, !obr_wasNotified(&o1));
  obs_notify(&obs);
  ASSERT(first_observer_sees_first_notification, obr_wasNotified(&o1));
  ASSERT(and_only_once, !obr_wasNotified(&o1));
  obs_notify(&obs);
  ASSERT(first_observer_sees_second_notification, obr_wasNotified(&o1));
  ASSERT(second_observer_independently_sees_it_once, obr_wasNotified(&o2));
  ASSERT(second_observer_only_once, !obr_wasNotified(&o2));
""", uses=["obs_notify", "obr_wasNotified"])
    return [U]


META = dict(
    level="proof",
    level_text="TimeStamp creation/renewal is proved to take exactly one value from the global counter through one atomic read-modify-write, so every fresh or renewed stamp is >= every value handed out before and < the counter (distinct and increasing); copies carry their source's value. notifyObservers/wasNotified are proved against property-level contracts over the stamp invariant (every stamp < counter): wasNotified returns true exactly when the observable notified since the previous poll, reports it only once, false for an orphaned observer, and preserves the invariant; a history lemma (notify/poll sequences over two observers) is proved from those contracts only.",
    level_note="Single-thread semantics of std::atomic + one-RMW discipline; the observer registry (std::vector<Observer*>: register/remove, both destruction orders, nothing dangles) is NOT under contract -- the vector model does not track element values.",
    assumptions=["std::atomic sequential model", "counter below 10^12 (no wrap-around of size_t)"],
    unverified=["observer registry consistency and destruction orders", "inter-thread ordering of wasNotified against a concurrent notify"],
)
