"""C19: observers see each notification once; time stamps are unique and increasing."""
from unit import Unit

BIG = "1000000000000ul"
GL = "global.v"


def units():
    U = Unit("c19_observer", "units/c19_observer.cpp", opts=dict(count_atomic_ops=True))
    FRESH = lambda v: "%s == OLD(%s) && %s == OLD(%s) + 1" % (v, GL, GL, GL)
    pre = ["%s <= %s" % (GL, BIG)]
    U.fn("ts_ctor_default", assigns=["*$0", GL, "verif_atomic_ops"], noalias=True, requires=pre, pre_call="  global.v = nondet_unsigned_long();\n", ensures={
        "fresh_stamp_is_larger_than_every_stamp_issued_before_and_distinct": "$0->value.v >= OLD(%s) && $0->value.v < %s" % (GL, GL),
        "exactly_one_value_is_consumed": "%s == OLD(%s) + 1" % (GL, GL)})
    U.fn("ts_renew", assigns=["$0->value.v", GL, "verif_atomic_ops"], requires=pre + ["$0->value.v < %s" % GL], pre_call="  global.v = nondet_unsigned_long();\n", ensures={
        "renewed_stamp_is_larger_than_every_stamp_issued_before_and_distinct": "$0->value.v >= OLD(%s) && $0->value.v < %s" % (GL, GL),
        "renewed_stamp_is_larger_than_its_old_value": "$0->value.v > OLD($0->value.v)",
        "exactly_one_value_is_consumed": "%s == OLD(%s) + 1" % (GL, GL)})
    U.fn("ts_ctor_copy", assigns=["*$0", GL, "verif_atomic_ops"], noalias=True, requires=pre, pre_call="  global.v = nondet_unsigned_long();\n",
         ensures={"copy_carries_its_sources_value": "$0->value.v == $1->value.v", "counter_never_decreases": "%s >= OLD(%s)" % (GL, GL)})
    U.fn("ts_assign", assigns=["$0->value.v", "verif_atomic_ops"], ensures={"assigned_carries_its_sources_value": "$0->value.v == OLD($1->value.v)", "returns_self": "RET == $0"})
    U.fn("ts_ctor_move", assigns=["*$0", "$1->value.v", GL, "verif_atomic_ops"], noalias=True, requires=pre, pre_call="  global.v = nondet_unsigned_long();\n",
         ensures={"moved_to_stamp_carries_its_sources_value": "$0->value.v == OLD($1->value.v)", "counter_never_decreases": "%s >= OLD(%s)" % (GL, GL)})
    U.fn("ts_assign_move", assigns=["$0->value.v", "$1->value.v", "verif_atomic_ops"], ensures={"move_assigned_carries_its_sources_value": "$0->value.v == OLD($1->value.v)", "returns_self": "RET == $0"})
    U.fn("ts_value", assigns=["verif_atomic_ops"], ensures={"conversion_reads_the_value": "RET == $0->value.v"})
    # ---- notification protocol; state invariant I: every stamp < global
    # the observable has up to 3 registered observers in arbitrary polling states (notifyObservers must not depend on them)
    obs_state = """
  global.v = nondet_unsigned_long();
  Observer the_o0, the_o1, the_o2; the_o0.lastObserved.value.v = nondet_unsigned_long(); the_o1.lastObserved.value.v = nondet_unsigned_long(); the_o2.lastObserved.value.v = nondet_unsigned_long();
  the_o0.observee = &o_@0; the_o1.observee = &o_@0; the_o2.observee = &o_@0;
  unsigned long in_nobs = nondet_unsigned_long(); __CPROVER_assume(in_nobs <= 3);
  o_@0.observers.b = in_nobs ? (Observer **)verif_malloc(3 * sizeof(Observer *)) : (Observer **)0; o_@0.observers.n = in_nobs; o_@0.observers.cap = in_nobs ? 3 : 0;
  if (in_nobs) { o_@0.observers.b[0] = &the_o0; o_@0.observers.b[1] = &the_o1; o_@0.observers.b[2] = &the_o2; }
"""
    OBSV = "$0->observers.n <= 3 && ($0->observers.n == 0 || (__CPROVER_r_ok($0->observers.b, 3 * sizeof(Observer *)) && __CPROVER_r_ok($0->observers.b[0], sizeof(Observer)) && __CPROVER_r_ok($0->observers.b[1], sizeof(Observer)) && __CPROVER_r_ok($0->observers.b[2], sizeof(Observer))))"
    U.fn("obs_notify", pre_call=obs_state, requires=pre + ["$0->lastNotified.value.v < %s" % GL, OBSV], assigns=["$0->lastNotified.value.v", GL, "verif_atomic_ops"], ensures={
        "notification_stamp_is_newer_than_every_stamp_issued_before": "$0->lastNotified.value.v >= OLD(%s) && $0->lastNotified.value.v < %s" % (GL, GL),
        "exactly_one_value_is_consumed": "%s == OLD(%s) + 1" % (GL, GL)})
    obr_state = """
  global.v = nondet_unsigned_long();
  Observable the_obs; unsigned long in_ln = nondet_unsigned_long(); the_obs.lastNotified.value.v = in_ln; the_obs.observers.b = 0; the_obs.observers.n = 0; the_obs.observers.cap = 0;
  _Bool in_orphan = nondet__Bool(); o_@0.observee = in_orphan ? (Observable *)0 : &the_obs;
"""
    U.fn("obr_wasNotified", pre_call=obr_state, assigns=["$0->lastObserved.value.v", GL, "verif_atomic_ops"],
         requires=pre + ["$0->lastObserved.value.v < %s" % GL, "$0->observee == 0 || (__CPROVER_r_ok($0->observee, sizeof(Observable)) && $0->observee->lastNotified.value.v < %s)" % GL],
         ensures={
             "orphaned_observer_reports_false": "IMP($0->observee == 0, RET == 0 && $0->lastObserved.value.v == OLD($0->lastObserved.value.v))",
             "true_exactly_when_notified_since_previous_poll": "IMP($0->observee != 0, RET == (OLD($0->lastObserved.value.v) < $0->observee->lastNotified.value.v))",
             "the_notification_is_reported_only_once": "IMP($0->observee != 0, $0->lastObserved.value.v >= $0->observee->lastNotified.value.v)",
             "later_notifications_will_be_seen__stamp_invariant": "$0->lastObserved.value.v < %s" % GL,
             "counter_never_decreases": "%s >= OLD(%s) && %s <= OLD(%s) + 1" % (GL, GL, GL, GL)})
    # history lemma from the contracts: notify, poll (true), poll (false), notify, poll (true) -- each notification seen exactly once
    U.lemma("notify_poll_history", [("Observable", "obs"), ("Observer", "o1"), ("Observer", "o2")], """
  global.v = nondet_unsigned_long();
  ASSUME(global.v <= 1000000ul);
  obs.observers.b = 0; obs.observers.n = 0; obs.observers.cap = 0;
  o1.observee = &obs; o2.observee = &obs;
  ASSUME(obs.lastNotified.value.v < global.v && o1.lastObserved.value.v < global.v && o2.lastObserved.value.v < global.v);
  ASSUME(o1.lastObserved.value.v >= obs.lastNotified.value.v && o2.lastObserved.value.v >= obs.lastNotified.value.v); /* nothing pending */
  ASSERT(no_notification_without_notify, !obr_wasNotified(&o1));
  obs_notify(&obs);
  ASSERT(first_observer_sees_first_notification, obr_wasNotified(&o1));
  ASSERT(and_only_once, !obr_wasNotified(&o1));
  obs_notify(&obs);
  ASSERT(first_observer_sees_second_notification, obr_wasNotified(&o1));
  ASSERT(second_observer_independently_sees_it_once, obr_wasNotified(&o2));
  ASSERT(second_observer_only_once, !obr_wasNotified(&o2));
""", uses=["obs_notify", "obr_wasNotified"])
    return [U, registry_unit()]


def registry_unit():
    """the observer registry, BOUNDED exact (at most 3 registered observers; bounded std::vector code model)"""
    RN = 3
    helpers = """
Observer *g_reg[%(n)d]; unsigned long g_rn;      /* ghost: the registered observers on entry, in registration order */
Observable the_obs;                              /* the observable of the ~Observer harness */
static _Bool reg_same(Observable *o) { unsigned long k; if (o->observers.n != g_rn) return 0; for (k = 0; k < g_rn && k < %(n)d; k++) if (o->observers.b[k] != g_reg[k]) return 0; return 1; }
/* exactly the other observers remain, in registration order */
static _Bool reg_without(Observable *o, Observer *x) { unsigned long k, j = 0; for (k = 0; k < g_rn && k < %(n)d; k++) { if (g_reg[k] == x) continue; if (j >= o->observers.n || o->observers.b[j] != g_reg[k]) return 0; j++; } return j == o->observers.n; }
static _Bool reg_prefix(Observable *o) { unsigned long k; if (o->observers.n < g_rn) return 0; for (k = 0; k < g_rn && k < %(n)d; k++) if (o->observers.b[k] != g_reg[k]) return 0; return 1; }
static _Bool reg_all_detached(void) { unsigned long k; for (k = 0; k < g_rn && k < %(n)d; k++) if (g_reg[k]->observee != 0) return 0; return 1; }
""" % dict(n=RN)
    R = Unit("c19_registry", "units/c19_registry.cpp", helpers=helpers, opts=dict(tracked_vec=True, bounded_vec=RN + 1, count_atomic_ops=False))
    def pre(o):
        t = "  static Observer the_o0, the_o1, the_o2; static Observer *const the_os[3] = {&the_o0, &the_o1, &the_o2};\n"
        t += "  unsigned long in_rn = nondet_ulong(); __CPROVER_assume(in_rn <= %d); %s.observers.n = in_rn; %s.observers.cap = %d; g_rn = in_rn;\n" % (RN, o, o, RN + 1)
        for k in range(RN):
            t += "  %s.observers.b[%d] = the_os[%d]; g_reg[%d] = the_os[%d]; the_os[%d]->observee = &%s;\n" % (o, k, k, k, k, k, o)
        return t
    REQ = ["g_rn <= %d && reg_same($0)" % RN, "__verif_exc == 0"] + ["__CPROVER_rw_ok(g_reg[%d], sizeof(Observer))" % k for k in range(RN)] + ["g_reg[0] != g_reg[1] && g_reg[0] != g_reg[2] && g_reg[1] != g_reg[2]"]
    acc = dict(unwind=RN + 4, timeout=600, solver=["--sat-solver", "cadical"], noalias=True)
    member = "  unsigned long in_which = nondet_ulong(); __CPROVER_assume(in_which < 3); p_@1 = the_os[in_which];\n"
    R.fn("obs_register", pre_call=pre("o_@0") + "  __CPROVER_assume(in_rn < %d);\n" % RN, requires=REQ + ["g_rn < %d" % RN, "$1 != g_reg[0] && $1 != g_reg[1] && $1 != g_reg[2]"], assigns=["$0->observers", "__verif_exc"], ensures={
        "register_appends_the_observer_and_keeps_the_others_in_order": "__verif_exc == 0 && $0->observers.n == g_rn + 1 && $0->observers.b[g_rn < %d ? g_rn : 0] == $1 && reg_prefix($0)" % (RN + 1)}, **acc)
    R.fn("obs_remove", pre_call=pre("o_@0") + member, requires=REQ, assigns=["$0->observers", "__verif_exc"], ensures={
        "remove_drops_exactly_that_observer_and_keeps_the_others_in_order": "__verif_exc == 0 && reg_without($0, $1)"}, **acc)
    R.fn("obs_dtor", pre_call=pre("o_@0"), requires=REQ, assigns=["g_reg[0]->observee", "g_reg[1]->observee", "g_reg[2]->observee", "__verif_exc"], ensures={
        "a_dying_observable_detaches_every_registered_observer": "__verif_exc == 0 && reg_all_detached()"}, **acc)
    # ~Observer: removes itself from a live observable, does nothing when already detached
    dpre = pre("the_obs") + "  unsigned long in_which = nondet_ulong(); __CPROVER_assume(in_which < 3); p_@0 = the_os[in_which]; _Bool in_detached = nondet__Bool(); if (in_detached || in_which >= in_rn) p_@0->observee = 0;\n"
    DREQ = [r.replace("$0", "(&the_obs)") for r in REQ]
    R.fn("obr_dtor", pre_call=dpre, requires=DREQ + ["$0->observee == 0 || $0->observee == &the_obs", "IMP($0->observee == 0, $0 != g_reg[0] || g_rn < 1) || 1"], assigns=["the_obs.observers", "__verif_exc"], inline=["obs_remove"], ptr_requires=False, ensures={
        "a_dying_observer_leaves_its_observable_registry_without_itself": "__verif_exc == 0 && IMP(__CPROVER_old($0->observee) != 0, reg_without(&the_obs, $0))",
        "a_detached_observer_touches_nothing": "IMP(__CPROVER_old($0->observee) == 0, reg_same(&the_obs))"}, **dict(acc, noalias=False))
    return R


META = dict(
    technique='CBMC 6.11 function contracts (dfcc) with a one-RMW atomic discipline (time stamps, notification protocol) + a history lemma; bounded unwinding against exact specifications for the observer registry',
    level="proof",
    level_text="TimeStamp creation/renewal is proved to take exactly one value from the global counter through one atomic read-modify-write, so every fresh or renewed stamp is >= every value handed out before and < the counter (distinct and increasing); copies and moved-to stamps (copy / move construction, copy / move assignment) carry their source's value. notifyObservers/wasNotified are proved against property-level contracts over the stamp invariant (every stamp < counter): wasNotified returns true exactly when the observable notified since the previous poll, reports it only once, false for an orphaned observer, and preserves the invariant; a history lemma (notify/poll sequences over two observers) is proved from those contracts only.",
    level_note="Single-thread semantics of std::atomic + one-RMW discipline; the observer registry is checked by BOUNDED exact contracts (unit c19_registry, at most 3 observers, bounded std::vector code model, std::remove / std::find reference models): registerObserver appends, removeObserver drops exactly that observer and keeps the others in order, ~Observable detaches every registered observer, ~Observer removes itself from a live observable and touches nothing when already detached -- together: nothing dangles in either destruction order.",
    bounded=["observer registry (unit c19_registry): at most 3 registered observers, unwind 7"],
    assumptions=["std::atomic sequential model", "bounded std::vector code model; std::remove / std::find reference models", "counter below 10^12 (no wrap-around of size_t)"],
    unverified=["inter-thread ordering of wasNotified against a concurrent notify"],
)
