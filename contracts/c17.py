"""C17: index maps are bijections; 3-D array adaptors address the right cell."""
import z3
from unit import Unit

A = z3.And
X = "xyz"


def units():
    U = Unit("c17_index", "units/c17_index.cpp", stubs="/* closed universe: the only Array3D<float> of this unit is ActualArray3D<float> (base sub-object first) */\nfloat a3f_get_dispatch(Array3D_float *self, vec3i *w) { return actual_get((ActualArray3Df *)self, w); }\n",
             opts=dict(uf_arith=False, virtual_final=["ActualArray3D"], stub_bodies=["a3f_get_dispatch"], virtual_models={"rkcommon::array3D::Array3D<float>::get": "a3f_get_dispatch"}))
    U.stub_deps = {"a3f_get_dispatch": ["actual_get"]}

    # ---------------- multidim_index_sequence<3>: over Z with every intermediate proved to fit 64 bits
    def seq3(ctx):
        s = ctx.new("index_sequence_3D", "s"); c = ctx.new("vec3sz", "c")
        d = s.dims
        total = d.x * d.y * d.z
        hyp = [total <= 2**64 - 1, c.x < d.x, c.y < d.y, c.z < d.z]
        f = ctx.call("seq3_flatten", s, c)
        r = ctx.call("seq3_reshape", s, f)
        t = ctx.call("seq3_total", s)
        return hyp, {"flatten_is_x_fastest_linear_index": f == c.x + d.x * (c.y + d.y * c.z),
                     "flatten_below_total": f < total,
                     "reshape_inverts_flatten": A(r.x == c.x, r.y == c.y, r.z == c.z),
                     "total_indices_is_product": t == total}
    U.mlemma("seq3_reshape_after_flatten", "int", seq3, ranges=True, timeout=120)

    def seq3b(ctx):
        s = ctx.new("index_sequence_3D", "s"); i = ctx.scalar("i")
        d = s.dims
        total = d.x * d.y * d.z
        hyp = [total <= 2**64 - 1, i >= 0, i < total]
        r = ctx.call("seq3_reshape", s, i)
        f = ctx.call("seq3_flatten", s, r)
        return hyp, {"reshape_lands_inside_extent": A(r.x < d.x, r.y < d.y, r.z < d.z, r.x >= 0, r.y >= 0, r.z >= 0),
                     "flatten_inverts_reshape": f == i}
    U.mlemma("seq3_flatten_after_reshape", "int", seq3b, ranges=True, timeout=120)

    def seq2(ctx):
        s = ctx.new("index_sequence_2D", "s"); c = ctx.new("vec2sz", "c"); i = ctx.scalar("i")
        d = s.dims
        total = d.x * d.y
        hyp = [total <= 2**64 - 1, c.x < d.x, c.y < d.y, i >= 0, i < total]
        f = ctx.call("seq2_flatten", s, c)
        r = ctx.call("seq2_reshape", s, f)
        r2 = ctx.call("seq2_reshape", s, i)
        f2 = ctx.call("seq2_flatten", s, r2)
        return hyp, {"flatten2_below_total": f < total, "reshape2_inverts_flatten2": A(r.x == c.x, r.y == c.y),
                     "reshape2_inside_extent": A(r2.x < d.x, r2.y < d.y), "flatten2_inverts_reshape2": f2 == i,
                     "total2_is_product": ctx.call("seq2_total", s) == total}
    U.mlemma("seq2_bijection", "int", seq2, ranges=True, timeout=120)

    # ---------------- array3D::longIndex / coordsOf / longProduct (int extents, 64-bit indices)
    def a3d(ctx):
        dims = ctx.new("vec3i", "dims"); c = ctx.new("vec3i", "c")
        total = dims.x * dims.y * dims.z
        hyp = [dims.x > 0, dims.y > 0, dims.z > 0, total <= 2**64 - 1] + [A(getattr(c, k) >= 0, getattr(c, k) < getattr(dims, k)) for k in X]
        li = ctx.call("a3d_longIndex", c, dims)
        co = ctx.call("a3d_coordsOf", li, dims)
        lp = ctx.call("a3d_longProduct", dims)
        return hyp, {"longIndex_is_x_fastest_linear_index": li == c.x + dims.x * (c.y + dims.y * c.z),
                     "longIndex_below_longProduct": li < total, "longProduct_is_product": lp == total,
                     "coordsOf_inverts_longIndex": A(co.x == c.x, co.y == c.y, co.z == c.z)}
    U.mlemma("array3D_coordsOf_after_longIndex", "int", a3d, ranges=True, timeout=120)

    def a3db(ctx):
        dims = ctx.new("vec3i", "dims"); i = ctx.scalar("i")
        total = dims.x * dims.y * dims.z
        hyp = [dims.x > 0, dims.y > 0, dims.z > 0, total <= 2**64 - 1, i >= 0, i < total]
        co = ctx.call("a3d_coordsOf", i, dims)
        li = ctx.call("a3d_longIndex", co, dims)
        return hyp, {"coordsOf_inside_extent": A(*[A(getattr(co, k) >= 0, getattr(co, k) < getattr(dims, k)) for k in X]),
                     "longIndex_inverts_coordsOf": li == i}
    U.mlemma("array3D_longIndex_after_coordsOf", "int", a3db, ranges=True, timeout=120)

    # ---------------- ActualArray3D: indexOf / numElements (over Z with ranges) ; get/set through CBMC
    def actual_idx(ctx):
        a = ctx.new("ActualArray3Df", "a"); p = ctx.new("vec3i", "p")
        d = a.dims
        hyp = [d.x > 0, d.y > 0, d.z > 0, d.x * d.y * d.z <= 2**64 - 1] + [A(getattr(p, k) >= 0, getattr(p, k) < getattr(d, k)) for k in X]
        io = ctx.call("actual_indexOf", a, p)
        ne = ctx.call("actual_numElements", a)
        return hyp, {"indexOf_is_x_fastest_linear_index": io == p.x + d.x * (p.y + d.y * p.z), "indexOf_below_numElements": io < ne,
                     "numElements_is_product": ne == d.x * d.y * d.z}
    U.mlemma("ActualArray3D_indexOf", "int", actual_idx, ranges=True, timeout=120)

    # ---------------- iterator protocol (CBMC, bit-precise; reshape replaced by contract)
    U.fn("it3_current", ensures={"current_is_index": "RET == $0->current_index"})
    U.fn("it3_jump_to", assigns=["$0->current_index"], ensures={"jump_sets_index": "$0->current_index == $1"})
    U.fn("it3_postinc", assigns=["$0->current_index"], ensures={"postinc_adds_one": "$0->current_index == OLD($0->current_index) + 1", "postinc_returns_self": "RET == $0"})
    U.fn("it3_preinc", assigns=["$0->current_index"], ensures={
        "preinc_adds_one": "$0->current_index == OLD($0->current_index) + 1",
        "preinc_returns_iterator_at_new_index": "RET.current_index == $0->current_index && RET.dims.dims.x == $0->dims.dims.x && RET.dims.dims.y == $0->dims.dims.y && RET.dims.dims.z == $0->dims.dims.z"})
    EQD = "($0->dims.dims.x == $1->dims.dims.x && $0->dims.dims.y == $1->dims.dims.y && $0->dims.dims.z == $1->dims.dims.z)"
    U.fn("it3_eq", ensures={"iterators_equal_iff_same_extent_and_index": "RET == (%s && $0->current_index == $1->current_index)" % EQD})
    U.fn("it3_ne", ensures={"ne_is_not_eq": "RET == !(%s && $0->current_index == $1->current_index)" % EQD})
    U.fn("seq3_begin", ensures={"begin_is_index_zero": "RET.current_index == 0 && RET.dims.dims.x == $0->dims.x && RET.dims.dims.y == $0->dims.y && RET.dims.dims.z == $0->dims.z"})
    U.fn("seq3_dimensions", ensures={"dimensions_returns_extent": "RET.x == $0->dims.x && RET.y == $0->dims.y && RET.z == $0->dims.z"})
    U.fn("seq3_ctor", assigns=["*$0"], noalias=True, ensures={"ctor_stores_extent": "$0->dims.x == $1->x && $0->dims.y == $1->y && $0->dims.z == $1->z"})
    # ---------------- ActualArray3D::get / set: which cell they touch (BOUNDED: extents of at most 4 per axis)
    D = "$0->dims"
    N3 = "((unsigned long)%s.x * (unsigned long)%s.y * (unsigned long)%s.z)" % (D, D, D)
    ah = """
  __CPROVER_assume(o_@0.dims.x >= 1 && o_@0.dims.x <= 4 && o_@0.dims.y >= 1 && o_@0.dims.y <= 4 && o_@0.dims.z >= 1 && o_@0.dims.z <= 4);
  o_@0.value = (float *)verif_malloc((unsigned long)o_@0.dims.x * o_@0.dims.y * o_@0.dims.z * sizeof(float));
  verif_gi = nondet_unsigned_long();
  if (verif_gi < (unsigned long)o_@0.dims.x * o_@0.dims.y * o_@0.dims.z) g_cell = o_@0.value[verif_gi];
"""
    U.helpers = getattr(U, "helpers", "") + "\nfloat g_cell;   /* ghost: the cell at flat position verif_gi on entry */\n"
    AREQ = ["%s.x >= 1 && %s.x <= 4 && %s.y >= 1 && %s.y <= 4 && %s.z >= 1 && %s.z <= 4" % ((D,) * 6), "__CPROVER_rw_ok($0->value, %s * sizeof(float))" % N3,
            "IMP(verif_gi < %s, FEQ($0->value[verif_gi], g_cell))" % N3]
    CL = lambda c: "($1->%s < 0 ? 0 : ($1->%s > %s.%s - 1 ? %s.%s - 1 : $1->%s))" % (c, c, D, c, D, c, c)
    IDXC = "((unsigned long)%s + (unsigned long)%s.x * ((unsigned long)%s + (unsigned long)%s.y * (unsigned long)%s))" % (CL("x"), D, CL("y"), D, CL("z"))
    IDXW = "((unsigned long)$1->x + (unsigned long)%s.x * ((unsigned long)$1->y + (unsigned long)%s.y * (unsigned long)$1->z))" % (D, D)
    U.fn("actual_get", pre_call=ah, requires=AREQ, assigns=[], solver=["--sat-solver", "cadical"], timeout=600, ensures={
        "get_returns_the_cell_at_the_clamped_coordinate": "FEQ(RET, $0->value[%s])" % IDXC})
    U.fn("actual_set", pre_call=ah, requires=AREQ + ["$1->x >= 0 && $1->x < %s.x && $1->y >= 0 && $1->y < %s.y && $1->z >= 0 && $1->z < %s.z" % (D, D, D), "!__CPROVER_same_object($2, $0->value)"],
         assigns=["__CPROVER_object_whole($0->value)"], solver=["--sat-solver", "cadical"], timeout=600, ensures={
        "set_writes_exactly_the_cell_of_that_coordinate": "FEQ($0->value[%s], *$2)" % IDXW,
        "set_leaves_every_other_cell_alone": "IMP(verif_gi < %s && verif_gi != %s, FEQ($0->value[verif_gi], g_cell))" % (N3, IDXW)})
    return [U, adaptors_unit(), foreach_unit(), range_unit()]


FSTUBS = """
/* probe functor: visits must arrive in flattened order over the region [g_lo, g_hi) (x fastest, then y, then z), each coordinate
 * exactly once: the expected next coordinate is kept in ghost state (no division needed) */
vec3i g_lo, g_hi, g_next; long g_k;
void visit_call(Visit *self, vec3i *c)
{
  __CPROVER_assert(g_hi.x > g_lo.x && g_hi.y > g_lo.y && g_hi.z > g_lo.z, "VISIT the functor is only called for a non-empty region");
  __CPROVER_assert(g_next.z < g_hi.z, "VISIT no coordinate is visited after the last one of the region");
  __CPROVER_assert(c->x >= g_lo.x && c->x < g_hi.x && c->y >= g_lo.y && c->y < g_hi.y && c->z >= g_lo.z && c->z < g_hi.z, "VISIT nothing outside the region is visited");
  __CPROVER_assert(c->x == g_next.x && c->y == g_next.y && c->z == g_next.z, "VISIT coordinates arrive in flattened order, each exactly once");
  if (g_k < 1000000l) g_k++;
  g_next.x++;
  if (g_next.x >= g_hi.x) { g_next.x = g_lo.x; g_next.y++; if (g_next.y >= g_hi.y) { g_next.y = g_lo.y; g_next.z++; } }
}
"""


def foreach_unit():
    """array3D::for_each visits every coordinate of the region exactly once, in flattened order -- BOUNDED (extents of at most 3 per axis)"""
    F = Unit("c17_foreach", "units/c17_foreach.cpp", stubs=FSTUBS, opts=dict(stub_bodies=["visit_call"]))
    F.stub("Visit::operator()", "probe functor: asserts the visiting order and counts the visits")
    EXT = 3
    CNT = "((g_hi.x > g_lo.x && g_hi.y > g_lo.y && g_hi.z > g_lo.z) ? ((long)g_hi.x - g_lo.x) * ((long)g_hi.y - g_lo.y) * ((long)g_hi.z - g_lo.z) : 0l)"
    def small(v):
        return "%s.x >= -3 && %s.x <= 3 && %s.y >= -3 && %s.y <= 3 && %s.z >= -3 && %s.z <= 3" % (v, v, v, v, v, v)
    def ext(lo, hi):
        return "%s.x - %s.x <= %d && %s.y - %s.y <= %d && %s.z - %s.z <= %d" % (hi, lo, EXT, hi, lo, EXT, hi, lo, EXT)
    GEQ = "g_lo.x == %s.x && g_lo.y == %s.y && g_lo.z == %s.z && g_hi.x == %s.x && g_hi.y == %s.y && g_hi.z == %s.z"
    acc = dict(unwind=EXT + 2, timeout=600, assigns=["g_k", "g_next", "__verif_exc"], solver=["--sat-solver", "cadical"])
    ENS = {"every_coordinate_of_the_region_is_visited_exactly_once_in_flattened_order": "__verif_exc == 0 && g_k == %s" % CNT}
    # unbounded: the probe accepts a visit only when it is the expected next coordinate in flattened order (starting at the lower corner),
    # so "every coordinate exactly once, in order, nothing else" is: no probe assertion fails and the expected-next coordinate ends at
    # (lo.x, lo.y, hi.z) -- one past the last cell; an empty region is never visited. No product of extents is needed.
    NEr = "(g_hi.x > g_lo.x && g_hi.y > g_lo.y && g_hi.z > g_lo.z)"
    NXT = lambda x, y, z: "(g_next.x == %s && g_next.y == %s && g_next.z == %s)" % (x, y, z)
    ENSU = {"every_coordinate_of_the_region_is_visited_exactly_once_in_flattened_order":
            "__verif_exc == 0 && IMP(%s, %s) && IMP(!%s, g_k == 0)" % (NEr, NXT("g_lo.x", "g_lo.y", "g_hi.z"), NEr)}
    LA = ["g_k", "g_next", "__verif_exc"]
    LOOPS = {
        1: dict(assigns=["iz"] + LA, invariant=["__verif_exc == 0", "iz >= g_lo.z", "IMP(!%s, g_k == 0)" % NEr, "IMP(%s, iz <= g_hi.z && %s)" % (NEr, NXT("g_lo.x", "g_lo.y", "iz"))],
                decreases="(long)g_hi.z - (long)iz"),
        2: dict(assigns=["iy"] + LA, invariant=["__verif_exc == 0", "iy >= g_lo.y", "IMP(!%s, g_k == 0)" % NEr,
                                                "IMP(%s, iy <= g_hi.y && IMP(iy < g_hi.y, %s) && IMP(iy == g_hi.y, %s))" % (NEr, NXT("g_lo.x", "iy", "iz"), NXT("g_lo.x", "g_lo.y", "iz + 1"))],
                decreases="(long)g_hi.y - (long)iy"),
        3: dict(assigns=["ix", "__t1"] + LA, invariant=["__verif_exc == 0", "ix >= g_lo.x", "IMP(!%s, g_k == 0)" % NEr,
                                                        "IMP(%s, ix <= g_hi.x && IMP(ix < g_hi.x, %s) && IMP(ix == g_hi.x && iy + 1 < g_hi.y, %s) && IMP(ix == g_hi.x && iy + 1 >= g_hi.y, %s))"
                                                        % (NEr, NXT("ix", "iy", "iz"), NXT("g_lo.x", "iy + 1", "iz"), NXT("g_lo.x", "g_lo.y", "iz + 1"))],
                decreases="(long)g_hi.x - (long)ix")}
    START = ["g_k == 0", "g_next.x == g_lo.x && g_next.y == g_lo.y && g_next.z == g_lo.z", "__verif_exc == 0"]
    accu = dict(timeout=600, assigns=["g_k", "g_next", "__verif_exc"], solver=["--sat-solver", "cadical"])
    F.fn("fe_range", pre_call="  g_k = 0; g_lo = o_@0; g_hi = o_@1; g_next = g_lo;\n", requires=START + [GEQ % (("(*$0)",) * 3 + ("(*$1)",) * 3)], ensures=ENSU, loops=LOOPS, **accu)
    F.fn("fe_size", pre_call="  g_k = 0; g_lo.x = 0; g_lo.y = 0; g_lo.z = 0; g_hi = o_@0; g_next = g_lo;\n", requires=START + ["g_lo.x == 0 && g_lo.y == 0 && g_lo.z == 0 && g_hi.x == $0->x && g_hi.y == $0->y && g_hi.z == $0->z"],
         inline=["fe_range"], ensures=ENSU, **accu)
    F.fn("fe_box", pre_call="  g_k = 0; g_lo = o_@0.lower; g_hi = o_@0.upper; g_next = g_lo;\n", requires=START + [GEQ % (("$0->lower",) * 3 + ("$0->upper",) * 3)],
         inline=["fe_range"], ensures=ENSU, **accu)
    # bounded stand-in kept next to the proof: the visit COUNT equals the product of the extents (regions of at most 3 cells per axis)
    F.fn("fe_range", variant="small_regions", pre_call="  g_k = 0; g_lo = o_@0; g_hi = o_@1; g_next = g_lo;\n", requires=START + [small("(*$0)"), small("(*$1)"), ext("(*$0)", "(*$1)"), GEQ % (("(*$0)",) * 3 + ("(*$1)",) * 3)], ensures=ENS, **acc)
    return F


RSTUBS = """
/* interface stubs for the pure virtuals of the array whose value range is taken. get: every request must lie inside the region
 * [g_lo, g_hi); the value handed back is arbitrary (not NaN) per request, except at the ghost coordinate g_gc where it is the fixed
 * g_gv; the running minimum / maximum of everything handed back is kept in ghost state */
vec3i g_lo, g_hi, g_gc, g_dims; float g_gv, g_min, g_max; unsigned g_calls; unsigned char g_gseen;
float a3f_get_stub(Array3Df *self, vec3i *w)
{
  __CPROVER_assert(w->x >= g_lo.x && w->x < g_hi.x && w->y >= g_lo.y && w->y < g_hi.y && w->z >= g_lo.z && w->z < g_hi.z, "RANGE only cells of the region are read");
  float v = nondet_float();
  __CPROVER_assume(v == v);
  if (w->x == g_gc.x && w->y == g_gc.y && w->z == g_gc.z) { v = g_gv; g_gseen = 1; }
  if (g_calls == 0 || v < g_min) g_min = v;
  if (g_calls == 0 || v > g_max) g_max = v;
  if (g_calls < 1000000u) g_calls++;
  return v;
}
vec3i a3f_size_stub(Array3Df *self) { return g_dims; }
"""


def range_unit():
    """Array3D::getValueRange(begin, end) / getValueRange(): bounds every value of the region, tightly -- loop contracts, every non-empty region"""
    R = Unit("c17_range", "units/c17_range.cpp", stubs=RSTUBS, opts=dict(stub_bodies=["a3f_get_stub", "a3f_size_stub"],
             virtual_models={"rkcommon::array3D::Array3D<float>::get": "a3f_get_stub", "rkcommon::array3D::Array3D<float>::size": "a3f_size_stub"}))
    R.stub("Array3D<float>::get / size", "interface stubs: get asserts the request lies in the region, hands back an arbitrary non-NaN value (a fixed one at the ghost coordinate) and keeps the running min/max in ghost state")
    EXT = 2
    pre = "  g_calls = 0; g_gseen = 0; g_gv = nondet_float(); __CPROVER_assume(g_gv == g_gv); g_gc.x = nondet_int(); g_gc.y = nondet_int(); g_gc.z = nondet_int();\n"
    INR = "(g_gc.x >= g_lo.x && g_gc.x < g_hi.x && g_gc.y >= g_lo.y && g_gc.y < g_hi.y && g_gc.z >= g_lo.z && g_gc.z < g_hi.z)"
    ENS = {"every_cell_of_the_region_is_read": "__verif_exc == 0 && IMP(%s, g_gseen != 0)" % INR,
           "range_bounds_every_value_of_the_region": "IMP(%s, RET.lower <= g_gv && g_gv <= RET.upper)" % INR,
           "range_is_tight_lower_and_upper_are_values_of_the_region": "g_calls >= 1 && RET.lower == g_min && RET.upper == g_max"}
    acc = dict(unwind=EXT + 2, timeout=420, assigns=["g_min", "g_max", "g_calls", "g_gseen", "__verif_exc"], solver=["--sat-solver", "cadical"])
    NE = "g_hi.x > g_lo.x && g_hi.y > g_lo.y && g_hi.z > g_lo.z && g_hi.x <= g_lo.x + %d && g_hi.y <= g_lo.y + %d && g_hi.z <= g_lo.z + %d" % (EXT, EXT, EXT)
    SM = "g_lo.x >= -3 && g_lo.x <= 3 && g_lo.y >= -3 && g_lo.y <= 3 && g_lo.z >= -3 && g_lo.z <= 3"
    FE = "for_each__vec3i_vec3i_vr_range__lambda1"
    V = "functor->__cap0"
    common = ["g_calls >= 1", "__verif_exc == 0", "%s->lower == g_min && %s->upper == g_max" % (V, V), "IMP(g_gseen != 0, g_min <= g_gv && g_gv <= g_max)"]
    LA = ["%s->lower" % V, "%s->upper" % V, "g_min", "g_max", "g_calls", "g_gseen", "__verif_exc"]
    BZ = "g_gc.z < iz"
    BY = "(g_gc.z < iz || (g_gc.z == iz && g_gc.y < iy))"
    BX = "(g_gc.z < iz || (g_gc.z == iz && (g_gc.y < iy || (g_gc.y == iy && g_gc.x < ix))))"
    R.fn(FE, assumed=True, requires=["1"], ensures={"not_used_as_a_contract_the_body_is_always_inlined": "1"}, loops={
        1: dict(assigns=["iz"] + LA, invariant=["iz >= lower->z && iz <= upper->z"] + common + ["IMP(%s && %s, g_gseen != 0)" % (INR, BZ)], decreases="(long)upper->z - (long)iz"),
        2: dict(assigns=["iy"] + LA, invariant=["iy >= lower->y && iy <= upper->y"] + common + ["IMP(%s && %s, g_gseen != 0)" % (INR, BY)], decreases="(long)upper->y - (long)iy"),
        3: dict(assigns=["ix", "__t1"] + LA, invariant=["ix >= lower->x && ix <= upper->x"] + common + ["IMP(%s && %s, g_gseen != 0)" % (INR, BX)], decreases="(long)upper->x - (long)ix")})
    NEU = "g_hi.x > g_lo.x && g_hi.y > g_lo.y && g_hi.z > g_lo.z"
    acc2 = dict(acc); acc2.pop("unwind")
    R.fn("vr_range", pre_call=pre + "  g_lo = o_@1; g_hi = o_@2;\n",
         requires=["g_calls == 0 && g_gseen == 0 && __verif_exc == 0 && g_gv == g_gv", NEU,
                   "g_lo.x == $1->x && g_lo.y == $1->y && g_lo.z == $1->z && g_hi.x == $2->x && g_hi.y == $2->y && g_hi.z == $2->z"], inline=[FE], ensures=ENS, **acc2)
    R.fn("vr_all", pre_call=pre + "  g_lo.x = 0; g_lo.y = 0; g_lo.z = 0; g_dims.x = nondet_int(); g_dims.y = nondet_int(); g_dims.z = nondet_int(); g_hi = g_dims;\n",
         requires=["g_calls == 0 && g_gseen == 0 && __verif_exc == 0 && g_gv == g_gv", "g_lo.x == 0 && g_lo.y == 0 && g_lo.z == 0 && g_hi.x == g_dims.x && g_hi.y == g_dims.y && g_hi.z == g_dims.z", NEU],
         inline=["vr_range", FE], ensures=ENS, **acc2)
    return R


ASTUBS = """
/* interface stubs for the pure virtuals of the UNDERLYING Array3D: get records which array and which cell it was asked for and
 * returns the harness-chosen cell value; size returns the harness-chosen extent */
void *g_asked_self; int g_ax, g_ay, g_az; unsigned g_get_calls; float g_cell_f; int g_cell_i; vec3i g_dims;
float a3f_get_stub(Array3Df *self, vec3i *w) { g_asked_self = self; g_ax = w->x; g_ay = w->y; g_az = w->z; g_get_calls++; return g_cell_f; }
int a3i_get_stub(Array3Di *self, vec3i *w) { g_asked_self = self; g_ax = w->x; g_ay = w->y; g_az = w->z; g_get_calls++; return g_cell_i; }
vec3i a3f_size_stub(Array3Df *self) { return g_dims; }
"""


def adaptors_unit():
    """which underlying cell each Array3D adaptor reads (the underlying array is an interface stub that records the request)"""
    A = Unit("c17_adaptors", "units/c17_adaptors.cpp", stubs=ASTUBS, opts=dict(tracked_vec=True, bounded_vec=3, virtual_final=["IndexShiftedArray3D", "SubBoxArray3D", "Array3DAccessor", "MultiSliceArray3D"], stub_bodies=["a3f_get_stub", "a3i_get_stub", "a3f_size_stub"],
             virtual_models={"rkcommon::array3D::Array3D<float>::get": "a3f_get_stub", "rkcommon::array3D::Array3D<int>::get": "a3i_get_stub", "rkcommon::array3D::Array3D<float>::size": "a3f_size_stub"}))
    A.stub("Array3D<T>::get / size of the underlying array", "interface stubs: the adaptor's request (array, cell) is recorded in ghost state; the value returned is arbitrary")
    base = "  static Array3Df the_under; static Array3Di the_under_i; g_get_calls = 0; g_cell_f = nondet_float(); g_cell_i = nondet_int(); g_dims.x = nondet_int(); g_dims.y = nondet_int(); g_dims.z = nondet_int();\n  __CPROVER_assume(g_dims.x >= 1 && g_dims.y >= 1 && g_dims.z >= 1 && g_dims.x <= 1000000 && g_dims.y <= 1000000 && g_dims.z <= 1000000);\n"
    GA = ["g_asked_self", "g_ax", "g_ay", "g_az", "g_get_calls", "__verif_exc"]
    REQ = ["g_get_calls == 0", "__verif_exc == 0", "g_dims.x >= 1 && g_dims.y >= 1 && g_dims.z >= 1 && g_dims.x <= 1000000 && g_dims.y <= 1000000 && g_dims.z <= 1000000"]
    INSIDE = "$1->x >= 0 && $1->x < g_dims.x && $1->y >= 0 && $1->y < g_dims.y && $1->z >= 0 && $1->z < g_dims.z"
    # shifted: cell (where + shift) wrapped into the extent
    W = lambda c: "((($1->%s + $0->shift.%s) %% g_dims.%s + g_dims.%s) %% g_dims.%s)" % (c, c, c, c, c)
    A.fn("sh_get", pre_call=base + "  o_@0.actual.p = &the_under; o_@0.actual.c = 0;\n", requires=REQ + [INSIDE, "$0->shift.x >= -g_dims.x && $0->shift.x <= g_dims.x && $0->shift.y >= -g_dims.y && $0->shift.y <= g_dims.y && $0->shift.z >= -g_dims.z && $0->shift.z <= g_dims.z", "$0->actual.p != 0"],
         inline=["sh_size"], solver=["--sat-solver", "cadical"], timeout=900, assigns=GA, ensures={"shifted_get_reads_the_cell_shifted_and_wrapped_into_the_extent_of_the_underlying_array":
                              "g_get_calls == 1 && g_asked_self == $0->actual.p && g_ax == %s && g_ay == %s && g_az == %s && FEQ(RET, g_cell_f)" % (W("x"), W("y"), W("z"))})
    A.fn("sh_size", pre_call=base + "  o_@0.actual.p = &the_under; o_@0.actual.c = 0;\n", requires=REQ + ["$0->actual.p != 0"], assigns=GA, ensures={"shifted_size_is_the_underlying_size": "RET.x == g_dims.x && RET.y == g_dims.y && RET.z == g_dims.z"})
    A.fn("sb_get", pre_call=base + "  o_@0.actual.p = &the_under; o_@0.actual.c = 0;\n", requires=REQ + ["$0->actual.p != 0", "$1->x >= 0 && $1->y >= 0 && $1->z >= 0 && $0->clipBox.lower.x >= 0 && $0->clipBox.lower.y >= 0 && $0->clipBox.lower.z >= 0",
                                                                                                 "$1->x <= 1000000 && $1->y <= 1000000 && $1->z <= 1000000 && $0->clipBox.lower.x <= 1000000 && $0->clipBox.lower.y <= 1000000 && $0->clipBox.lower.z <= 1000000"],
         assigns=GA, ensures={"sub_box_get_reads_the_cell_offset_by_the_box_origin":
                              "g_get_calls == 1 && g_asked_self == $0->actual.p && g_ax == $1->x + $0->clipBox.lower.x && g_ay == $1->y + $0->clipBox.lower.y && g_az == $1->z + $0->clipBox.lower.z && FEQ(RET, g_cell_f)"})
    A.fn("sb_size", pre_call=base, requires=REQ + ["$0->clipBox.lower.x >= 0 && $0->clipBox.lower.y >= 0 && $0->clipBox.lower.z >= 0 && $0->clipBox.upper.x >= $0->clipBox.lower.x && $0->clipBox.upper.y >= $0->clipBox.lower.y && $0->clipBox.upper.z >= $0->clipBox.lower.z"],
         assigns=GA, ensures={"sub_box_size_is_the_box_size": "RET.x == $0->clipBox.upper.x - $0->clipBox.lower.x && RET.y == $0->clipBox.upper.y - $0->clipBox.lower.y && RET.z == $0->clipBox.upper.z - $0->clipBox.lower.z"})
    A.fn("ac_get", pre_call=base + "  o_@0.actual.p = &the_under_i; o_@0.actual.c = 0;\n", requires=REQ + ["$0->actual.p != 0"], assigns=GA,
         ensures={"accessor_get_reads_the_same_cell_and_converts_the_value": "g_get_calls == 1 && g_asked_self == $0->actual.p && g_ax == $1->x && g_ay == $1->y && g_az == $1->z && FEQ(RET, (float)g_cell_i)"})
    ms = base + "  static Array3Df the_s0, the_s1, the_s2; unsigned long in_ns = nondet_ulong(); __CPROVER_assume(in_ns >= 1 && in_ns <= 3); o_@0.slice.n = in_ns; o_@0.slice.cap = 3;\n  o_@0.slice.b[0].p = &the_s0; o_@0.slice.b[1].p = &the_s1; o_@0.slice.b[2].p = &the_s2; o_@0.slice.b[0].c = 0; o_@0.slice.b[1].c = 0; o_@0.slice.b[2].c = 0;\n"
    MSREQ = REQ + ["$0->slice.n >= 1 && $0->slice.n <= 3 && $0->slice.b[0].p != 0 && $0->slice.b[1].p != 0 && $0->slice.b[2].p != 0"]
    ZC = "($1->z < 0 ? 0 : ($1->z > (int)$0->slice.n - 1 ? (int)$0->slice.n - 1 : $1->z))"
    A.fn("ms_get", pre_call=ms, requires=MSREQ, assigns=GA, unwind=5, inline=["ms_size"],
         ensures={"multi_slice_get_reads_cell_x_y_0_of_the_slice_selected_by_clamped_z": "g_get_calls == 1 && g_asked_self == $0->slice.b[%s].p && g_ax == $1->x && g_ay == $1->y && g_az == 0 && FEQ(RET, g_cell_f)" % ZC})
    A.fn("ms_size", pre_call=ms, requires=MSREQ, assigns=GA, unwind=5, ensures={"multi_slice_size_is_slice0_extent_by_number_of_slices": "RET.x == g_dims.x && RET.y == g_dims.y && RET.z == (int)$0->slice.n"})
    return A


META = dict(
    technique='z3 integer-mode VCs with machine-range obligations on the extracted index maps + CBMC 6.11 function contracts (iterators, adaptors against a recording stub); getValueRange by function + loop contracts for all regions; for_each by loop contracts for all regions; bounded unwinding for ActualArray3D get/set cells',
    level="proof",
    level_text="flatten/reshape (2-D, 3-D) and longIndex/coordsOf are proved mutually inverse on coordinates inside the extent and on [0,total), flatten < total, for EVERY extent (unbounded, z3 over the integers on VCs generated from the extracted code), together with the obligation that every intermediate value and every conversion fits its machine type (so machine arithmetic equals mathematical arithmetic: 'computed in 64 bits without overflow' is itself proved, and e.g. a 32-bit temporary for a row number is refuted). Iterator operations (++, ==, jump_to, current, begin, dimensions) have bit-precise CBMC contracts. The shifted, sub-box, accessor and multi-slice adaptors (unit c17_adaptors) are proved, against a recording interface stub of the underlying Array3D, to ask exactly one underlying array for exactly the cell their definition names (shift wrapped into the extent; offset by the box origin; same cell with value conversion; cell (x,y,0) of the slice selected by the clamped z) and to return its value. array3D::for_each (range, size and box forms; unit c17_foreach) is PROVED for every region (any int corners, empty regions included) with loop contracts on its three loops, against a probe functor that accepts a visit only if it lies in the region and is the expected next coordinate in flattened order (x fastest): no probe assertion fails and the expected-next coordinate ends one past the last cell, i.e. every coordinate of the region is visited exactly once, in order, and nothing outside it; the count of visits == product of the extents is additionally checked BOUNDED (fe_range#small_regions, at most 3 cells per axis). Array3D::getValueRange is proved for every non-empty region the same way (unit c17_range).",
    level_note="Trusted: clang AST, cxx2c, mathvc evaluator, z3; CBMC for the iterator contracts. ActualArray3D::get/set are checked BOUNDED (extents of at most 4 per axis): get reads the cell at the clamped coordinate, set writes exactly the cell of its coordinate and no other (so get returns the value last set there). Array3D::getValueRange(begin,end) and getValueRange() (unit c17_range) are PROVED for every non-empty region (no bound on the extents; loop contracts on the three loops of the for_each instantiation they run, keyed by loop ordinal; the loop-3 frame names the extractor's hoisted coordinate temporary __t1) against a recording get/size stub: only cells of the region are read, every cell of it is read (ghost coordinate, lexicographic progress invariant), the result bounds every value read and its two ends are the minimum and maximum of the values read (tight); an EMPTY region is outside that contract (the code then returns [get(begin), get(begin)]). NOT under contract: Array3DRepeater, numElements of the adaptors.",
    assumptions=["extent with total < 2^64 (multidim_index_sequence), positive int extents (array3D)"],
    bounded=["ActualArray3D get/set: extents of at most 4 per axis", "for_each visit COUNT (fe_range#small_regions): region extents of at most 3 per axis, coordinates in [-3,3], unwind 5 -- the order/coverage proof itself (fe_range, fe_size, fe_box) is unbounded"],
    unverified=["Array3DRepeater (mirrored repetition; not named by the property)", "adaptor numElements", "getValueRange on empty regions (returns the value of a cell outside the region; tightness is vacuous there)"],
    trusted_extra=["lib/mathvc.py symbolic evaluator", "z3 5.1.0"],
)
