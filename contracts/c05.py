"""C05: ranges and boxes as closed axis-aligned sets."""
import os
import z3
from unit import Unit
import vecgen
from vecgen import CXXT, ct, is_f, EQ, BOP, AND

# (tag, element type, shape) ; shape None = range_t<scalar>
BOXES_QUICK = [("box3i", "i32", "3"), ("box3f", "f32", "3"), ("box2i", "i32", "2"), ("box1f", "f32", None), ("box4f", "f32", "4"), ("box3fa", "f32", "3a")]
BOXES_MORE = [("box1i", "i32", None), ("box2f", "f32", "2"), ("box4i", "i32", "4")]


def btype(t, s):
    return "range_t<%s>" % (CXXT[t] if s is None else vecgen.vt(t, s))


def ptype(t, s):
    return CXXT[t] if s is None else vecgen.vt(t, s)


def comps(s):
    return [""] if s is None else list(vecgen.comps(s))


def F(obj, bound, c):
    """C path of component c of obj->bound"""
    return "%s->%s%s" % (obj, bound, ("." + c) if c else "")


def PT(p, c):
    return ("%s->%s" % (p, c)) if c else ("(*%s)" % p)


def RC(c):
    return ("RET.%s" % c) if c else "RET"


def gen_box(G, tag, t, s):
    B, P = btype(t, s), ptype(t, s)
    cs = comps(s)
    fl = is_f(t)
    nonan_b = lambda b: [("%s == %s && %s == %s" % (F(b, "lower", c), F(b, "lower", c), F(b, "upper", c), F(b, "upper", c))) for c in cs] if fl else []
    nonan_p = lambda p: [("%s == %s" % (PT(p, c), PT(p, c))) for c in cs] if fl else []
    IN = lambda b, p: AND(["%s <= %s && %s <= %s" % (F(b, "lower", c), PT(p, c), PT(p, c), F(b, "upper", c)) for c in cs])
    NE = lambda b: AND(["%s <= %s" % (F(b, "lower", c), F(b, "upper", c)) for c in cs])
    mn = lambda a, b: "(%s < %s ? %s : %s)" % (b, a, b, a)   # std::min(a,b)
    mx = lambda a, b: "(%s < %s ? %s : %s)" % (a, b, b, a)   # std::max(a,b)
    kw_p = dict(single=["t"]) if s is None else {}
    G.use(tag + "_contains", "bool", "const %s &b, const %s &t" % (B, P), "b.contains(t)", requires=nonan_b("$0") + nonan_p("$1"),
          ensures={"contains_iff_componentwise_closed": "RET == " + IN("$0", "$1")}, **kw_p)
    G.use(tag + "_intersectionOf", B, "const %s &a, const %s &b" % (B, B), "intersectionOf(a, b)", requires=nonan_b("$0") + nonan_b("$1"),
          ensures={"lower_is_max": AND([EQ(t, "RET.lower" + ("." + c if c else ""), mx(F("$0", "lower", c), F("$1", "lower", c))) for c in cs]),
                   "upper_is_min": AND([EQ(t, "RET.upper" + ("." + c if c else ""), mn(F("$0", "upper", c), F("$1", "upper", c))) for c in cs])}) if s is not None else None
    G.use(tag + "_extend", "void", "%s &b, const %s &t" % (B, P), "b.extend(t)", requires=nonan_b("$0") + nonan_p("$1"), assigns=["*$0"],
          ensures={"lower_is_min": AND([EQ(t, F("$0", "lower", c), mn("OLD(%s)" % F("$0", "lower", c), "OLD(%s)" % PT("$1", c))) for c in cs]),
                   "upper_is_max": AND([EQ(t, F("$0", "upper", c), mx("OLD(%s)" % F("$0", "upper", c), "OLD(%s)" % PT("$1", c))) for c in cs])}, **kw_p)
    G.use(tag + "_extend_box", "void", "%s &b, const %s &t" % (B, B), "b.extend(t)", requires=nonan_b("$0") + nonan_b("$1"), assigns=["*$0"],
          ensures={"lower_is_min": AND([EQ(t, F("$0", "lower", c), mn("OLD(%s)" % F("$0", "lower", c), "OLD(%s)" % F("$1", "lower", c))) for c in cs]),
                   "upper_is_max": AND([EQ(t, F("$0", "upper", c), mx("OLD(%s)" % F("$0", "upper", c), "OLD(%s)" % F("$1", "upper", c))) for c in cs])})
    POS = {"i32": "2147483647", "f32": "__builtin_inff()"}[t]
    NEG = {"i32": "(-2147483647-1)", "f32": "(-__builtin_inff())"}[t]
    G.use(tag + "_default", B, "", "%s()" % B, assigns=["*$0"], noalias=True,
          ensures={"default_is_empty_identity": AND(["%s == %s && %s == %s" % (F("$0", "lower", c), POS, F("$0", "upper", c), NEG) for c in cs])})
    G.use(tag + "_empty", "bool", "const %s &b" % B, "b.empty()", requires=nonan_b("$0"),
          ensures={"empty_iff_some_axis_inverted": "RET == (" + " || ".join("%s < %s" % (F("$0", "upper", c), F("$0", "lower", c)) for c in cs) + ")"})
    G.use(tag + "_clamp", P, "const %s &b, const %s &t" % (B, P), "b.clamp(t)", requires=nonan_b("$0") + nonan_p("$1") + [NE("$0")],
          ensures={"clamp_componentwise_nearest": AND([("%s == %s" % (RC(c), "(%s < %s ? %s : (%s < %s ? %s : %s))" % (PT("$1", c), F("$0", "lower", c), F("$0", "lower", c), F("$0", "upper", c), PT("$1", c), F("$0", "upper", c), PT("$1", c)))) for c in cs])}, **kw_p)
    p = vecgen.promoted(t)
    G.use(tag + "_size", P, "const %s &b" % B, "b.size()",
          ensures={"size_is_upper_minus_lower": AND([EQ(t, RC(c), "(%s)%s" % (ct(t), BOP(p, "-", F("$0", "upper", c), F("$0", "lower", c)))) for c in cs])})
    G.use(tag + "_eq", "bool", "const %s &a, const %s &b" % (B, B), "a == b",
          ensures={"eq_iff_bounds_equal": "RET == " + AND(["%s == %s && %s == %s" % (F("$0", "lower", c), F("$1", "lower", c), F("$0", "upper", c), F("$1", "upper", c)) for c in cs])})
    G.use(tag + "_ne", "bool", "const %s &a, const %s &b" % (B, B), "a != b",
          ensures={"ne_iff_some_bound_differs": "RET == !" + AND(["%s == %s && %s == %s" % (F("$0", "lower", c), F("$1", "lower", c), F("$0", "upper", c), F("$1", "upper", c)) for c in cs])})
    # scale / translate (per component), both argument orders
    for (nm, op, expr, sw) in (("scale", "*", "b * t", False), ("scale_l", "*", "t * b", True), ("translate", "+", "b + t", False), ("translate_l", "+", "t + b", True)):
        params = ("const %s &t, const %s &b" % (P, B)) if sw else ("const %s &b, const %s &t" % (B, P))
        bo, po = ("$1", "$0") if sw else ("$0", "$1")
        G.use("%s_%s" % (tag, nm), B, params, expr,
              ensures={"%s_lower" % nm: AND([EQ(t, "RET.lower" + ("." + c if c else ""), "(%s)%s" % (ct(t), BOP(p, op, F(bo, "lower", c), PT(po, c)))) for c in cs]),
                       "%s_upper" % nm: AND([EQ(t, "RET.upper" + ("." + c if c else ""), "(%s)%s" % (ct(t), BOP(p, op, F(bo, "upper", c), PT(po, c)))) for c in cs])},
              single=["t"] if s is None else [])
    if s in ("2", "3", "3a"):
        INTER_EMPTY = "(" + " || ".join("%s > %s" % (mx(F("$0", "lower", c), F("$1", "lower", c)), mn(F("$0", "upper", c), F("$1", "upper", c))) for c in cs) + ")"
        G.use(tag + "_touchingOrOverlapping", "bool", "const %s &a, const %s &b" % (B, B), "touchingOrOverlapping(a, b)", requires=nonan_b("$0") + nonan_b("$1"), ensures={
            "touching_iff_intersection_nonempty__nonempty_operands": "IMP(%s && %s, RET == !%s)" % (NE("$0"), NE("$1"), INTER_EMPTY),
            "touching_iff_intersection_nonempty__empty_operand": "IMP(!%s || !%s, RET == 0)" % (NE("$0"), NE("$1"))})
    if s is not None:
        INTER_EMPTY = "(" + " || ".join("%s > %s" % (mx(F("$0", "lower", c), F("$1", "lower", c)), mn(F("$0", "upper", c), F("$1", "upper", c))) for c in cs) + ")"
        G.use(tag + "_disjoint", "bool", "const %s &a, const %s &b" % (B, B), "disjoint(a, b)", requires=nonan_b("$0") + nonan_b("$1"), ensures={
            "disjoint_iff_intersection_empty__nonempty_operands": "IMP(%s && %s, RET == %s)" % (NE("$0"), NE("$1"), INTER_EMPTY),
            "disjoint_iff_intersection_empty__empty_operand": "IMP(!%s || !%s, RET == 1)" % (NE("$0"), NE("$1"))})


def lemmas(U, tag, t, s):
    tr_box, tr_pt = tag, None  # C type names are resolved at lemma time through the extractor's record names
    cs = comps(s)
    fl = is_f(t)
    has_inter = s is not None
    has_touch = s in ("2", "3", "3a")
    def nn_b(b):
        return "".join("  ASSUME(%s.lower%s == %s.lower%s && %s.upper%s == %s.upper%s);\n" % ((b, "." + c if c else "") * 4) for c in cs) if fl else ""
    def nn_p(p):
        return "".join("  ASSUME(%s%s == %s%s);\n" % ((p, "." + c if c else "") * 2) for c in cs) if fl else ""
    BT = tag
    PTY = ct(t) if s is None else ("vec%s%s%s" % (s[0], "i" if t == "i32" else "f", "a" if s == "3a" else ""))
    eqp = lambda a, b: " && ".join("%s%s == %s%s" % (a, "." + c if c else "", b, "." + c if c else "") for c in cs)
    if has_inter:
        U.lemma(tag + "_L2_intersection_exact", [(BT, "a"), (BT, "b"), (PTY, "p")], nn_b("a") + nn_b("b") + nn_p("p") + """
  %s i = %s_intersectionOf(&a, &b);
  _Bool ci = %s_contains(&i, &p);
  _Bool ca = %s_contains(&a, &p);
  _Bool cb = %s_contains(&b, &p);
  ASSERT(intersection_contains_exactly_common_points, ci == (ca && cb));
""" % (BT, tag, tag, tag, tag), uses=[tag + "_intersectionOf", tag + "_contains"])
    U.lemma(tag + "_L1_extend_smallest", [(BT, "a"), (PTY, "x"), (PTY, "p"), (BT, "c")], nn_b("a") + nn_b("c") + nn_p("x") + nn_p("p") + """
  %(B)s old = a;
  _Bool p_in_old = %(t)s_contains(&old, &p);
  %(t)s_extend(&a, &x);
  ASSERT(extend_contains_argument, %(t)s_contains(&a, &x));
  ASSERT(extend_contains_old_points, !p_in_old || %(t)s_contains(&a, &p));
  _Bool old_empty = %(t)s_empty(&old);
  if (%(t)s_contains(&c, &x) && (old_empty || (%(t)s_contains(&c, &old.lower) && %(t)s_contains(&c, &old.upper)))) {
    ASSERT(extend_is_smallest, old_empty ? 1 : (%(t)s_contains(&c, &a.lower) && %(t)s_contains(&c, &a.upper)));
  }
  %(B)s d; %(t)s_default(&d);
  %(t)s_extend(&d, &x);
  ASSERT(default_box_is_identity, %(e1)s && %(e2)s);
""" % dict(B=BT, t=tag, e1=eqp("d.lower", "x"), e2=eqp("d.upper", "x")), uses=[tag + "_extend", tag + "_contains", tag + "_empty", tag + "_default"])
    if has_inter:
        body = nn_b("a") + nn_b("b") + """
  _Bool ea = %(t)s_empty(&a), eb = %(t)s_empty(&b);
  %(B)s i = %(t)s_intersectionOf(&a, &b);
  _Bool ei = %(t)s_empty(&i);
  _Bool dj = %(t)s_disjoint(&a, &b);
""" % dict(B=BT, t=tag)
        uses = [tag + "_empty", tag + "_intersectionOf", tag + "_disjoint"]
        if has_touch:
            body += "  _Bool to = %s_touchingOrOverlapping(&a, &b);\n" % tag
            uses.append(tag + "_touchingOrOverlapping")
        body += "  if (!ea && !eb) {\n    ASSERT(intersection_empty_iff_disjoint, ei == dj);\n"
        if has_touch:
            body += "    ASSERT(disjoint_iff_not_touching, dj == !to);\n"
        body += "  } else {\n    ASSERT(intersection_with_empty_is_empty, ei);\n    ASSERT(disjoint_with_empty_operand, dj);\n"
        if has_touch:
            body += "    ASSERT(not_touching_with_empty_operand, !to);\n"
        body += "  }\n"
        U.lemma(tag + "_L3_empty_disjoint_touching", [(BT, "a"), (BT, "b")], body, uses=uses)
    U.lemma(tag + "_L4_clamp_contained", [(BT, "a"), (PTY, "t")], nn_b("a") + nn_p("t") + """
  if (!%(t)s_empty(&a)) {
    %(P)s c = %(t)s_clamp(&a, &t);
    ASSERT(clamp_result_contained, %(t)s_contains(&a, &c));
    if (%(t)s_contains(&a, &t)) ASSERT(clamp_identity_inside, %(e)s);
  }
""" % dict(t=tag, P=PTY, e=eqp("c", "t")), uses=[tag + "_empty", tag + "_clamp", tag + "_contains"])


def units():
    tier = os.environ.get("VERIF_TIER_EFFECTIVE", "quick")
    boxes = BOXES_QUICK + (BOXES_MORE if tier == "thorough" else [])
    G = vecgen.Gen("c05_box")
    for (tag, t, s) in boxes:
        gen_box(G, tag, t, s)
    # real-mode functions
    G.lines.append("box3f box3f_xfmBounds(const AffineSpace3f &m, const box3f &b) { return xfmBounds(m, b); }")
    G.lines.append("vec3f affine3f_xfmPoint(const AffineSpace3f &m, const vec3f &p) { return xfmPoint(m, p); }")
    G.lines.append("float rcp__f32(float x) { return rcp(x); }")
    G.lines.append("range1f box3f_intersectRayBox(const vec3f &org, const vec3f &dir, const box3f &box, const range1f &tRange) { return intersectRayBox(org, dir, box, tRange); }")
    for (tag, t, s) in boxes:
        if is_f(t) and s is not None:
            G.lines.append("%s %s_center(const %s &b) { return center(b); }" % (vecgen.vt(t, s), tag, btype(t, s)))
        if s in ("3", "3a"):
            G.lines.append("%s %s_area(const %s &b) { return area(b); }" % (CXXT[t], tag, btype(t, s)))
            G.lines.append("%s %s_volume(const %s &b) { return volume(b); }" % (CXXT[t], tag, btype(t, s)))
        if s == "2":
            G.lines.append("%s %s_area(const %s &b) { return area(b); }" % (CXXT[t], tag, btype(t, s)))
    U = Unit("c05_box", "build/units/c05_box.cpp", gen=lambda p: G.write(p, ["rkcommon/math/box.h", "rkcommon/math/AffineSpace.h"]),
             opts=dict(uf_arith=True, opaque=["rcp__f32"]))
    G.apply(U)
    for (tag, t, s) in boxes:
        lemmas(U, tag, t, s)
    math_part(U, boxes)
    return [U]


def math_part(U, boxes):
    A = z3.And
    for (tag, t, s) in boxes:
        cs = comps(s)
        if is_f(t) and s is not None:
            U.mfn(tag + "_center", "real", {"center_is_midpoint": lambda P, RET, Q, cs=cs: [2 * getattr(RET, c) == getattr(P[0].lower, c) + getattr(P[0].upper, c) for c in cs]})
        if s in ("3", "3a") and is_f(t):
            sz = lambda b, c: getattr(b.upper, c) - getattr(b.lower, c)
            U.mfn(tag + "_area", "real", {"area_is_surface_area": lambda P, RET, Q: RET == 2 * (sz(P[0], "x") * sz(P[0], "y") + sz(P[0], "x") * sz(P[0], "z") + sz(P[0], "y") * sz(P[0], "z"))})
            U.mfn(tag + "_volume", "real", {"volume_is_product_of_extents": lambda P, RET, Q: RET == sz(P[0], "x") * sz(P[0], "y") * sz(P[0], "z")})
        if s == "2":
            sz = lambda b, c: getattr(b.upper, c) - getattr(b.lower, c)
            U.mfn(tag + "_area", "real" if is_f(t) else "int", {"area_is_product_of_extents": lambda P, RET, Q: RET == sz(P[0], "x") * sz(P[0], "y")})
        if s == "3" and not is_f(t):
            sz = lambda b, c: getattr(b.upper, c) - getattr(b.lower, c)
            U.mfn(tag + "_volume", "int", {"volume_is_product_of_extents": lambda P, RET, Q: RET == sz(P[0], "x") * sz(P[0], "y") * sz(P[0], "z")})

    def xfm_lemma(ctx):
        m = ctx.new("affine3f", "m")
        b = ctx.new("box3f", "b")
        p = ctx.new("vec3f", "p")
        hyp = [getattr(b.lower, c) <= getattr(p, c) for c in "xyz"] + [getattr(p, c) <= getattr(b.upper, c) for c in "xyz"]
        B = ctx.call("box3f_xfmBounds", m, b)
        q = ctx.call("affine3f_xfmPoint", m, p)
        goals = {}
        for c in "xyz":
            goals["xfmBounds_contains_image_of_every_point_" + c] = A(getattr(B.lower, c) <= getattr(q, c), getattr(q, c) <= getattr(B.upper, c))
        # definition of xfmPoint (full affine map)
        for c in "xyz":
            goals["xfmPoint_is_affine_map_" + c] = getattr(q, c) == getattr(m.l.vx, c) * p.x + getattr(m.l.vy, c) * p.y + getattr(m.l.vz, c) * p.z + getattr(m.p, c)
        return hyp, goals
    U.mlemma("xfmBounds_contains_image", "real", xfm_lemma, timeout=120)

    def ray_lemma(ctx):
        org = ctx.new("vec3f", "org"); d = ctx.new("vec3f", "dir"); box = ctx.new("box3f", "box"); tr = ctx.new("box1f", "tRange")
        t = ctx.scalar("t")
        FLT_MIN = z3.RealVal("1.17549435e-38")
        hyp = []
        for c in "xyz":
            dc = getattr(d, c)
            hyp.append(z3.Or(dc >= FLT_MIN, dc <= -FLT_MIN))     # rcp_safe(dir) is the reciprocal
            hyp.append(getattr(box.lower, c) <= getattr(box.upper, c))  # non-empty box
        R = ctx.call("box3f_intersectRayBox", org, d, box, tr)
        inside = A(*[A(getattr(box.lower, c) <= getattr(org, c) + t * getattr(d, c), getattr(org, c) + t * getattr(d, c) <= getattr(box.upper, c)) for c in "xyz"])
        goal = (A(R.lower <= t, t <= R.upper)) == A(tr.lower <= t, t <= tr.upper, inside)
        return hyp, {"ray_interval_is_exactly_the_parameters_inside_the_box": goal}
    U.mlemma("intersectRayBox_exact", "real", ray_lemma, timeout=200, models={"rcp__f32": lambda ev, st, x: ev.arith("/", ev.num(1), x)})


META = dict(
    technique='CBMC 6.11 function contracts (dfcc, uninterpreted scalar arithmetic) for the box/range operations + z3 (real arithmetic) lemmas over VCs generated from the same extracted IR for ray/box and xfmBounds',
    level="proof",
    level_text="Every range_t/box_t function listed is extracted from /repo on each run and its contract (written from the property statement: closed-set membership, min/max lattice operations, emptiness) is enforced by CBMC for all operand values (int32 exactly; float with a no-NaN precondition, comparisons are bit-precise and arithmetic is uninterpreted); the set-level clauses (intersection contains exactly the common points; extend is the smallest enclosing box with the empty box as identity; intersection-empty <=> disjoint <=> not touching incl. empty operands; clamp lands inside) are lemmas proved from the callee contracts for a symbolic point and symbolic boxes, so faces, edges, corners and empty operands are all covered. center/area/volume, xfmBounds (image of every point is inside) and intersectRayBox (exact parameter interval) are decided over the reals by z3 on VCs generated from the same extracted code.",
    level_note="Trusted: clang AST + cxx2c extractor + prelude models of std::min/max; CBMC; z3. Float instantiations assume no NaN; real-mode obligations treat machine arithmetic as mathematical, so 'within rounding' is not quantified. intersectRayBox assumes |dir.c| >= FLT_MIN (rcp_safe is then the reciprocal) and a non-empty box.",
    assumptions=["no NaN in float boxes/points", "real-mode lemmas: float arithmetic treated as real arithmetic (rounding not modelled)", "intersectRayBox: |dir.c| >= FLT_MIN, box non-empty, rcp(x) modelled as 1/x"],
    unverified=["fromString", "operator<< streaming of ranges", "rounding magnitudes", "axis-parallel rays through rcp_safe's clamping", "center/area/volume of integer boxes (float round trip)"],
)
