"""C05: ranges and boxes as closed axis-aligned sets."""
from unit import Unit

def CW(fmt, comps="xyz", sep=" && "):
    return "(" + sep.join("(" + fmt.replace("$", c) + ")" for c in comps) + ")"

def units():
    U = Unit("c05_box", "units/c05_box.cpp", helpers="""
static inline int spec_imin(int a, int b) { return a < b ? a : b; }
static inline int spec_imax(int a, int b) { return a > b ? a : b; }
""")
    IN = lambda b, p: CW("%s->lower.$ <= %s->$ && %s->$ <= %s->upper.$" % (b, p, p, b))
    U.fn("box3i_contains", ensures={
        "contains_iff_componentwise_closed": "RET == " + IN("self", "t")})
    U.fn("box3i_intersectionOf", ensures={
        "lower_is_max": CW("RET.lower.$ == spec_imax(a->lower.$, b->lower.$)"),
        "upper_is_min": CW("RET.upper.$ == spec_imin(a->upper.$, b->upper.$)")})
    U.fn("box3i_extend", assigns=["*self"], ensures={
        "lower_is_min": CW("self->lower.$ == spec_imin(OLD(self->lower.$), OLD(t->$))"),
        "upper_is_max": CW("self->upper.$ == spec_imax(OLD(self->upper.$), OLD(t->$))")})
    U.fn("box3i_extend_box", assigns=["*self"], ensures={
        "lower_is_min": CW("self->lower.$ == spec_imin(OLD(self->lower.$), OLD(t->lower.$))"),
        "upper_is_max": CW("self->upper.$ == spec_imax(OLD(self->upper.$), OLD(t->upper.$))")})
    U.fn("box3i_default", assigns=["*self"], noalias=True, ensures={
        "empty_identity": CW("self->lower.$ == 2147483647 && self->upper.$ == (-2147483647-1)")})
    U.fn("box3i_empty", ensures={"empty_iff_some_axis_inverted": "RET == " + CW("self->upper.$ < self->lower.$", sep=" || ")})
    U.fn("box3i_clamp", requires=[CW("self->lower.$ <= self->upper.$")], ensures={
        "clamp_componentwise_nearest": CW("RET.$ == (t->$ < self->lower.$ ? self->lower.$ : (t->$ > self->upper.$ ? self->upper.$ : t->$))")})
    # property statement: intersectionOf is empty exactly when disjoint() holds, which is exactly when
    # touchingOrOverlapping() does not.  INTER_EMPTY is "max(lower) > min(upper) on some axis".
    INTER_EMPTY = CW("spec_imax(a->lower.$, b->lower.$) > spec_imin(a->upper.$, b->upper.$)", sep=" || ")
    NE = lambda b: CW("%s->lower.$ <= %s->upper.$" % (b, b))
    U.fn("box3i_touchingOrOverlapping", ensures={
        "touching_iff_intersection_nonempty__nonempty_operands": "IMP(%s && %s, RET == !%s)" % (NE("a"), NE("b"), INTER_EMPTY),
        "touching_iff_intersection_nonempty__empty_operand": "IMP(!%s || !%s, RET == 0)" % (NE("a"), NE("b"))})
    U.fn("box3i_disjoint", ensures={
        "disjoint_iff_intersection_empty__nonempty_operands": "IMP(%s && %s, RET == %s)" % (NE("a"), NE("b"), INTER_EMPTY),
        "disjoint_iff_intersection_empty__empty_operand": "IMP(!%s || !%s, RET == 1)" % (NE("a"), NE("b"))})
    U.fn("box3i_size", requires=[CW("(long)self->upper.$ - (long)self->lower.$ <= 2147483647l && (long)self->upper.$ - (long)self->lower.$ >= -2147483648l")],
         ensures={"size_is_upper_minus_lower": CW("RET.$ == self->upper.$ - self->lower.$")})
    # lemmas over the contracts (symbolic boxes and point)
    U.lemma("L2_intersection_exact", [("box3i", "a"), ("box3i", "b"), ("vec3i", "p")], """
  box3i i = box3i_intersectionOf(&a, &b);
  _Bool ci = box3i_contains(&i, &p);
  _Bool ca = box3i_contains(&a, &p);
  _Bool cb = box3i_contains(&b, &p);
  ASSERT(intersection_contains_exactly_common_points, ci == (ca && cb));
""", uses=["box3i_intersectionOf", "box3i_contains"])
    U.lemma("L1_extend_smallest", [("box3i", "a"), ("vec3i", "x"), ("vec3i", "p"), ("box3i", "c")], """
  box3i old = a;
  _Bool p_in_old = box3i_contains(&old, &p);
  box3i_extend(&a, &x);
  ASSERT(extend_contains_argument, box3i_contains(&a, &x));
  ASSERT(extend_contains_old_points, !p_in_old || box3i_contains(&a, &p));
  /* smallest: any box c that contains x and (if old is non-empty) old's corners contains the new corners */
  _Bool old_empty = box3i_empty(&old);
  if (box3i_contains(&c, &x) && (old_empty || (box3i_contains(&c, &old.lower) && box3i_contains(&c, &old.upper)))) {
    ASSERT(extend_is_smallest, old_empty ? 1 : (box3i_contains(&c, &a.lower) && box3i_contains(&c, &a.upper)));
  }
  box3i d; box3i_default(&d);
  box3i_extend(&d, &x);
  ASSERT(default_box_is_identity, d.lower.x == x.x && d.lower.y == x.y && d.lower.z == x.z && d.upper.x == x.x && d.upper.y == x.y && d.upper.z == x.z);
""", uses=["box3i_extend", "box3i_contains", "box3i_empty", "box3i_default"])
    U.lemma("L3_empty_disjoint_touching", [("box3i", "a"), ("box3i", "b")], """
  _Bool ea = box3i_empty(&a), eb = box3i_empty(&b);
  box3i i = box3i_intersectionOf(&a, &b);
  _Bool ei = box3i_empty(&i);
  _Bool dj = box3i_disjoint(&a, &b);
  _Bool to = box3i_touchingOrOverlapping(&a, &b);
  if (!ea && !eb) {
    ASSERT(intersection_empty_iff_disjoint, ei == dj);
    ASSERT(disjoint_iff_not_touching, dj == !to);
  } else {
    ASSERT(intersection_with_empty_is_empty, ei);
    ASSERT(disjoint_with_empty_operand, dj);
    ASSERT(not_touching_with_empty_operand, !to);
  }
""", uses=["box3i_empty", "box3i_intersectionOf", "box3i_disjoint", "box3i_touchingOrOverlapping"])
    U.lemma("L4_clamp_contained", [("box3i", "a"), ("vec3i", "t")], """
  if (!box3i_empty(&a)) {
    vec3i c = box3i_clamp(&a, &t);
    ASSERT(clamp_result_contained, box3i_contains(&a, &c));
    if (box3i_contains(&a, &t)) ASSERT(clamp_identity_inside, c.x == t.x && c.y == t.y && c.z == t.z);
  }
""", uses=["box3i_empty", "box3i_clamp", "box3i_contains"])
    return [U]

META = dict(
    level="proof",
    level_text="Every range_t/box_t function listed is extracted from /repo on each run and its contract (written from the property statement: closed-set membership, min/max lattice operations, emptiness) is enforced by CBMC for all 2^N operand values; the set-level clauses (intersection contains exactly the common points; extend is the smallest enclosing box with the empty box as identity; intersection-empty <=> disjoint <=> not touching; clamp lands inside) are lemmas proved from the callee contracts for a symbolic point and symbolic boxes, so faces, edges, corners and empty operands are all covered. Bit-precise, no bound.",
    level_note="Trusted: clang AST + cxx2c extractor + prelude models of std::min/max; CBMC. Integer instantiations are exact; float instantiations assume no NaN; 'within rounding' clauses (xfmBounds, intersectRayBox, center/area/volume over floats) are decided over the reals by z3 (machine arithmetic treated as mathematical) or listed unverified.",
    assumptions=["no NaN in float boxes/points", "signed element arithmetic in size() does not overflow (precondition)"],
    unverified=["fromString", "operator<< streaming of ranges"],
)
