"""C09: Optional (and Any) behave as value types for every payload type and history."""
from unit import Unit

PROBE_OPS = ["probe_ctor_default", "probe_ctor_copy", "probe_ctor_move", "probe_dtor", "probe_assign_copy", "probe_assign_move", "probe_eq"]

STUBS = """
/* Probe payload: its special member functions are stubs that check, in ghost state, the liveness discipline of the
 * storage they are applied to.  Two storages are tracked (registered by the harness); every other Probe object is one of
 * the caller's own live objects. */
void *g_st[2];
_Bool g_live[2];
unsigned g_ctors, g_dtors;
static inline int probe_idx(const void *p) { return p == g_st[0] ? 0 : (p == g_st[1] ? 1 : -1); }
void probe_ctor_default(Probe *self)
{
  int i = probe_idx(self);
  __CPROVER_assert(i < 0 || !g_live[i], "PROBE a payload is constructed over storage that already holds a live object");
  if (i >= 0) { g_live[i] = 1; g_ctors++; }
  self->v = 0;
}
void probe_ctor_copy(Probe *self, Probe *o)
{
  int i = probe_idx(self), j = probe_idx(o);
  __CPROVER_assert(j < 0 || g_live[j], "PROBE a payload is copy-constructed FROM storage that holds no live object");
  __CPROVER_assert(i < 0 || !g_live[i], "PROBE a payload is constructed over storage that already holds a live object");
  if (i >= 0) { g_live[i] = 1; g_ctors++; }
  self->v = o->v;
}
void probe_ctor_move(Probe *self, Probe *o)
{
  int i = probe_idx(self), j = probe_idx(o);
  __CPROVER_assert(j < 0 || g_live[j], "PROBE a payload is move-constructed FROM storage that holds no live object");
  __CPROVER_assert(i < 0 || !g_live[i], "PROBE a payload is constructed over storage that already holds a live object");
  if (i >= 0) { g_live[i] = 1; g_ctors++; }
  self->v = o->v;
}
void probe_dtor(Probe *self)
{
  int i = probe_idx(self);
  __CPROVER_assert(i < 0 || g_live[i], "PROBE a payload destructor runs on storage that holds no live object (double destruction)");
  if (i >= 0) { g_live[i] = 0; g_dtors++; }
}
Probe *probe_assign_copy(Probe *self, Probe *o)
{
  int i = probe_idx(self), j = probe_idx(o);
  __CPROVER_assert(i < 0 || g_live[i], "PROBE a payload is assigned INTO storage that holds no live object");
  __CPROVER_assert(j < 0 || g_live[j], "PROBE a payload is assigned FROM storage that holds no live object");
  self->v = o->v;
  return self;
}
Probe *probe_assign_move(Probe *self, Probe *o)
{
  int i = probe_idx(self), j = probe_idx(o);
  __CPROVER_assert(i < 0 || g_live[i], "PROBE a payload is move-assigned INTO storage that holds no live object");
  __CPROVER_assert(j < 0 || g_live[j], "PROBE a payload is move-assigned FROM storage that holds no live object");
  self->v = o->v;
  return self;
}
_Bool probe_eq(Probe *a, Probe *b)
{
  int i = probe_idx(a), j = probe_idx(b);
  __CPROVER_assert(i < 0 || g_live[i], "PROBE operator== reads storage that holds no live object");
  __CPROVER_assert(j < 0 || g_live[j], "PROBE operator== reads storage that holds no live object");
  return a->v == b->v;
}
"""
G = ["__CPROVER_object_whole(g_live)", "g_ctors", "g_dtors"]
VAL = lambda o: "((Probe *)&%s->storage)->v" % o


def world(two, fresh_self=False, alias=False):
    """harness: Optional objects with arbitrary engaged/empty state consistent with the ghost (hasValue <=> live)"""
    L = ["  OptProbe A, B; int in_va = nondet_int(), in_vb = nondet_int(); _Bool in_ea = nondet__Bool(), in_eb = nondet__Bool();",
         "  g_st[0] = &A.storage; g_st[1] = &B.storage; g_ctors = 0; g_dtors = 0;",
         "  A.hasValue = in_ea; g_live[0] = in_ea; ((Probe *)&A.storage)->v = in_va;",
         "  B.hasValue = in_eb; g_live[1] = in_eb; ((Probe *)&B.storage)->v = in_vb;",
         "  Probe V; int in_v = nondet_int(); V.v = in_v;"]
    if fresh_self:
        L.append("  g_live[0] = 0;  /* A is raw storage about to be constructed */")
    if alias:
        L.append("  OptProbe *pb = &B; _Bool in_alias = nondet__Bool(); if (in_alias) pb = &A;")
    return "\n".join(L) + "\n"


def custom(call, ret=None, fresh_self=False, alias=False):
    def mk(U_, spec, f):
        L = ["void h_%s(void)\n{" % f.cname, "  verif_lib_anchor(); __verif_exc = 0;", world(True, fresh_self, alias)]
        L.append(("  %s ret = %s;" % (ret, call)) if ret else ("  %s;" % call))
        L.append("  __CPROVER_assert(0, \"VERIF_CANARY reachable end of harness\");\n}")
        return "\n".join(L) + "\n", []
    return mk


def units():
    U = Unit("c09_optional", "units/c09_optional.cpp", stubs=STUBS, opts=dict(stub_bodies=PROBE_OPS))
    for p in PROBE_OPS:
        U.stub(p, "probe payload operation: checks and updates ghost liveness of the storage it is applied to (contracts/c09.py)")
    INV0 = "(($0->hasValue != 0) == (g_live[0] != 0))"
    INV1 = "(($1->hasValue != 0) == (g_live[1] != 0))"
    REG0 = "g_st[0] == (void *)&$0->storage"
    REG1 = "g_st[1] == (void *)&$1->storage"
    U.fn("op_ctor_default", harness=custom("op_ctor_default(&A)", fresh_self=True), requires=[REG0, "g_live[0] == 0"], assigns=["*$0"] + G,
         ensures={"other_tracked_storage_untouched": "(g_live[1] != 0) == (OLD(g_live[1]) != 0)", "default_constructed_is_empty": "$0->hasValue == 0 && g_live[0] == 0"})
    U.fn("op_ctor_value", harness=custom("op_ctor_value(&A, &V)", fresh_self=True), requires=[REG0, "g_live[0] == 0"], assigns=["*$0"] + G, noalias=True,
         ensures={"other_tracked_storage_untouched": "(g_live[1] != 0) == (OLD(g_live[1]) != 0)", "constructed_from_value_is_engaged_with_that_value": "$0->hasValue != 0 && g_live[0] != 0 && %s == $1->v" % VAL("$0")})
    src_same = "$1->hasValue == OLD($1->hasValue) && (g_live[1] != 0) == (OLD(g_live[1]) != 0)"
    U.fn("op_ctor_copy", harness=custom("op_ctor_copy(&A, &B)", fresh_self=True), requires=[REG0, REG1, "g_live[0] == 0", INV1], assigns=["*$0"] + G, noalias=True,
         ensures={"copy_is_engaged_exactly_when_source_is": "($0->hasValue != 0) == ($1->hasValue != 0)", "copy_holds_live_payload_iff_engaged": INV0,
                  "copy_has_source_value": "IMP($0->hasValue != 0, %s == %s)" % (VAL("$0"), VAL("$1")), "source_unchanged": src_same})
    U.fn("op_ctor_move", harness=custom("op_ctor_move(&A, &B)", fresh_self=True), requires=[REG0, REG1, "g_live[0] == 0", INV1], assigns=["*$0", "*$1"] + G, noalias=True,
         ensures={"moved_to_is_engaged_exactly_when_source_was": "($0->hasValue != 0) == (OLD($1->hasValue) != 0)", "moved_to_holds_live_payload_iff_engaged": INV0,
                  "moved_to_has_source_value": "IMP($0->hasValue != 0, %s == OLD(%s))" % (VAL("$0"), VAL("$1")), "source_still_consistent": INV1})
    U.fn("op_dtor", harness=custom("op_dtor(&A)"), requires=[REG0, INV0], assigns=["*$0"] + G,
         ensures={"other_tracked_storage_untouched": "(g_live[1] != 0) == (OLD(g_live[1]) != 0)", "destructor_destroys_the_payload_exactly_when_there_is_one": "g_live[0] == 0 && g_dtors == (OLD($0->hasValue) != 0 ? 1 : 0)"})
    U.fn("op_reset", harness=custom("op_reset(&A)"), requires=[REG0, INV0], assigns=["*$0"] + G,
         ensures={"other_tracked_storage_untouched": "(g_live[1] != 0) == (OLD(g_live[1]) != 0)", "reset_empties": "$0->hasValue == 0 && g_live[0] == 0", "reset_destroys_once": "g_dtors == (OLD($0->hasValue) != 0 ? 1 : 0)"})
    for nm, call in (("op_assign_copy", "op_assign_copy(&A, pb)"), ("op_assign_move", "op_assign_move(&A, pb)")):
        U.fn(nm, harness=custom(call, ret="OptProbe *", alias=True), requires=[REG0, "g_st[1] != 0", INV0, "$1 == $0 || (g_st[1] == (void *)&$1->storage && %s)" % INV1],
             assigns=["*$0", "*$1"] + G,
             ensures={"assigned_is_engaged_exactly_when_source_was": "($0->hasValue != 0) == (OLD($1->hasValue) != 0)", "assigned_holds_live_payload_iff_engaged": INV0,
                      "assigned_has_source_value": "IMP($0->hasValue != 0, %s == OLD(%s))" % (VAL("$0"), VAL("$1")),
                      "source_still_consistent": "IMP($1 != $0, %s)" % INV1, "returns_self": "RET == $0"})
    # the assigned value may be the Optional's own payload (opt = *opt)
    U.fn("op_assign_value", harness=custom("op_assign_value(&A, (nondet__Bool() && in_ea) ? (Probe *)&A.storage : &V)", ret="OptProbe *"), requires=[REG0, INV0], assigns=["*$0"] + G,
         ensures={"other_tracked_storage_untouched": "(g_live[1] != 0) == (OLD(g_live[1]) != 0)", "assigned_value_engages": "$0->hasValue != 0 && g_live[0] != 0 && %s == OLD($1->v)" % VAL("$0"), "returns_self": "RET == $0"})
    U.fn("op_emplace", harness=custom("op_emplace(&A, &V)", ret="Probe *"), requires=[REG0, INV0], assigns=["*$0"] + G,
         ensures={"other_tracked_storage_untouched": "(g_live[1] != 0) == (OLD(g_live[1]) != 0)", "emplace_engages_with_new_value": "$0->hasValue != 0 && g_live[0] != 0 && %s == $1->v" % VAL("$0"), "emplace_returns_the_payload": "RET == (Probe *)&$0->storage",
                  "emplace_destroys_old_payload_first": "g_dtors == (OLD($0->hasValue) != 0 ? 1 : 0)"})
    U.fn("op_has_value", harness=custom("op_has_value(&A)", ret="_Bool"), ensures={"has_value_reports_engagement": "RET == ($0->hasValue != 0)"})
    U.fn("op_bool", harness=custom("op_bool(&A)", ret="_Bool"), ensures={"bool_reports_engagement": "RET == ($0->hasValue != 0)"})
    U.fn("op_value", harness=custom("op_value(&A)", ret="Probe *"), ensures={"value_is_the_payload_in_storage": "RET == (Probe *)&$0->storage"})
    U.fn("op_value_c", harness=custom("op_value_c(&A)", ret="Probe *"), ensures={"value_is_the_payload_in_storage": "RET == (Probe *)&$0->storage"})
    U.fn("op_eq", harness=custom("op_eq(&A, &B)", ret="_Bool"), requires=[REG0, REG1, INV0, INV1], assigns=[],
         ensures={"equal_only_if_both_engaged_with_equal_values": "RET == ($0->hasValue != 0 && $1->hasValue != 0 && %s == %s)" % (VAL("$0"), VAL("$1"))})
    return [U, any_unit()]


ANY_STUBS = """
/* interface stubs for the virtuals of Any::handle_base (the stored value behind the type-erased handle) and the delete of a
 * handle: every virtual call asserts that it is made on a handle that exists (a call through an empty Any's null pointer is a crash) */
unsigned g_h_deletes, g_h_clones, g_h_same_calls; _Bool g_h_same; void *g_h_same_other;
void hb_delete(Any_handle_base *h) { __CPROVER_assert(h != 0, "HANDLE delete of a handle that exists"); g_h_deletes++; free(h); }
Any_handle_base *hb_clone_stub(Any_handle_base *self) { __CPROVER_assert(self != 0, "HANDLE virtual call clone() through an empty Any (null handle): crash"); g_h_clones++; return (Any_handle_base *)verif_malloc(sizeof(Any_handle_int)); }
std_type_info g_stored_type;
std_type_info *hb_typeid_stub(Any_handle_base *self) { __CPROVER_assert(self != 0, "HANDLE virtual call valueTypeID() through an empty Any (null handle): crash"); return &g_stored_type; }
_Bool hb_isSame_stub(Any_handle_base *self, Any_handle_base *other) { __CPROVER_assert(self != 0, "HANDLE virtual call isSame() through an empty Any (null handle): crash"); g_h_same_calls++; g_h_same_other = other; return g_h_same; }
"""


def any_models():
    from cxx2c import X, parse_type, deref
    def ti_name(tr, fid, info, e, args, obj):
        tr.rule("std::type_info::name -> model field")
        o = deref(tr.rv(obj[0])) if obj[1] else tr.lv(obj[0])
        if getattr(o, "ty", None) is not None and o.ty.kind == "ptr":
            o = deref(o)      # (a reference returned by an interface stub is a pointer in C)
        return X("mem", o, "g_name", ty=parse_type("const char *"))
    return {"std::type_info::name": ti_name}


def any_unit():
    """utility::Any: which operations reach the type-erased handle, and never through an empty Any"""
    A = Unit("c09_any", "units/c09_any.cpp", stubs=ANY_STUBS, opts=dict(opaque_std=True, stream_eval_operands=True, opaque=["demangle__chp"], force_records=["std::type_info", "rkcommon::utility::Any::handle_base", "rkcommon::utility::Any::handle<int>"],
             unique_ptr_delete={"std::unique_ptr<rkcommon::utility::Any::handle_base>": "hb_delete"},
             stub_bodies=["hb_delete", "hb_clone_stub", "hb_isSame_stub", "hb_typeid_stub"], models=any_models(), ext_records={"std::type_info": [("g_name", "const char *")]},
             virtual_models={"rkcommon::utility::Any::handle_base::clone": "hb_clone_stub", "rkcommon::utility::Any::handle_base::isSame": "hb_isSame_stub",
                             "rkcommon::utility::Any::handle_base::valueTypeID": "hb_typeid_stub"}))
    A.stub("Any::handle_base virtuals / delete of a handle", "interface stubs: clone/isSame/valueTypeID assert they are called on an existing handle and record the call; delete counts and frees")
    def st(o, tag):
        return "  _Bool in_engaged_%s = nondet__Bool(); %s.currentValue.p = in_engaged_%s ? (Any_handle_base *)verif_malloc(sizeof(Any_handle_int)) : (Any_handle_base *)0;\n" % (tag, o, tag)
    reset = "  g_h_deletes = 0; g_h_clones = 0; g_h_same_calls = 0; g_h_same = nondet__Bool(); g_h_same_other = 0; g_stored_type.g_name = \"i\";\n"
    GA = ["g_h_deletes", "g_h_clones", "g_h_same_calls", "g_h_same_other", "__verif_exc"]
    ZERO = "g_h_deletes == 0 && g_h_clones == 0 && g_h_same_calls == 0 && __verif_exc == 0"
    P0, P1 = "$0->currentValue.p", "$1->currentValue.p"
    ANY_REPLAY = """
int main()
{
  using rkcommon::utility::Any;
  Any a, b; if (IN_in_engaged_a) a = 1; if (IN_in_engaged_b) b = 2;
  printf("comparing a %%s Any with a %%s Any / printing the first one ...\\n", IN_in_engaged_a ? "engaged" : "EMPTY", IN_in_engaged_b ? "engaged" : "EMPTY"); fflush(stdout);
  bool e = (a == b), n = (a != b); std::string s = a.toString();
  printf("== gave %%d, != gave %%d, toString gave \\"%%s\\"\\n", (int)e, (int)n, s.c_str());
  bool ok = (e != n) && ((IN_in_engaged_a != IN_in_engaged_b) ? !e : true);
  printf("REPLAY RESULT: %%s\\n", ok ? "not reproduced" : "violation reproduced on real code");
  return ok ? 0 : 1;
}
"""
    A.fn("demangle__chp", assumed=True, ensures={"assumed_demangle_returns_some_string": "1"})
    A.stub("demangle(const char*)", "assumed: returns some string (abi::__cxa_demangle is outside the subset)")
    A.fn("any_ctor_default", assigns=["*$0"], noalias=True, ensures={"a_default_constructed_Any_is_empty": "%s == 0" % P0})
    A.fn("any_valid", pre_call=reset + st("o_@0", "a"), requires=[ZERO], assigns=[], ensures={"valid_iff_a_value_is_held": "RET == (%s != 0) && g_h_same_calls == 0 && g_h_clones == 0" % P0})
    A.fn("any_eq", pre_call=reset + st("o_@0", "a") + st("o_@1", "b"), requires=[ZERO], assigns=GA, noalias=True, replay_native=ANY_REPLAY, ensures={
        "comparing_two_engaged_wrappers_asks_the_first_value_about_the_second": "IMP(%s != 0 && %s != 0, RET == g_h_same && g_h_same_calls == 1 && g_h_same_other == (void *)%s)" % (P0, P1, P1),
        "an_empty_and_an_engaged_wrapper_are_not_equal": "IMP((%s == 0) != (%s == 0), !RET)" % (P0, P1),
        "comparison_never_throws": "__verif_exc == 0"})
    A.fn("any_ne", pre_call=reset + st("o_@0", "a") + st("o_@1", "b"), requires=[ZERO], assigns=GA, noalias=True, inline=["any_eq"], replay_native=ANY_REPLAY, ensures={
        "not_equal_is_the_negation_of_equal_for_engaged_wrappers": "IMP(%s != 0 && %s != 0, RET == !g_h_same)" % (P0, P1),
        "an_empty_and_an_engaged_wrapper_are_not_equal": "IMP((%s == 0) != (%s == 0), RET)" % (P0, P1)})
    A.fn("any_toString", pre_call=reset + st("o_@0", "a"), requires=[ZERO], assigns=GA, replay_native=ANY_REPLAY, ensures={"printing_never_throws": "__verif_exc == 0"})
    A.fn("any_ctor_copy", pre_call=reset + st("o_@1", "b"), requires=[ZERO], assigns=GA + ["*$0"], noalias=True, ensures={
        "a_copy_holds_a_value_exactly_when_its_source_does": "(%s != 0) == (%s != 0)" % (P0, P1),
        "a_copy_owns_its_own_clone_of_the_value": "IMP(%s != 0, g_h_clones == 1 && %s != %s) && IMP(%s == 0, g_h_clones == 0)" % (P1, P0, P1, P1),
        "copying_destroys_nothing": "g_h_deletes == 0"})
    A.fn("any_assign", pre_call=reset + st("o_@0", "a") + st("o_@1", "b") + "  _Bool in_was = in_engaged_a;\n", requires=[ZERO], assigns=GA + ["*$0"], frees=[P0], noalias=True, inline=["any_ctor_copy", "any_dtor"], ensures={
        "after_assignment_the_target_holds_a_value_exactly_when_the_source_does": "(%s != 0) == (%s != 0)" % (P0, P1),
        "the_target_owns_its_own_clone": "IMP(%s != 0, g_h_clones == 1 && %s != %s)" % (P1, P0, P1),
        "the_previous_value_is_destroyed_exactly_once_and_nothing_else": "g_h_deletes == (__CPROVER_old(%s) != 0 ? 1u : 0u)" % P0,
        "returns_the_target": "RET == $0"})
    A.fn("any_dtor", pre_call=reset + st("o_@0", "a"), requires=[ZERO], assigns=GA + ["*$0"], frees=[P0], ensures={
        "destruction_destroys_the_held_value_exactly_once": "g_h_deletes == (__CPROVER_old(%s) != 0 ? 1u : 0u)" % P0})
    return A


def extra_checks(units, wd, tier, seed):
    U = units[0]

    def layout():
        tr = U.tr
        info = tr.rec_info.get("OptProbe")
        pinfo = tr.rec_info.get("Probe")
        viol = []
        obl = 2
        if info is None or pinfo is None:
            return dict(status="error", reason="record layout not available", obligations=0, discharged=0, violations=[])
        a_opt, a_p = info["align"], pinfo["align"]
        off = None
        for (fn, fty, fid) in info["fields"]:
            if fn == "storage":
                off = int(tr.ast.D.get(fid, {}).get("offset", 0))
        ok1 = a_opt >= a_p
        ok2 = off is not None and off % a_p == 0
        if not ok1:
            viol.append(dict(label="storage_alignment_at_least_payload_alignment", kind="layout", desc="alignof(Optional<Probe>) = %d < alignof(Probe) = %d (clang record layout)" % (a_opt, a_p), confirmed=True))
        if not ok2:
            viol.append(dict(label="storage_offset_aligned_for_payload", kind="layout", desc="offsetof(storage) = %s not a multiple of alignof(Probe) = %d" % (off, a_p), confirmed=True))
        return dict(status="proved" if not viol else "refuted", obligations=obl, discharged=obl - len(viol), violations=viol,
                    detail="alignof(Optional<Probe>)=%d alignof(Probe)=%d offsetof(storage)=%s (from clang's record layout of the instantiation)" % (a_opt, a_p, off))
    return [dict(name="optional_storage_layout", kind="static record-layout obligation", run=layout, counts_as_proof=True)]


META = dict(
    technique='CBMC 6.11 function contracts (dfcc): probe payload with ghost liveness discipline (Optional); interface stubs of the type-erased handle and an exact std::unique_ptr model (Any)',
    level="proof",
    level_text="Optional<Probe> is instantiated with a probe payload whose special member functions are stubs that assert the liveness discipline in ghost state (no construction over a live object, no assignment/copy/destruction on storage without a live object). Every constructor, assignment (incl. self-assignment and assignment from empty wrappers), reset, emplace and the destructor is enforced against the invariant 'hasValue <=> the storage holds a live payload' and the value-type postconditions written from the statement (engaged exactly when the last operation gave a value, value equals the source's, sources unchanged, exactly one destruction per construction), for arbitrary engaged/empty pre-states. Storage alignment is a static obligation on clang's record layout of the instantiation.",
    level_note="One payload type (probe with an int) stands for every payload satisfying the liveness discipline; cross-type Optional<U>->Optional<T> conversions, value_or, make_optional and Optional's toString are NOT under contract. utility::Any (unit c09_any): default/copy construction, copy assignment, destruction, valid, ==, != and toString are proved against interface stubs of the type-erased handle (clone / isSame / valueTypeID / delete) with an exact single-ownership model of std::unique_ptr: a copy holds a value exactly when its source does and owns its own clone, assignment destroys the previous value exactly once, destruction destroys the held value exactly once, and NO operation reaches the handle of an empty Any (comparison and printing never crash). Any::get<T>/is<T> (typeid) and the templated value constructor/assignment are not under contract here (the typed reads are covered in C10 against stubs). History = induction over operations preserving the invariant (stated, not mechanised).",
    assumptions=["probe operations' ghost model (contracts/c09.py)", "two tracked storages per operation"],
    unverified=["Any::get<T> / is<T> (typeid) and Any(T) / operator=(T)", "Optional<U> converting constructors/assignments", "value_or, make_optional, comparison operators other than ==", "getEnvVar"],
)
