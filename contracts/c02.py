"""C02: scheduled and async tasks run exactly once and deliver their result safely (sequential core)."""
from unit import Unit
from cxx2c import X, parse_type, Ty, deref, addr

PROBES = ["result_ctor_default", "result_ctor_copy", "result_ctor_move", "result_dtor", "result_assign_copy", "result_assign_move", "userfn_call", "voidfn_call"]
STUBS = """
/* Result: probe result type; one storage is tracked (the AsyncTask's retValue member), every other Result is the caller's
 * own live object.  UserFn / VoidFn: probe callables counting their executions. */
void *g_rs; _Bool g_rlive; unsigned g_rctors, g_rdtors;
_Bool g_rmoved;   /* ghost: the tracked storage has been MOVED FROM (a heap-owning result type would now be empty) */
unsigned g_user_calls, g_void_calls; int g_user_v;
void result_ctor_default(Result *self) { if (self == g_rs) { __CPROVER_assert(!g_rlive, "RESULT constructed over a live object"); g_rlive = 1; g_rctors++; } self->v = 0; }
void result_ctor_copy(Result *self, Result *o) { __CPROVER_assert(o != g_rs || g_rlive, "RESULT copied FROM storage that holds no live object"); if (self == g_rs) { __CPROVER_assert(!g_rlive, "RESULT constructed over a live object"); g_rlive = 1; g_rctors++; } self->v = o->v; }
void result_ctor_move(Result *self, Result *o) { __CPROVER_assert(o != g_rs || g_rlive, "RESULT moved FROM storage that holds no live object"); if (self == g_rs) { __CPROVER_assert(!g_rlive, "RESULT constructed over a live object"); g_rlive = 1; g_rctors++; } if (o == g_rs) g_rmoved = 1; self->v = o->v; }
void result_dtor(Result *self) { if (self == g_rs) { __CPROVER_assert(g_rlive, "RESULT destroyed but no live object (double destruction)"); g_rlive = 0; g_rdtors++; } }
Result *result_assign_copy(Result *self, Result *o) { __CPROVER_assert(self != g_rs || g_rlive, "RESULT assigned INTO storage that holds no live object (result written before it is constructed)"); __CPROVER_assert(o != g_rs || g_rlive, "RESULT assigned FROM storage that holds no live object"); self->v = o->v; return self; }
Result *result_assign_move(Result *self, Result *o) { __CPROVER_assert(self != g_rs || g_rlive, "RESULT assigned INTO storage that holds no live object (result written before it is constructed)"); __CPROVER_assert(o != g_rs || g_rlive, "RESULT assigned FROM storage that holds no live object"); if (o == g_rs) g_rmoved = 1; self->v = o->v; return self; }
Result userfn_call(UserFn *f) { Result r; g_user_calls++; r.v = g_user_v; return r; }
void voidfn_call(VoidFn *f) { g_void_calls++; }
"""
TG_STUBS = """
/* ASSUMED model of tbb::task_group: run(f) takes a copy of f and executes it either at once or not before wait();
 * wait() executes it if it has not run yet and returns after it has finished. */
unsigned g_tg_waits;
void verif_tg_run(verif_task_group *g, std_function_void *f)
{
  g->fn = *f; g->pending = 1;
  if (nondet__Bool()) { g->pending = 0; verif_fn_call_std_function_void(&g->fn); }
}
void verif_tg_wait(verif_task_group *g)
{
  g_tg_waits++;
  if (g->pending) { g->pending = 0; verif_fn_call_std_function_void(&g->fn); }
}
void verif_tg_dtor(verif_task_group *g) { __CPROVER_assert(!g->pending, "TASKGROUP destroyed while its task has not finished (tbb::missing_wait)"); }
"""
INT_STUBS = """
/* ASSUMED model of the enkiTS scheduler interface used by TaskSys.h */
void *g_task; unsigned g_sched_calls, g_void_calls;
void voidfn_call(VoidFn *f) { g_void_calls += (*(char *)f == 0 ? 1 : 1); /* reads the closure object: it must still be alive */ }
void detail_scheduleTaskInternal__Taskp(Task *task) { g_task = task; g_sched_calls++; }
"""


def internal_harness(U_, spec, f):
    L = ["void h_%s(void)\n{" % f.cname, "  verif_lib_anchor(); __verif_exc = 0;", "  VoidFn the_fn;", "  g_void_calls = 0; g_task = 0; g_sched_calls = 0;",
         "  sched_schedule(the_fn);",
         "  /* the worker thread, after schedule() has returned: run the task set the scheduler was given */",
         "  if (g_task != 0 && __verif_exc == 0) { run_task((Task *)g_task); __CPROVER_assert(g_void_calls == 1, \"the scheduled function is executed exactly once by the worker\"); }",
         "  __CPROVER_assert(0, \"VERIF_CANARY reachable end of harness\");\n}"]
    return "\n".join(L) + "\n", []


G = ["g_rlive", "g_rctors", "g_rdtors", "g_user_calls", "g_void_calls", "g_rmoved"]


def task_state(finished_nondet=True):
    return """
  UserFn the_user; function_R the_fn; the_fn.obj = &the_user; the_fn.tag = 1;
  g_rs = &o_@0.retValue; g_rmoved = 0; g_rlive = 0; g_rctors = 0; g_rdtors = 0; g_user_calls = 0; g_void_calls = 0; g_user_v = nondet_int();
"""


def ctor_harness(extra=""):
    def mk(U_, spec, f):
        L = ["void h_%s(void)\n{" % f.cname, "  verif_lib_anchor(); __verif_exc = 0;", "  AsyncTaskR o_self;", task_state().replace("o_@0", "o_self"), extra,
             "  at_ctor(&o_self, the_fn);", "  __CPROVER_assert(0, \"VERIF_CANARY reachable end of harness\");\n}"]
        return "\n".join(L) + "\n", []
    return mk


def units():
    us = []
    # ---------------- synchronous (Debug) backend
    U = Unit("c02_debug", "units/c02_async.cpp", stubs=STUBS, opts=dict(stub_bodies=PROBES, function_callables={"std::function<Result ()>": ["UserFn"]}))
    for p in PROBES:
        U.stub(p, "probe result type / probe callable (ghost liveness of the task's result storage, execution counters)")
    REG = "g_rs == (void *)&$0->retValue"
    U.fn("at_ctor", harness=ctor_harness(), requires=[REG, "g_rlive == 0 && g_user_calls == 0", "$1.tag == 1 && __CPROVER_r_ok($1.obj, sizeof(UserFn))"], assigns=["*$0"] + G, ensures={
        "the_function_is_executed_exactly_once": "g_user_calls == 1",
        "the_result_member_holds_the_returned_value_and_is_a_live_object": "g_rlive != 0 && $0->retValue.v == g_user_v",
        "finished_implies_result_complete": "IMP($0->jobFinished.v != 0, g_rlive != 0 && $0->retValue.v == g_user_v)",
        "result_constructed_exactly_once": "g_rctors == 1 && g_rdtors == 0"})
    live = task_state() + "  o_@0.retValue.v = g_user_v; g_rlive = 1; o_@0.jobFinished.v = 1;\n"
    U.fn("at_finished", pre_call=live, ensures={"finished_reads_the_completion_flag": "RET == ($0->jobFinished.v != 0)"})
    U.fn("at_get", pre_call=live, requires=[REG, "g_rlive != 0", "$0->jobFinished.v != 0"], assigns=G, ensures={
        "get_yields_exactly_the_stored_result": "RET.v == $0->retValue.v", "get_does_not_consume_the_result": "g_rlive != 0 && g_rdtors == OLD(g_rdtors)",
        "get_leaves_the_stored_result_intact_for_later_reads": "g_rmoved == 0 && $0->retValue.v == OLD($0->retValue.v)"})
    U.fn("at_dtor", pre_call=live, requires=[REG, "g_rlive != 0"], assigns=["*$0"] + G, ensures={
        "destructor_destroys_the_result_exactly_once": "g_rlive == 0 && g_rdtors == OLD(g_rdtors) + 1"})
    U.fn("sched_schedule", pre_call="  g_void_calls = 0;\n", requires=["g_void_calls == 0"], assigns=G, ensures={"scheduled_function_runs_exactly_once__synchronous_backend": "g_void_calls == 1"})
    us.append(U)

    # ---------------- TBB backend with a deferred-execution model of tbb::task_group
    TG = "tbb::detail::d1::task_group"

    def tg_ctor(tr, ptr, args):
        tr.rule("tbb::task_group model")
        return [X("expr", X("assign", "=", X("mem", deref(ptr), "pending"), X("lit", "0")))]

    def tg_run(tr, fid, info, e, args, obj):
        tr.rule("tbb::task_group model")
        tr.cur.calls["verif_tg_run"] = True
        o = tr.lv(obj[0])
        return X("call", "verif_tg_run", [addr(o), tr.bind_ref(args[0])], ty=parse_type("void"))

    def tg_wait(tr, fid, info, e, args, obj):
        tr.rule("tbb::task_group model")
        tr.cur.calls["verif_tg_wait"] = True
        objn = tr.stdlib.strip_base_casts(obj[0])
        o = tr.lv(objn)
        return X("call", "verif_tg_wait", [addr(o)], ty=parse_type("int"))
    T = Unit("c02_tbb", "units/c02_async.cpp", defines=["RKCOMMON_TASKING_TBB"], stubs=STUBS + TG_STUBS,
             opts=dict(stub_bodies=PROBES, function_callables={"std::function<Result ()>": ["UserFn"]}, rec_alias={TG: "verif_task_group"},
                       ext_records={TG: [("fn", "std::function<void ()>"), ("pending", "bool")]}, ext_ctor={TG: tg_ctor}, ext_dtor={TG: "verif_tg_dtor"},
                       models={"tbb::detail::d1::task_group::run": tg_run, "tbb::detail::d1::task_group::wait": tg_wait, "tbb::detail::d1::task_group_base::wait": tg_wait},
                       only=["at_ctor", "at_dtor", "at_finished", "at_wait", "at_get"] + PROBES))
    T.stub_deps = {"verif_tg_wait": ["verif_fn_call_std_function_void"], "verif_tg_run": ["verif_fn_call_std_function_void"]}
    T.stub("tbb::task_group", "ASSUMED: run(f) copies f and executes it exactly once, either immediately or at the latest inside wait(); wait() returns after f has finished; destroying a group whose task is unfinished is an error")
    TREG = "g_rs == (void *)&$0->retValue"
    T.fn("at_ctor", harness=ctor_harness("  g_tg_waits = 0;"), requires=[TREG, "g_rlive == 0 && g_user_calls == 0", "$1.tag == 1 && __CPROVER_r_ok($1.obj, sizeof(UserFn))"],
         assigns=["*$0", "g_tg_waits"] + G, ensures={
             "the_function_is_executed_at_most_once_so_far": "g_user_calls <= 1 && (g_user_calls == 1) == ($0->taskImpl.taskGroup.pending == 0)",
             "finished_implies_result_complete": "IMP($0->jobFinished.v != 0, g_user_calls == 1 && g_rlive != 0 && $0->retValue.v == g_user_v)",
             "result_member_is_a_live_object_after_construction": "g_rlive != 0 && g_rctors == 1"})
    # a constructed task whose function has either already run (finished) or is still pending inside the task group
    tstate = """
  UserFn the_user; function_R the_fn; the_fn.obj = &the_user; the_fn.tag = 1;
  at_ctor__lambda1 the_closure; the_closure.__cap0 = &o_@0; the_closure.__cap1 = the_fn;
  g_rs = &o_@0.retValue; g_rmoved = 0; g_rctors = 1; g_rdtors = 0; g_void_calls = 0; g_user_v = nondet_int(); g_tg_waits = 0; g_rlive = 1;
  _Bool in_pending = nondet__Bool();
  o_@0.taskImpl.taskGroup.fn.obj = &the_closure; o_@0.taskImpl.taskGroup.fn.tag = 1; o_@0.taskImpl.taskGroup.pending = in_pending;
  o_@0.jobFinished.v = !in_pending; g_user_calls = in_pending ? 0 : 1; o_@0.retValue.v = in_pending ? 0 : g_user_v;
"""
    TINV = [TREG, "g_rlive != 0", "$0->taskImpl.taskGroup.fn.tag == 1 && __CPROVER_rw_ok($0->taskImpl.taskGroup.fn.obj, sizeof(at_ctor__lambda1))",
            "((at_ctor__lambda1 *)$0->taskImpl.taskGroup.fn.obj)->__cap0 == $0 && ((at_ctor__lambda1 *)$0->taskImpl.taskGroup.fn.obj)->__cap1.tag == 1 && __CPROVER_r_ok(((at_ctor__lambda1 *)$0->taskImpl.taskGroup.fn.obj)->__cap1.obj, sizeof(UserFn))",
            "($0->jobFinished.v != 0) == ($0->taskImpl.taskGroup.pending == 0)", "g_user_calls == ($0->taskImpl.taskGroup.pending != 0 ? 0 : 1)", "IMP($0->jobFinished.v != 0, $0->retValue.v == g_user_v)"]
    TA = ["*$0", "g_tg_waits"] + G
    DONE = "$0->taskImpl.taskGroup.pending == 0 && $0->jobFinished.v != 0 && g_user_calls == 1 && $0->retValue.v == g_user_v && g_rlive != 0"
    T.fn("at_wait", pre_call=tstate, requires=TINV, assigns=TA, ensures={
        "wait_joins_the_backend_task": "g_tg_waits == OLD(g_tg_waits) + 1", "after_wait_the_function_has_run_exactly_once_and_the_result_is_complete": DONE,
        "wait_neither_constructs_nor_destroys_the_result": "g_rdtors == OLD(g_rdtors) && g_rctors == OLD(g_rctors)",
        "wait_does_not_move_the_result_away": "g_rmoved == OLD(g_rmoved)"})
    T.fn("at_get", pre_call=tstate, requires=TINV, assigns=TA, ensures={
        "get_yields_exactly_the_value_the_function_returned": "RET.v == g_user_v && g_user_calls == 1",
        "get_does_not_wait_when_already_finished": "IMP(OLD($0->jobFinished.v) != 0, g_tg_waits == OLD(g_tg_waits))",
        "get_leaves_the_stored_result_intact_for_later_reads": "g_rmoved == 0 && $0->retValue.v == g_user_v"})
    T.fn("at_dtor", pre_call=tstate, requires=TINV, assigns=TA, ensures={
        "destroying_an_AsyncTask_first_waits_for_its_task": "g_tg_waits == OLD(g_tg_waits) + 1 && g_user_calls == 1",
        "the_result_is_destroyed_exactly_once": "g_rlive == 0 && g_rdtors == OLD(g_rdtors) + 1"})
    T.fn("at_finished", pre_call=tstate, requires=TINV, ensures={"finished_true_implies_the_complete_value_is_there": "RET == ($0->jobFinished.v != 0) && IMP(RET, $0->retValue.v == g_user_v && g_rlive != 0)"})
    # ---------------- INTERNAL (enkiTS) backend: schedule() hands a heap-allocated task set to the scheduler, which runs it later
    I = Unit("c02_internal", "units/c02_async.cpp", defines=["RKCOMMON_TASKING_INTERNAL"], stubs=INT_STUBS,
             opts=dict(stub_bodies=["voidfn_call", "detail_scheduleTaskInternal__Taskp"], only=["sched_schedule", "voidfn_call", "run_task"], param_lifetime=True,
                       virtual_resolve={"enki::ITaskSet::ExecuteRange": r"schedule_internal\((?!TASK_T).*\)::LocalTask::ExecuteRange$"}))
    I.stub("scheduleTaskInternal / enki::ITaskSet", "ASSUMED model of the enkiTS scheduler: scheduleTaskInternal(task) keeps the pointer; the task set's ExecuteRange is invoked exactly once, later, from a worker -- in the harness after schedule() has returned and its frame is gone")
    I.fn("sched_schedule", harness=internal_harness, harness_calls=["run_task"], requires=["g_void_calls == 0 && g_task == 0"], assigns=["g_void_calls", "g_task", "g_sched_calls"], ensures={
        "schedule_hands_exactly_one_task_to_the_scheduler": "g_task != 0 && g_sched_calls == 1",
        "nothing_has_run_synchronously": "g_void_calls == 0"})
    return [U, T, I]


META = dict(
    technique='CBMC 6.11 function contracts (dfcc) on extracted C; probe result type with ghost liveness; std::function, tbb::task_group and enkiTS hand-off reference models',
    level="proof",
    level_text="Sequential core of schedule()/AsyncTask with a probe result type (special members check liveness of the task's result storage) and a probe callable (execution counter), std::function as a closed-universe model: under the synchronous (Debug) backend AsyncTask's constructor is proved to execute the function exactly once, to leave the result member a live object holding exactly the returned value, constructed once, with finished() implying the result is complete; get() yields the stored value without consuming it; the destructor destroys the result exactly once; schedule() runs the callable exactly once.",
    level_note="NOT decided: 'eventually', every real schedule/interleaving, TBB task_arena/task_group, detached std::thread, std::packaged_task/std::future internals (async()), the enkiTS scheduler itself (AsyncTask under the internal backend). Contracts are sequential; those clauses are assumptions. For schedule() under the INTERNAL backend the hand-off is checked: schedule_impl / schedule_internal and the self-deleting LocalTask are extracted, scheduleTaskInternal is a recording model, and the harness plays the worker AFTER schedule() has returned (by-value parameters are frame-local objects whose lifetime the verifier ends on return): the task set runs the function exactly once on a closure object that is still alive, then deletes itself.",
    assumptions=["std::function closed-universe model (lib/stdlib.py)", "synchronous Debug backend semantics for the claimed obligations"],
    unverified=["async() / std::future", "schedule() under the TBB / OpenMP backends (task_arena::enqueue, detached std::thread)", "destruction waits under real concurrency", "AsyncTask under the internal backend"],
)
