"""C14: aligned allocation returns aligned, usable, correctly released memory (arithmetic core)."""
from unit import Unit
from cxx2c import X, parse_type

STUBS = """
/* the allocator back ends (TBB scalable_aligned_malloc / scalable_aligned_free, and scalable_malloc should it ever be
 * called) are interface models: they record every request in ghost state.  ASSUMED about the real back end: it returns
 * null or a block of `size` bytes whose address is a multiple of `align`. */
unsigned long g_am_calls, g_am_size, g_am_align, g_plain_calls, g_free_calls;
void *g_am_ret, *g_free_ptr;
void *verif_backend_aligned_malloc(unsigned long size, unsigned long align)
{
  g_am_calls++; g_am_size = size; g_am_align = align;
  g_am_ret = nondet__Bool() ? (void *)0 : malloc(size);
  return g_am_ret;
}
void *verif_backend_plain_malloc(unsigned long size) { g_plain_calls++; return malloc(size); }
void verif_backend_aligned_free(void *p) { g_free_calls++; g_free_ptr = p; }
"""
GA = ["g_am_calls", "g_am_size", "g_am_align", "g_am_ret", "g_plain_calls"]
GINIT = "  g_am_calls = 0; g_plain_calls = 0; g_free_calls = 0; g_am_ret = 0;\n"


def model(name):
    def h(tr, fid, info, e, args, obj):
        tr.rule("allocator back end -> interface model")
        tr.cur.calls[name] = True
        return X("call", name, [tr.rv(a) for a in args], ty=parse_type("void *"))
    return h


def units():
    U = Unit("c14_alloc", "units/c14_alloc.cpp", defines=["RKCOMMON_TASKING_TBB"], stubs=STUBS,
             opts=dict(models={"scalable_aligned_malloc": model("verif_backend_aligned_malloc"), "scalable_malloc": model("verif_backend_plain_malloc"),
                               "scalable_aligned_free": model("verif_backend_aligned_free"), "scalable_free": model("verif_backend_aligned_free")}))
    U.stub("scalable_aligned_malloc / scalable_aligned_free", "TBB allocator: ASSUMED to return null or a fresh block of `size` bytes whose address is a multiple of `align`, and to release it without touching other blocks; heap integrity is not modelled")
    ONE = "g_am_calls == 1 && g_plain_calls == 0 && g_am_size == %s && g_am_align == %s && RET == g_am_ret"
    U.fn("am_alignedMalloc", pre_call=GINIT, requires=["g_am_calls == 0 && g_plain_calls == 0"], assigns=GA, ensures={
        "exactly_one_request_to_the_aligned_back_end_for_the_full_size_and_alignment": ONE % ("$0", "$1")})
    U.fn("am_alignedFree", pre_call=GINIT, nullable=["ptr"], requires=["g_free_calls == 0"], assigns=["g_free_calls", "g_free_ptr"], ensures={
        "released_through_the_matching_back_end_exactly_once": "g_free_calls == 1 && g_free_ptr == $0"})
    U.fn("am_alignedMalloc_f32", pre_call=GINIT, requires=["g_am_calls == 0 && g_plain_calls == 0"], assigns=GA, ensures={
        "typed_request_is_for_n_elements__n_times_sizeof_fits": "IMP($0 <= 4611686018427387903ul, g_am_calls == 1 && g_am_size == $0 * 4 && g_am_align == $1 && RET == (float *)g_am_ret)"})
    U.fn("am_alignedMalloc_f32", variant="n_times_sizeof_T_wraps", pre_call=GINIT, requires=["g_am_calls == 0 && g_plain_calls == 0", "$0 > 4611686018427387903ul"], assigns=GA, ensures={
        "typed_request_whose_byte_size_overflows_yields_null": "RET == 0"})
    U.fn("am_isAligned", nullable=["ptr"], requires=["$1 > 0"], ensures={"isAligned_iff_address_is_a_multiple": "RET == (((unsigned long)$0) % (unsigned long)$1 == 0)"})
    U.fn("am_align_ptr", requires=["$1 > 0 && ($1 & ($1 - 1)) == 0 && $1 <= 4611686018427387904ul", "$0 <= 18446744073709551615ul - $1"], ensures={
        "align_ptr_is_the_least_aligned_address_not_below_p": "RET >= $0 && RET - $0 < $1 && (RET & ($1 - 1)) == 0"})
    for nm, sz in (("al", 4), ("alb", 24)):
        MAXS = 18446744073709551615 // sz
        U.fn(nm + "_max_size", ensures={"max_size_times_sizeof_T_does_not_wrap": "RET == %dul" % MAXS})
        U.fn(nm + "_allocate", pre_call=GINIT, requires=["g_am_calls == 0 && g_plain_calls == 0", "__verif_exc == 0"], assigns=GA, inline=[nm + "_max_size"], ensures={
            "zero_elements_yield_null_without_allocating": "IMP($1 == 0, RET == 0 && g_am_calls == 0 && __verif_exc == 0)",
            "request_beyond_max_size_throws_length_error_without_allocating": "IMP($1 > %dul, __verif_exc == EXC_std_length_error && g_am_calls == 0)" % MAXS,
            "otherwise_exactly_one_request_of_n_times_sizeof_T_bytes_at_alignment_64": "IMP($1 > 0 && $1 <= %dul, g_am_calls == 1 && g_plain_calls == 0 && g_am_size == $1 * %d && g_am_align == 64)" % (MAXS, sz),
            "null_from_the_back_end_becomes_bad_alloc": "IMP($1 > 0 && $1 <= %dul, (g_am_ret == 0) == (__verif_exc == EXC_std_bad_alloc))" % MAXS,
            "result_is_the_block_from_the_back_end": "IMP(__verif_exc == 0 && $1 > 0, (void *)RET == g_am_ret)"})
    U.fn("al_deallocate", pre_call=GINIT, nullable=["p"], requires=["g_free_calls == 0"], assigns=["g_free_calls", "g_free_ptr"], ensures={
        "deallocate_releases_through_alignedFree_exactly_once": "g_free_calls == 1 && g_free_ptr == (void *)$1"})
    U.fn("al_construct", arrays={"p": 1}, single=["t"], assigns=["*$1"], ensures={"construct_copy_constructs_in_place": "$1[0] == $2[0]"})
    # the second back end the sources select on Linux/x86 when RKCOMMON_TASKING_TBB is not defined: _mm_malloc / _mm_free
    V = Unit("c14_alloc_mm", "units/c14_alloc.cpp", stubs=STUBS,
             opts=dict(only=["am_alignedMalloc", "am_alignedFree"], models={"_mm_malloc": model("verif_backend_aligned_malloc"), "_mm_free": model("verif_backend_aligned_free")}))
    V.stub("_mm_malloc / _mm_free", "ASSUMED to return null or a fresh block of `size` bytes whose address is a multiple of `align`, and to release it without touching other blocks")
    V.fn("am_alignedMalloc", pre_call=GINIT, requires=["g_am_calls == 0 && g_plain_calls == 0"], assigns=GA, ensures={
        "exactly_one_request_to_the_aligned_back_end_for_the_full_size_and_alignment": ONE % ("$0", "$1")})
    V.fn("am_alignedFree", pre_call=GINIT, nullable=["ptr"], requires=["g_free_calls == 0"], assigns=["g_free_calls", "g_free_ptr"], ensures={
        "released_through_the_matching_back_end_exactly_once": "g_free_calls == 1 && g_free_ptr == $0"})
    return [U, V]


META = dict(
    technique='CBMC 6.11 bit-precise function contracts (dfcc) on the allocation arithmetic, allocator back end as an interface model',
    level="proof",
    level_text="alignedMalloc/alignedFree are proved to make exactly one request to the aligned back end with the full size and alignment (and none to an unaligned one) and to release through the matching routine; aligned_allocator<T,64>::allocate is proved for T of size 4 and 24 and every n: n == 0 gives null without allocating, n > max_size() throws length_error without allocating, otherwise exactly one request of n*sizeof(T) bytes (no wrap-around) at alignment 64, null becomes bad_alloc, the result is the back end's block; max_size()*sizeof(T) does not wrap; isAligned(p,a) <=> p mod a == 0; ALIGN_PTR is the least aligned address >= p for power-of-two alignments. Bit-precise CBMC, all 2^64 sizes.",
    level_note="The allocators themselves (TBB scalable_aligned_malloc/free) are interface models with an ASSUMED contract (null or a block of `size` bytes at an address that is a multiple of `align`; release does not corrupt other blocks). That AlignedVector's data() stays 64-byte aligned and elements survive reallocation is std::vector's growth through this allocator and is not modelled.",
    assumptions=["TBB scalable_aligned_malloc / scalable_aligned_free contract (assumed)", "build configuration RKCOMMON_TASKING_TBB as in /repo/_build"],
    unverified=["AlignedVector growth (std::vector internals)", "heap integrity", "the Windows (_aligned_malloc) and Apple-arm64 (posix_memalign) configurations"],
)
