"""C20, trace half: TraceRecorder::saveLog against a recording model of the output stream (JSON structure automaton),
abstract sequences for the thread map / chunk list, and a counting model of the begin-event stack."""
import os
from unit import Unit
from cxx2c import X, Ty, parse_type, fn_ret_type, deref, addr

OS = "std::basic_ostream<char>"
OFS = "std::basic_ofstream<char>"
TP = "std::chrono::time_point<std::chrono::steady_clock, std::chrono::duration<long, std::ratio<1, 1000000000>>>"
DNS = "std::chrono::duration<long, std::ratio<1, 1000000000>>"
DUS = "std::chrono::duration<long, std::ratio<1, 1000000>>"
TID = "std::thread::id"
TEL = "rkcommon::tracing::ThreadEventList"
EVT = "rkcommon::tracing::TraceEvent"
PAIR = "std::pair<const std::thread::id, std::shared_ptr<rkcommon::tracing::ThreadEventList>>"
MAP = "std::unordered_map<std::thread::id, std::shared_ptr<rkcommon::tracing::ThreadEventList>>"
MAPIT = "std::__detail::_Node_iterator<std::pair<const std::thread::id, std::shared_ptr<rkcommon::tracing::ThreadEventList>>, false, false>"
LIST = "std::list<std::vector<rkcommon::tracing::TraceEvent>>"
LISTIT = "std::_List_iterator<std::vector<rkcommon::tracing::TraceEvent>>"
VEC = "std::vector<rkcommon::tracing::TraceEvent>"
STACK = "std::stack<const rkcommon::tracing::TraceEvent *>"
CACHE = "std::unordered_map<const char *, std::shared_ptr<std::basic_string<char>>>"

OPAQUE_TYPES = {OS: "verif_os", OFS: "verif_os", TP: "long", DNS: "long", DUS: "long", TID: "unsigned long", MAP: "verif_seq", MAPIT: "unsigned long",
                LIST: "verif_seq", LISTIT: "unsigned long", STACK: "verif_stack", CACHE: "char", "rkcommon::tracing::EventType": "int"}

VOID, BOOL, UL, LONG, INT, FLOAT = (parse_type(t) for t in ("void", "bool", "unsigned long", "long", "int", "float"))
OST = Ty("rec", name=OS)


def strip(n):
    while n.get("kind") in ("ImplicitCastExpr", "ParenExpr", "ExprWithCleanups", "MaterializeTemporaryExpr", "CXXBindTemporaryExpr") and n.get("inner"):
        n = n["inner"][0]
    return n


def osptr(tr, a):
    """C pointer to the stream an operand denotes (std::cerr, the ofstream variable, or the result of an inner <<)"""
    n = strip(a)
    if n.get("kind") == "DeclRefExpr" and n.get("referencedDecl", {}).get("name") == "cerr":
        return X("raw", "(&verif_cerr)", ty=Ty("ptr", to=OST))
    if n.get("kind") == "DeclRefExpr":
        return addr(tr.lv(n))      # the ofstream variable (its ostream base is the same model object)
    return tr.bind_ref(n)


def objptr(tr, obj):
    n = strip(obj[0])
    if n.get("kind") == "DeclRefExpr" and not obj[1]:
        return addr(tr.lv(n))
    return tr.rv(obj[0]) if obj[1] else addr(tr.lv(tr.stdlib.strip_base_casts(obj[0])))


def h_out_free(tr, fid, e, args, obj):
    """std::operator<<(ostream&, const char* | thread::id | const string&) and the EventType overload"""
    info = tr.ast.finfo(fid)
    rets, ps = fn_ret_type(info["type"])
    p1 = ps[1].replace("const ", "").strip()
    os_ = osptr(tr, args[0])
    if p1.startswith("char *") and strip(args[1]).get("kind") == "StringLiteral":
        fn, cargs = literal_fn(tr, strip(args[1]).get("value", "")), [os_]
    elif p1.startswith("char *"):
        fn, cargs = "verif_out_cstr", [os_, tr.rv(args[1])]
    elif "EventType" in p1:
        fn, cargs = "verif_out_evtype", [os_, X("cast", "int", deref(tr.bind_ref(args[1])))]
    else:
        fn, cargs = "verif_out_val", [os_, X("comma", X("cast", "void", tr.discard(args[1])), X("lit", "0"), ty=INT)]
    tr.cur.calls[fn] = True
    tr.rule("stream output -> recording model")
    return deref(X("call", fn, cargs, ty=Ty("ptr", to=OST)))


def summarize(text):
    """the effect of one literal on the JSON automaton, computed here (Python) by running the automaton of js_char over the literal's
    characters from every possible entry state (in_str, last); emitted as one guarded update per entry state from which the literal is
    well formed, and an assertion failure for the others.  Same automaton as js_char (kept in the stubs for reference); depth is
    symbolic (d0 + offset), so the depth conditions become lower bounds on the entry depth."""
    LASTS = [0, ord('['), ord('{'), ord(','), ord(':'), ord('v')]
    out = []
    for in_str0 in (0, 1):
        for last0 in LASTS:
            in_str, last, off, need, objs, ok = in_str0, last0, 0, 0, [], True
            for ch in text:
                c = ord(ch)
                if in_str:
                    if c == 92:
                        ok = False
                        break
                    if ch == '"':
                        in_str, last = 0, ord('v')
                    continue
                if ch == ' ':
                    continue
                if ch == '"':
                    if last not in (ord('['), ord('{'), ord(','), ord(':')):
                        ok = False
                        break
                    in_str = 1
                    continue
                if ch in '{[':
                    if last not in (0, ord('['), ord(','), ord(':')):
                        ok = False
                        break
                    if ch == '{':
                        objs.append(off)
                    off += 1
                    last = c
                    continue
                if ch == '}':
                    if last not in (ord('v'), ord('{')):
                        ok = False
                        break
                    need = max(need, 2 - off)
                    off -= 1
                    last = ord('v')
                    continue
                if ch == ']':
                    if last not in (ord('v'), ord('[')):
                        ok = False
                        break
                    need = max(need, 1 - off)
                    off -= 1
                    last = ord('v')
                    continue
                if ch == ',':
                    if last != ord('v'):
                        ok = False
                        break
                    need = max(need, 1 - off)
                    last = c
                    continue
                if ch == ':':
                    if last != ord('v'):
                        ok = False
                        break
                    need = max(need, 2 - off)
                    last = c
                    continue
                ok = False
                break
            if not ok:
                continue
            upd = []
            if need > -1000000 and need > 0:
                upd.append('__CPROVER_assert(g_depth >= %d, "TRACE closing bracket / separator at a sufficient nesting depth");' % need)
            for o in objs:
                upd.append("g_objs += (g_depth + %d == 1);" % o)
            if off:
                upd.append("g_depth += %d;" % off)
            upd.append("g_in_str = %d; g_last = %d;" % (in_str, last))
            out.append("if (g_in_str == %d && g_last == %d) { %s }" % (in_str0, last0, " ".join(upd)))
    return " else ".join(out) + (" else " if out else "") + '{ __CPROVER_assert(0, "TRACE literal written in a state from which it is not well-formed JSON"); }'


def literal_fn(tr, spelled):
    """one straight-line C function per distinct string literal: the automaton steps for its characters, generated at extraction
    time from the literal's text in the AST (no loop, no string reads for the verifier)"""
    import codecs
    text = codecs.decode(spelled[1:-1], "unicode_escape")
    key = "tracelit:" + text
    names = tr.stdlib.text.setdefault("tracelit:names", "static void js_char(char c); void verif_ph(int which); void verif_err_too_many(void); extern verif_os verif_cerr; extern long g_depth; extern _Bool g_in_str; extern int g_last; extern unsigned long g_objs;\n")
    idx = getattr(tr, "_tracelits", None)
    if idx is None:
        idx = tr._tracelits = {}
    if text not in idx:
        name = "verif_lit_%d" % len(idx)
        idx[text] = name
        body = []
        if text.startswith("Tracing Error: Too many"):
            body.append("verif_err_too_many();")
        if text.startswith('"ph": "M"'):
            body.append("if (os != &verif_cerr) verif_ph('M');")
        if text.startswith('"ph": "C"'):
            body.append("if (os != &verif_cerr) verif_ph('C');")
        steps = summarize(text)
        tr.stdlib.text[key] = "static verif_os *%s(verif_os *os) /* %s */ { %s if (os != &verif_cerr) { %s } return os; }\n" % (name, spelled.replace("*/", "* /"), " ".join(body), steps)
    return idx[text]


def h_out_member(tr, fid, e, args, obj):
    """ostream::operator<<(int | unsigned long | float)"""
    tr.cur.calls["verif_out_val"] = True
    tr.rule("stream output -> recording model")
    return deref(X("call", "verif_out_val", [objptr(tr, obj), X("comma", X("cast", "void", tr.discard(args[0])), X("lit", "0"), ty=INT)], ty=Ty("ptr", to=OST)))


def h_seekp(tr, fid, e, args, obj):
    tr.cur.calls["verif_out_seek_back"] = True
    return deref(X("call", "verif_out_seek_back", [objptr(tr, obj), tr.rv(args[0])], ty=Ty("ptr", to=OST)))


def call(fn, ret, use_obj=True, use_args=True):
    def h(tr, fid, e, args, obj):
        tr.cur.calls[fn] = True
        cargs = []
        if use_obj and obj is not None:
            cargs.append(objptr(tr, obj))
        if use_args:
            info = tr.ast.finfo(fid)
            rets, ps = fn_ret_type(info["type"])
            for a, p in zip(args, ps):
                cargs.append(tr.bind_ref(a) if parse_type(p).kind == "ref" else tr.rv(a))
        return X("call", fn, cargs, ty=ret)
    return h


def h_value(tr, fid, e, args, obj):
    """chrono accessors: durations and time points are plain longs; the arithmetic itself is not modelled (nondeterministic)"""
    tr.cur.calls["nondet_long"] = True
    ops = [tr.discard(a) for a in args]
    if obj is not None:
        ops.append(tr.rv(obj[0]) if obj[1] else tr.lv(tr.stdlib.strip_base_casts(obj[0])))
    r = X("call", "nondet_long", [], ty=LONG)
    for o in ops:
        r = X("comma", X("cast", "void", o), r, ty=LONG)
    return r


def h_index0(tr, fid, e, args, obj):
    return X("lit", "0ul", ty=UL)


def h_seq_end(tr, fid, e, args, obj):
    o = deref(tr.rv(obj[0])) if obj[1] else tr.lv(obj[0])
    return X("mem", o, "n", ty=UL)


def h_ne(tr, fid, e, args, obj):
    return X("bin", "!=", tr.rv(strip(args[0])), tr.rv(strip(args[1])), ty=BOOL)


def h_incr(tr, fid, e, args, obj):
    o = deref(tr.rv(obj[0])) if obj[1] else tr.lv(obj[0])
    return X("assign", "=", o, X("bin", "+", o, X("lit", "1ul"), ty=UL), ty=UL)


def deref_model(fn, canon):
    def h(tr, fid, e, args, obj):
        tr.cur.calls[fn] = True
        T = Ty("rec", name=canon)
        tr.need_record(canon)
        o = deref(tr.rv(obj[0])) if obj[1] else tr.rv(obj[0])
        return deref(X("cast", tr.record_cname(canon) + " *", X("call", fn, [o], ty=Ty("ptr", to=parse_type("void"))), ty=Ty("ptr", to=T)))
    return h


def h_copy_scalar(tr, ptr, args):
    """copy/move construction of an index-like opaque value (iterators, thread::id)"""
    return [X("expr", X("assign", "=", deref(ptr), tr.rv(args[0])))] if args else [X("expr", X("assign", "=", deref(ptr), X("lit", "0")))]


def h_evt_deref(tr, fid, e, args, obj):
    tr.cur.calls["verif_event_read"] = True
    T = Ty("rec", name=EVT)
    o = deref(tr.rv(obj[0])) if obj[1] else tr.rv(obj[0])
    return deref(X("call", "verif_event_read", [o], ty=Ty("ptr", to=T)))


def intercepts():
    return {
        "std::operator<<": h_out_free, "std::basic_ostream<char>::operator<<": h_out_member,
        VEC + "::begin": lambda tr, fid, e, args, obj: (tr.cur.calls.__setitem__("verif_chunk_begin", True), X("call", "verif_chunk_begin", [objptr(tr, obj)], ty=Ty("ptr", to=Ty("rec", name=EVT))))[1],
        VEC + "::end": lambda tr, fid, e, args, obj: (tr.cur.calls.__setitem__("verif_chunk_end", True), X("call", "verif_chunk_end", [objptr(tr, obj)], ty=Ty("ptr", to=Ty("rec", name=EVT))))[1],
        "std::basic_ostream<char>::seekp": h_seekp,
        "getpid": lambda tr, fid, e, args, obj: X("call", "nondet_int", [], ty=INT),
        "rkcommon::tracing::cpuUtilization": lambda tr, fid, e, args, obj: X("comma", X("comma", X("cast", "void", tr.bind_ref(args[0])), X("cast", "void", tr.bind_ref(args[1]))), X("call", "nondet_float", [], ty=FLOAT), ty=FLOAT),
        "std::chrono::duration_cast": h_value, DUS + "::count": h_value, TP + "::time_since_epoch": h_value, "std::chrono::operator-": h_value,
        MAP + "::begin": h_index0, MAP + "::end": h_seq_end, LIST + "::begin": h_index0, LIST + "::end": h_seq_end,
        "std::__detail::operator!=": h_ne, "std::operator!=": h_ne,
        MAPIT + "::operator++": h_incr, LISTIT + "::operator++": h_incr,
        MAPIT + "::operator*": deref_model("verif_thread_at", PAIR), LISTIT + "::operator*": deref_model("verif_chunk_at", VEC),
        "__gnu_cxx::__normal_iterator<const rkcommon::tracing::TraceEvent *, std::vector<rkcommon::tracing::TraceEvent>>::operator*": h_evt_deref,
        STACK + "::empty": call("verif_stack_empty", BOOL), STACK + "::push": call("verif_stack_push", VOID),
        STACK + "::pop": call("verif_stack_pop", VOID),
        STACK + "::top": lambda tr, fid, e, args, obj: deref(X("call", "verif_stack_top", [objptr(tr, obj)], ty=Ty("ptr", to=Ty("ptr", to=Ty("rec", name=EVT))))),
    }


def trace_unit():
    def ctor_os(tr, ptr, args):
        tr.cur.calls["verif_os_open"] = True
        return [X("expr", X("call", "verif_os_open", [ptr] + [tr.rv(a) for a in args[:1]], ty=VOID))]

    def ctor_stack(tr, ptr, args):
        return [X("expr", X("assign", "=", X("mem", deref(ptr), "depth"), X("lit", "0ul")))]
    U = Unit("c20_trace", "units/c20_trace.cpp", stubs=STUBS,
             opts=dict(opaque_std=True, keep_streams=True, only=["tr_saveLog"], intercept=intercepts(), opaque_types=OPAQUE_TYPES,
                       pre_records="typedef struct verif_seq { unsigned long n; } verif_seq;\ntypedef struct verif_os { int kind; } verif_os;   /* 1 = the log file, 2 = std::cerr */\n",
                       ext_records={PAIR: [("first", TID), ("second", "std::shared_ptr<rkcommon::tracing::ThreadEventList>")], "timeval": [("tv_sec", "long"), ("tv_usec", "long")]},
                       ext_ctor={OFS: ctor_os, STACK: ctor_stack, MAPIT: h_copy_scalar, LISTIT: h_copy_scalar, TID: h_copy_scalar},
                       ext_dtor={OFS: "verif_os_close", STACK: "verif_stack_dtor"}))
    JS = "g_depth == 1 && !g_in_str && g_last == ','" if not os.environ.get("VERIF_TRACE_NOJS") else "1"
    CNT = "g_objs == g_evt_read + g_ph_M + g_ph_C" if not os.environ.get("VERIF_TRACE_NOCNT") else "1"
    STREAMS = "self->threadTraceMutex.g_held != 0"
    GHOST = ["g_depth", "g_in_str", "g_last", "g_objs", "g_ph_M", "g_ph_C", "g_evt_read", "g_open", "g_nev", "g_entry", "g_tel"]
    SZ = "sizeof(TraceEvent)"
    pre = """
  g_cap = nondet_unsigned_long(); __CPROVER_assume(g_cap <= %d);
  g_events = g_cap ? STATIC_OR_HEAP : (TraceEvent *)0; g_nev = 0;
  o_@0.threadTrace.n = nondet_unsigned_long(); __CPROVER_assume(o_@0.threadTrace.n >= 1 && o_@0.threadTrace.n <= 1000000);
  o_@0.threadTraceMutex.g_held = 0; verif_cerr.kind = 2;
  g_depth = 0; g_in_str = 0; g_last = 0; g_objs = 0; g_ph_M = 0; g_ph_C = 0; g_evt_read = 0; g_open = 0;
  __CPROVER_assume(g_some_begin.name != 0);
""" % MAXE
    pre = pre.replace("STATIC_OR_HEAP", "g_evbuf" if os.environ.get("VERIF_TRACE_STATIC") else "(TraceEvent *)verif_malloc(g_cap * sizeof(TraceEvent))")
    def harness(U_, spec, f):
        L = ["void h_%s(void)\n{" % f.cname, "  verif_lib_anchor(); __verif_exc = 0;", "  TraceRecorder o_self; char the_file[2]; char the_name[2]; the_file[0] = 'f'; the_file[1] = 0; the_name[0] = 'p'; the_name[1] = 0;",
             pre.replace("o_@0", "o_self"), "  char *in_processName = nondet__Bool() ? the_name : (char *)0;",
             "  tr_saveLog(&o_self, the_file, in_processName);", "  __CPROVER_assert(0, \"VERIF_CANARY reachable end of harness\");\n}"]
        return "\n".join(L) + "\n", []
    U.fn("tr_saveLog", harness=harness, timeout=1500, solver=["--sat-solver", "cadical"], flags=(["--unwind", "16", "--unwinding-assertions"] if not os.environ.get("VERIF_TRACE_NOUNWIND") else []),
         requires=["$0->threadTraceMutex.g_held == 0", "$0->threadTrace.n >= 1 && $0->threadTrace.n <= 1000000", "__verif_exc == 0",
                   "g_depth == 0 && !g_in_str && g_last == 0 && g_objs == 0 && g_ph_M == 0 && g_ph_C == 0 && g_evt_read == 0",
                   "g_cap <= %d && ((g_cap == 0 && g_events == 0) || (g_cap > 0 && __CPROVER_r_ok(g_events, g_cap * %s) && __CPROVER_POINTER_OFFSET(g_events) == 0))" % (MAXE, SZ), "g_some_begin.name != 0"],
         assigns=GHOST + ["$0->threadTraceMutex.g_held"],
         loops={1: dict(assigns=["__begin2", "nextTid"] + GHOST,
                        invariant=["__begin2 <= __end2 && __end2 == self->threadTrace.n", "nextTid == (int)__begin2", JS, CNT, "g_ph_M == __begin2 + (processName != 0 ? 1 : 0)", STREAMS], decreases="__end2 - __begin2"),
                2: dict(assigns=["__begin3", "beginEvents"] + [g for g in GHOST if g not in ("g_entry", "g_tel")],
                        invariant=["__begin3 <= __end3", JS, CNT, "g_ph_M == __begin2 + 1 + (processName != 0 ? 1 : 0)", STREAMS, "beginEvents.depth == g_open", "beginEvents.depth == 0 || beginEvents.top == &g_some_begin"], decreases="__end3 - __begin3"),
                3: dict(assigns=["__begin4", "beginEvents"] + [g for g in GHOST if g not in ("g_entry", "g_tel", "g_nev")],
                        invariant=["__CPROVER_same_object(__begin4, __end4)", "__CPROVER_POINTER_OFFSET(__begin4) <= __CPROVER_POINTER_OFFSET(__end4)",
                                   JS, CNT, "g_ph_M == __begin2 + 1 + (processName != 0 ? 1 : 0)", STREAMS, "beginEvents.depth == g_open", "beginEvents.depth == 0 || beginEvents.top == &g_some_begin"],
                        decreases="__CPROVER_POINTER_OFFSET(__end4) - __CPROVER_POINTER_OFFSET(__begin4)"),
                4: dict(assigns=["beginEvents"], invariant=["beginEvents.depth == 0 || beginEvents.top == &g_some_begin"], decreases="beginEvents.depth")},
         ensures={
             "the_log_is_a_complete_JSON_array__brackets_balanced_separators_in_place": "g_depth == 0 && !g_in_str && g_last == 'v'",
             "every_recorded_event_is_written_as_exactly_one_object_of_its_own": CNT,
             "one_metadata_object_per_thread_plus_the_process_name": "g_ph_M == $0->threadTrace.n + ($2 != 0 ? 1 : 0)",
             "the_recorder_mutex_is_released": "$0->threadTraceMutex.g_held == 0"})
    U.stub("verif_out_* / verif_os_*", "recording model of std::ofstream / std::cerr: string literals drive a JSON structure automaton (necessary conditions of well-formedness: brackets balance, separator discipline, strings closed); numbers and dynamic text are tokens")
    U.stub("verif_thread_at / verif_chunk_at / verif_chunk_begin/end", "abstract sequences: one arbitrary element per dereference (loops under contract); a chunk is a view of one block of arbitrary events")
    U.stub("verif_event_read", "ASSUMED about the recording side: a thread's events are well nested (an end only while a begin is open) and carry a valid type")
    U.stub("verif_stack_*", "counting model of std::stack<const TraceEvent*>: depth and SOME named begin event as top")
    return U


MAXE = int(os.environ.get("VERIF_TRACE_MAXE", "1000000"))

STUBS = """
/* ---- abstract sequences: the thread map and a thread's chunk list are sequences of n elements of which the model hands out ONE
 *      arbitrary element per dereference (the loops over them are under loop contract, so every iteration is checked for an
 *      arbitrary element); a chunk is a view [g_events, g_events + g_nev) of one block of arbitrary events. */
typedef struct verif_stack { unsigned long depth; TraceEvent *top; } verif_stack;
verif_os verif_cerr;
std_pair_const_std_thread_id_std_shared_ptr_ThreadEventList g_entry; ThreadEventList g_tel; std_vector_TraceEvent g_chunk;
TraceEvent *g_events; unsigned long g_cap, g_nev; TraceEvent g_some_begin; TraceEvent g_evbuf[2];
/* ---- ghost state */
long g_depth; _Bool g_in_str; int g_last;               /* JSON text of the log file: nesting depth, inside a string, last token outside strings */
unsigned long g_objs, g_ph_M, g_ph_C, g_evt_read;        /* objects opened in the top-level array; of those: metadata, derived counters; events read */
unsigned long g_open;                                    /* begin events of the current thread not yet ended (recording side) */
void *verif_thread_at(unsigned long i)
{
  g_entry.first = nondet_unsigned_long(); g_entry.second.p = &g_tel; g_entry.second.c = 0;
  g_tel.events.n = nondet_unsigned_long();
  g_open = 0;                                            /* a thread's recording starts with nothing open */
  return &g_entry;
}
void *verif_chunk_at(unsigned long i) { g_nev = nondet_unsigned_long(); __CPROVER_assume(g_nev <= g_cap); return &g_chunk; }
TraceEvent *verif_chunk_begin(std_vector_TraceEvent *v) { return g_events; }
TraceEvent *verif_chunk_end(std_vector_TraceEvent *v) { return g_events + g_nev; }
TraceEvent *verif_event_read(TraceEvent *p)
{
  /* ASSUMED about the recording side (ThreadEventList::beginEvent / endEvent): a thread's events are well nested -- an end is
   * only recorded while a begin is open -- and carry a valid type */
  __CPROVER_assume(__CPROVER_r_ok(p, sizeof(TraceEvent)));   /* part of the chunk model: iteration hands out valid events */
  __CPROVER_assume(p->type >= 1 && p->type <= 4);
  if (p->type == 2) { __CPROVER_assume(g_open > 0); g_open--; }
  if (p->type == 1) g_open++;
  g_evt_read++;
  return p;
}
/* ---- the begin-event stack: depth and an arbitrary valid top */
_Bool verif_stack_empty(verif_stack *s) { return s->depth == 0; }
void verif_stack_push(verif_stack *s, TraceEvent **p) { s->depth++; s->top = &g_some_begin; /* abstraction: the top is SOME begin event (arbitrary contents, named) */ }
void verif_stack_pop(verif_stack *s) { __CPROVER_assert(s->depth > 0, "TRACE pop on an empty begin-event stack"); s->depth--; s->top = &g_some_begin; }
TraceEvent **verif_stack_top(verif_stack *s) { __CPROVER_assert(s->depth > 0, "TRACE top of an empty begin-event stack"); return &s->top; }
void verif_stack_dtor(verif_stack *s) { }
/* ---- the output stream: literals drive a JSON structure automaton (brackets balance, separator discipline, strings closed) */
void verif_os_open(verif_os *os, const char *name) { }
void verif_os_close(verif_os *os) { }
static void js_char(char c)
{
  if (g_in_str) {
    if (c == '"') { g_in_str = 0; g_last = 'v'; }
    __CPROVER_assert(c != 92, "TRACE no escape sequences in the literals");
    return;
  }
  if (c == ' ') return;
  if (c == '"') { __CPROVER_assert(g_last == '[' || g_last == '{' || g_last == ',' || g_last == ':', "TRACE a string starts only where a value or key may start"); g_in_str = 1; return; }
  if (c == '{' || c == '[') {
    __CPROVER_assert(g_last == 0 || g_last == '[' || g_last == ',' || g_last == ':', "TRACE an object/array opens only where a value may start");
    if (g_depth == 1 && c == '{') g_objs++;
    g_depth++; g_last = c; return;
  }
  if (c == '}') { __CPROVER_assert(g_depth >= 2 && (g_last == 'v' || g_last == '{'), "TRACE '}' closes an open object after a complete member"); g_depth--; g_last = 'v'; return; }
  if (c == ']') { __CPROVER_assert(g_depth >= 1 && (g_last == 'v' || g_last == '['), "TRACE ']' closes the array after a complete element"); g_depth--; g_last = 'v'; return; }
  if (c == ',') { __CPROVER_assert(g_last == 'v' && g_depth >= 1, "TRACE ',' follows a complete value"); g_last = ','; return; }
  if (c == ':') { __CPROVER_assert(g_last == 'v' && g_depth >= 2, "TRACE ':' follows a key inside an object"); g_last = ':'; return; }
  __CPROVER_assert(0, "TRACE unexpected bare character in a literal outside a string");
}
void verif_ph(int which) { if (which == 'M') g_ph_M++; else g_ph_C++; }
void verif_err_too_many(void) { __CPROVER_assert(0, "TRACE 'too many end events' is never reported for a well-nested recording (no recorded event is dropped)"); }
verif_os *verif_out_cstr(verif_os *os, const char *p)
{
  __CPROVER_assert(p != 0, "TRACE a null C string is never streamed (it would put the stream into its failed state)");
  if (os != &verif_cerr) __CPROVER_assert(g_in_str, "TRACE dynamic text is only written inside a JSON string");
  return os;
}
verif_os *verif_out_val(verif_os *os, int ignored)
{
  if (os != &verif_cerr && !g_in_str) { __CPROVER_assert(g_last == '[' || g_last == ',' || g_last == ':', "TRACE a number is written only where a value may start"); g_last = 'v'; }
  return os;
}
verif_os *verif_out_seek_back(verif_os *os, long off)
{
  __CPROVER_assert(os != &verif_cerr && off == -1 && !g_in_str && g_depth == 1 && g_last == ',', "TRACE the one character taken back is the comma after the last element of the top-level array");
  g_last = 'v';
  return os;
}
"""
