"""C06: linear / affine / quaternion algebra -- decided over the reals by z3 on VCs generated from the extracted code."""
import z3
from unit import Unit

A = z3.And
X = "xyz"


def col(m, c):      # column vectors of a LinearSpace3 view
    return getattr(m, "v" + c)


def M(m):
    """3x3 matrix entries M[r][c] of a LinearSpace3 view (columns vx,vy,vz)"""
    return [[getattr(col(m, c), r) for c in X] for r in X]


def matmul(P, Q):
    return [[sum(P[i][k] * Q[k][j] for k in range(3)) for j in range(3)] for i in range(3)]


def mateq(P, Q):
    return A(*[P[i][j] == Q[i][j] for i in range(3) for j in range(3)])


def ident(s=1):
    return [[(s if i == j else 0) for j in range(3)] for i in range(3)]


def transpose(P):
    return [[P[j][i] for j in range(3)] for i in range(3)]


def det3(P):
    return (P[0][0] * (P[1][1] * P[2][2] - P[1][2] * P[2][1]) - P[0][1] * (P[1][0] * P[2][2] - P[1][2] * P[2][0])
            + P[0][2] * (P[1][0] * P[2][1] - P[1][1] * P[2][0]))


def mv(P, v):
    return [sum(P[i][k] * getattr(v, X[k]) for k in range(3)) for i in range(3)]


def veq(v, lst):
    return A(*[getattr(v, X[i]) == lst[i] for i in range(3)])


def sincos_models():
    """sin/cos of an argument: a pair of symbols per distinct argument with s^2+c^2=1"""
    memo = {}
    def get(ev, x):
        x = z3.simplify(x)
        k = x.sexpr()
        if k not in memo:
            s, c = ev.newsym("sin"), ev.newsym("cos")
            ev.side.append(s * s + c * c == 1)
            memo[k] = (s, c)
        return memo[k]
    return {"verif_sinf": lambda ev, st, x: get(ev, x)[0], "verif_cosf": lambda ev, st, x: get(ev, x)[1], "_sincos": get}


def rsqrt_model(ev, st, x):
    x = z3.simplify(x)
    key = "rsqrt:" + x.sexpr()
    r = ev.rcp_cache.get(key)
    if r is None:
        r = ev.newsym("rsqrt")
        ev.side.append(r > 0)
        ev.side.append(r * r * x == 1)
        ev.oblig.append(("rsqrt_argument_positive", x > 0))
        ev.rcp_cache[key] = r
    return r


def units():
    U = Unit("c06_algebra", "units/c06_algebra.cpp", opts=dict(opaque=["rcp__f32", "rsqrt__f32"]))
    sc = sincos_models()
    U.math_models.update({"rcp__f32": lambda ev, st, x: ev.arith("/", ev.num(1), x), "rsqrt__f32": rsqrt_model,
                          "verif_sinf": sc["verif_sinf"], "verif_cosf": sc["verif_cosf"]})
    U.stub("rcp__f32", "SSE reciprocal estimate + Newton-Raphson treated as the exact reciprocal 1/x (real mode)")
    U.stub("rsqrt__f32", "SSE rsqrt estimate + Newton-Raphson treated as the exact 1/sqrt(x) (real mode)")

    # ------------------------------------------------------------ LinearSpace3
    def l3_defs(ctx):
        m = ctx.new("linear3f", "m")
        Mm = M(m)
        g = {}
        g["det_is_leibniz_formula"] = ctx.call("l3_det", m) == det3(Mm)
        t = ctx.call("l3_transposed", m)
        g["transposed_swaps_rows_and_columns"] = mateq(M(t), transpose(Mm))
        for i, nm in enumerate(("l3_row0", "l3_row1", "l3_row2")):
            r = ctx.call(nm, m)
            g["row%d_is_row" % i] = veq(r, Mm[i])
        adj = ctx.call("l3_adjoint", m)
        g["M_times_adjoint_is_det_times_identity"] = mateq(matmul(Mm, M(adj)), ident(det3(Mm)))
        g["adjoint_times_M_is_det_times_identity"] = mateq(matmul(M(adj), Mm), ident(det3(Mm)))
        return [], g
    U.mlemma("l3_det_adjoint_transposed_rows", "real", l3_defs)

    def l3_inverse(ctx):
        m = ctx.new("linear3f", "m")
        Mm = M(m)
        inv = ctx.call("l3_inverse", m)
        r = ctx.call("l3_rcp", m)
        return [det3(Mm) != 0], {"M_times_inverse_is_identity": mateq(matmul(Mm, M(inv)), ident()),
                                  "inverse_times_M_is_identity": mateq(matmul(M(inv), Mm), ident()),
                                  "rcp_is_inverse": mateq(M(r), M(inv))}
    U.mlemma("l3_inverse", "real", l3_inverse)

    def l3_products(ctx):
        a = ctx.new("linear3f", "a"); b = ctx.new("linear3f", "b"); v = ctx.new("vec3f", "v")
        ab = ctx.call("l3_mul", a, b)
        g = {"product_is_matrix_product": mateq(M(ab), matmul(M(a), M(b)))}
        g["det_is_multiplicative"] = ctx.call("l3_det", ab) == ctx.call("l3_det", a) * ctx.call("l3_det", b)
        bv = ctx.call("l3_mulv", b, v)
        g["matrix_times_vector"] = veq(bv, mv(M(b), v))
        abv1 = ctx.call("l3_mulv", ab, v)
        abv2 = ctx.call("l3_mulv", a, bv)
        g["composition_applies_right_factor_first"] = A(*[getattr(abv1, c) == getattr(abv2, c) for c in X])
        s = ctx.call("l3_add", a, b); d = ctx.call("l3_sub", a, b)
        g["sum_and_difference_entrywise"] = A(mateq(M(s), [[M(a)[i][j] + M(b)[i][j] for j in range(3)] for i in range(3)]),
                                              mateq(M(d), [[M(a)[i][j] - M(b)[i][j] for j in range(3)] for i in range(3)]))
        k = ctx.scalar("k")
        g["scalar_multiple_entrywise"] = mateq(M(ctx.call("l3_smul", k, a)), [[k * M(a)[i][j] for j in range(3)] for i in range(3)])
        return [], g
    U.mlemma("l3_products", "real", l3_products)

    def l3_xfm(ctx):
        m = ctx.new("linear3f", "m"); v = ctx.new("vec3f", "v")
        g = {"xfmPoint_applies_the_matrix": veq(ctx.call("l3_xfmPoint", m, v), mv(M(m), v)),
             "xfmVector_applies_the_matrix": veq(ctx.call("l3_xfmVector", m, v), mv(M(m), v))}
        return [], g
    U.mlemma("l3_xfm", "real", l3_xfm)

    def l3_xfm_normal(ctx):
        m = ctx.new("linear3f", "m"); v = ctx.new("vec3f", "v")
        n = ctx.call("l3_xfmNormal", m, v)
        # inverse transpose: M^T * n == v
        return [det3(M(m)) != 0], {"xfmNormal_is_inverse_transpose": A(*[sum(M(m)[k][i] * getattr(n, X[k]) for k in range(3)) == getattr(v, X[i]) for i in range(3)])}
    U.mlemma("l3_xfmNormal", "real", l3_xfm_normal)

    def l3_scale_one(ctx):
        s = ctx.new("vec3f", "s")
        sc_ = ctx.call("l3_scale", s)
        one = ctx.call("l3_one")
        return [], {"scale_is_diagonal": mateq(M(sc_), [[(getattr(s, X[i]) if i == j else 0) for j in range(3)] for i in range(3)]),
                    "one_is_identity": mateq(M(one), ident())}
    U.mlemma("l3_scale_identity", "real", l3_scale_one)

    def l3_rotate(ctx):
        u = ctx.new("vec3f", "u"); r = ctx.scalar("angle")
        R = ctx.call("l3_rotate", u, r)
        s, c = sc["_sincos"](ctx.ev, r)
        Rm = M(R)
        hyp = [u.x * u.x + u.y * u.y + u.z * u.z == 1]
        g = {"rotation_fixes_its_axis": A(*[mv(Rm, u)[i] == getattr(u, X[i]) for i in range(3)]),
             "rotation_is_orthogonal": mateq(matmul(transpose(Rm), Rm), ident()),
             "rotation_is_proper_det_one": det3(Rm) == 1,
             "rotation_angle_trace_is_1_plus_2cos": Rm[0][0] + Rm[1][1] + Rm[2][2] == 1 + 2 * c,
             # orientation: the antisymmetric part is sin(angle) * [u]_x (counter-clockwise about u)
             "rotation_sense_antisymmetric_part": A(Rm[2][1] - Rm[1][2] == 2 * s * u.x, Rm[0][2] - Rm[2][0] == 2 * s * u.y, Rm[1][0] - Rm[0][1] == 2 * s * u.z)}
        return hyp, g
    U.mlemma("l3_rotate_is_proper_rotation_about_axis", "real", l3_rotate, timeout=120)

    # ------------------------------------------------------------ LinearSpace2
    def l2(ctx):
        m = ctx.new("linear2f", "m"); b = ctx.new("linear2f", "b"); v = ctx.new("vec2f", "v")
        a_, b_, c_, d_ = m.vx.x, m.vy.x, m.vx.y, m.vy.y   # [[a b],[c d]]
        det = a_ * d_ - b_ * c_
        g = {"det2": ctx.call("l2_det", m) == det}
        adj = ctx.call("l2_adjoint", m)
        g["adjoint2"] = A(adj.vx.x == d_, adj.vy.x == -b_, adj.vx.y == -c_, adj.vy.y == a_)
        t = ctx.call("l2_transposed", m)
        g["transposed2"] = A(t.vx.x == a_, t.vy.x == c_, t.vx.y == b_, t.vy.y == d_)
        p = ctx.call("l2_mul", m, b)
        g["product2"] = A(p.vx.x == a_ * b.vx.x + b_ * b.vx.y, p.vx.y == c_ * b.vx.x + d_ * b.vx.y, p.vy.x == a_ * b.vy.x + b_ * b.vy.y, p.vy.y == c_ * b.vy.x + d_ * b.vy.y)
        w = ctx.call("l2_mulv", m, v)
        g["matrix_times_vector2"] = A(w.x == a_ * v.x + b_ * v.y, w.y == c_ * v.x + d_ * v.y)
        return [], g
    U.mlemma("l2_definitions", "real", l2)

    def l2inv(ctx):
        m = ctx.new("linear2f", "m")
        a_, b_, c_, d_ = m.vx.x, m.vy.x, m.vx.y, m.vy.y
        i = ctx.call("l2_inverse", m)
        return [a_ * d_ - b_ * c_ != 0], {"M_times_inverse_is_identity2": A(a_ * i.vx.x + b_ * i.vx.y == 1, a_ * i.vy.x + b_ * i.vy.y == 0, c_ * i.vx.x + d_ * i.vx.y == 0, c_ * i.vy.x + d_ * i.vy.y == 1)}
    U.mlemma("l2_inverse", "real", l2inv)

    def l2rot(ctx):
        r = ctx.scalar("angle")
        R = ctx.call("l2_rotate", r)
        s, c = sc["_sincos"](ctx.ev, r)
        return [], {"rotate2_is_ccw_rotation_matrix": A(R.vx.x == c, R.vy.x == -s, R.vx.y == s, R.vy.y == c)}
    U.mlemma("l2_rotate", "real", l2rot)

    def l2orth(ctx):
        # an orthogonal matrix (rotation OR reflection) is its own closest orthogonal matrix: the Newton iteration of
        # orthogonal() is at its fixed point, so it must leave after the first step (obligation of the unrolling) and the
        # mirror that was factored out before the iteration must be put back onto the same column
        m = ctx.new("linear2f", "m")
        a_, b_, c_, d_ = m.vx.x, m.vy.x, m.vx.y, m.vy.y
        o = ctx.call("l2_orthogonal", m)
        hyp = [a_ * a_ + c_ * c_ == 1, b_ * b_ + d_ * d_ == 1, a_ * b_ + c_ * d_ == 0]
        return hyp, {"orthogonal_input_is_a_fixed_point_of_orthogonal": A(o.vx.x == a_, o.vx.y == c_, o.vy.x == b_, o.vy.y == d_)}
    U.mlemma("l2_orthogonal_fixed_point", "real", l2orth, unroll=1, timeout=120)

    # ------------------------------------------------------------ AffineSpace3
    def a3_rcp(ctx):
        a = ctx.new("affine3f", "a")
        r = ctx.call("a3_rcp", a)
        ra = ctx.call("a3_mul", r, a)
        ar = ctx.call("a3_mul", a, r)
        return [det3(M(a.l)) != 0], {
            "rcp_times_A_is_identity": A(mateq(M(ra.l), ident()), ra.p.x == 0, ra.p.y == 0, ra.p.z == 0),
            "A_times_rcp_is_identity": A(mateq(M(ar.l), ident()), ar.p.x == 0, ar.p.y == 0, ar.p.z == 0)}
    U.mlemma("a3_rcp_is_inverse", "real", a3_rcp, timeout=120)

    def a3_comp(ctx):
        a = ctx.new("affine3f", "a"); b = ctx.new("affine3f", "b"); p = ctx.new("vec3f", "p")
        ab = ctx.call("a3_mul", a, b)
        bp = ctx.call("a3_xfmPoint", b, p)
        lhs = ctx.call("a3_xfmPoint", ab, p)
        rhs = ctx.call("a3_xfmPoint", a, bp)
        g = {"composition_applied_to_point": A(*[getattr(lhs, c) == getattr(rhs, c) for c in X])}
        q = ctx.call("a3_xfmPoint", a, p)
        g["xfmPoint_is_full_affine_map"] = A(*[getattr(q, X[i]) == mv(M(a.l), p)[i] + getattr(a.p, X[i]) for i in range(3)])
        v = ctx.call("a3_xfmVector", a, p)
        g["xfmVector_is_linear_part_only"] = veq(v, mv(M(a.l), p))
        return [], g
    U.mlemma("a3_composition_and_xfm", "real", a3_comp)

    def a3_normal(ctx):
        a = ctx.new("affine3f", "a"); v = ctx.new("vec3f", "v")
        n = ctx.call("a3_xfmNormal", a, v)
        return [det3(M(a.l)) != 0], {"xfmNormal_is_inverse_transpose_of_linear_part": A(*[sum(M(a.l)[k][i] * getattr(n, X[k]) for k in range(3)) == getattr(v, X[i]) for i in range(3)])}
    U.mlemma("a3_xfmNormal", "real", a3_normal)

    def a3_ctors(ctx):
        s = ctx.new("vec3f", "s"); p = ctx.new("vec3f", "p")
        sc_ = ctx.call("a3_scale", s)
        tr = ctx.call("a3_translate", p)
        g = {"scale_axes_and_origin": A(mateq(M(sc_.l), [[(getattr(s, X[i]) if i == j else 0) for j in range(3)] for i in range(3)]), sc_.p.x == 0, sc_.p.y == 0, sc_.p.z == 0),
             "translate_axes_and_origin": A(mateq(M(tr.l), ident()), tr.p.x == p.x, tr.p.y == p.y, tr.p.z == p.z)}
        return [], g
    U.mlemma("a3_scale_translate", "real", a3_ctors)

    def a3_rot_about(ctx):
        p = ctx.new("vec3f", "p"); u = ctx.new("vec3f", "u"); r = ctx.scalar("angle")
        Rp = ctx.call("a3_rotate_about", p, u, r)
        R = ctx.call("l3_rotate", u, r)
        fixed = ctx.call("a3_xfmPoint", Rp, p)
        return [u.x * u.x + u.y * u.y + u.z * u.z == 1], {
            "rotation_about_point_fixes_the_point": A(fixed.x == p.x, fixed.y == p.y, fixed.z == p.z),
            "rotation_about_point_has_the_rotation_as_linear_part": mateq(M(Rp.l), M(R))}
    U.mlemma("a3_rotate_about_point", "real", a3_rot_about, timeout=120)

    def a3_lookat(ctx):
        eye = ctx.new("vec3f", "eye"); pt = ctx.new("vec3f", "point"); up = ctx.new("vec3f", "up")
        L = ctx.call("a3_lookat", eye, pt, up)
        d = [getattr(pt, c) - getattr(eye, c) for c in X]
        Z = L.l.vz; Uv = L.l.vx; V = L.l.vy
        dot = lambda a, b: a.x * b.x + a.y * b.y + a.z * b.z
        crossdu = [d[1] * up.z - d[2] * up.y, d[2] * up.x - d[0] * up.z, d[0] * up.y - d[1] * up.x]
        hyp = [d[0] * d[0] + d[1] * d[1] + d[2] * d[2] > 0, crossdu[0] * crossdu[0] + crossdu[1] * crossdu[1] + crossdu[2] * crossdu[2] > 0]
        g = {"lookat_origin_is_eye": A(L.p.x == eye.x, L.p.y == eye.y, L.p.z == eye.z),
             "lookat_axes_orthonormal": A(dot(Z, Z) == 1, dot(Uv, Uv) == 1, dot(V, V) == 1, dot(Z, Uv) == 0, dot(Z, V) == 0, dot(Uv, V) == 0),
             "lookat_z_axis_points_at_target": A(Z.y * d[2] - Z.z * d[1] == 0, Z.z * d[0] - Z.x * d[2] == 0, Z.x * d[1] - Z.y * d[0] == 0, Z.x * d[0] + Z.y * d[1] + Z.z * d[2] > 0),
             "lookat_x_axis_is_z_cross_up_direction": Uv.x * crossdu[0] + Uv.y * crossdu[1] + Uv.z * crossdu[2] > 0,
             "lookat_y_is_x_cross_z": A(V.x == Uv.y * Z.z - Uv.z * Z.y, V.y == Uv.z * Z.x - Uv.x * Z.z, V.z == Uv.x * Z.y - Uv.y * Z.x)}
        return hyp, g
    U.mlemma("a3_lookat", "real", a3_lookat, timeout=120)

    def frame1(ctx):
        N = ctx.new("vec3f", "N")
        F = ctx.call("l3_frame", N)
        dot = lambda a, b: a.x * b.x + a.y * b.y + a.z * b.z
        dx, dy, dz = F.vx, F.vy, F.vz
        return [dot(N, N) == 1], {"frame_third_axis_is_normal": A(dz.x == N.x, dz.y == N.y, dz.z == N.z),
                                  "frame_is_orthonormal": A(dot(dx, dx) == 1, dot(dy, dy) == 1, dot(dx, dy) == 0, dot(dx, dz) == 0, dot(dy, dz) == 0),
                                  "frame_is_right_handed": det3(M(F)) == 1}
    U.mlemma("l3_frame", "real", frame1, timeout=120)

    # ------------------------------------------------------------ Quaternions
    def qdefs(ctx):
        a = ctx.new("quatf", "a"); b = ctx.new("quatf", "b")
        p = ctx.call("q_mul", a, b)
        g = {"hamilton_product": A(p.r == a.r * b.r - a.i * b.i - a.j * b.j - a.k * b.k, p.i == a.r * b.i + a.i * b.r + a.j * b.k - a.k * b.j,
                                   p.j == a.r * b.j - a.i * b.k + a.j * b.r + a.k * b.i, p.k == a.r * b.k + a.i * b.j - a.j * b.i + a.k * b.r)}
        c = ctx.call("q_conj", a)
        g["conjugate"] = A(c.r == a.r, c.i == -a.i, c.j == -a.j, c.k == -a.k)
        g["dot"] = ctx.call("q_dot", a, b) == a.r * b.r + a.i * b.i + a.j * b.j + a.k * b.k
        return [], g
    U.mlemma("q_definitions", "real", qdefs)

    def qrcp(ctx):
        a = ctx.new("quatf", "a")
        r = ctx.call("q_rcp", a)
        p = ctx.call("q_mul", r, a)
        n = ctx.call("q_normalize", a)
        nn = a.r * a.r + a.i * a.i + a.j * a.j + a.k * a.k
        return [nn > 0], {"rcp_times_q_is_one": A(p.r == 1, p.i == 0, p.j == 0, p.k == 0),
                          "normalize_has_unit_norm": n.r * n.r + n.i * n.i + n.j * n.j + n.k * n.k == 1,
                          "normalize_is_positive_multiple": A(n.r * a.i == n.i * a.r, n.r * a.j == n.j * a.r, n.r * a.k == n.k * a.r, n.i * a.j == n.j * a.i, n.r * a.r + n.i * a.i + n.j * a.j + n.k * a.k > 0)}
    U.mlemma("q_rcp_normalize", "real", qrcp)

    def qmat(ctx):
        q = ctx.new("quatf", "q"); v = ctx.new("vec3f", "v")
        Mq = ctx.call("l3_from_quat", q)
        qv = ctx.call("q_mulv", q, v)
        hyp = [q.r * q.r + q.i * q.i + q.j * q.j + q.k * q.k == 1]
        g = {"matrix_from_quaternion_agrees_with_quaternion_rotation": veq(qv, mv(M(Mq), v)),
             "matrix_from_unit_quaternion_is_orthogonal": mateq(matmul(transpose(M(Mq)), M(Mq)), ident()),
             "matrix_from_unit_quaternion_is_proper": det3(M(Mq)) == 1}
        return hyp, g
    U.mlemma("q_matrix_agreement", "real", qmat, timeout=120)

    for branch in range(4):
        def qfrom(ctx, branch=branch):
            q0 = ctx.new("quatf", "q0")
            Mq = ctx.call("l3_from_quat", q0)
            Q = ctx.call("q_from_basis", Mq.vx, Mq.vy, Mq.vz)
            tr = Mq.vx.x + Mq.vy.y + Mq.vz.z
            mx = lambda a, b: z3.If(a < b, b, a)
            conds = [tr >= 0, A(tr < 0, Mq.vx.x >= mx(Mq.vy.y, Mq.vz.z)), A(tr < 0, z3.Not(Mq.vx.x >= mx(Mq.vy.y, Mq.vz.z)), Mq.vy.y >= Mq.vz.z),
                     A(tr < 0, z3.Not(Mq.vx.x >= mx(Mq.vy.y, Mq.vz.z)), z3.Not(Mq.vy.y >= Mq.vz.z))]
            hyp = [q0.r * q0.r + q0.i * q0.i + q0.j * q0.j + q0.k * q0.k == 1, conds[branch]]
            same = A(Q.r == q0.r, Q.i == q0.i, Q.j == q0.j, Q.k == q0.k)
            neg = A(Q.r == -q0.r, Q.i == -q0.i, Q.j == -q0.j, Q.k == -q0.k)
            return hyp, {"quaternion_from_matrix_recovers_the_rotation_branch_%d" % branch: z3.Or(same, neg)}
        U.mlemma("q_from_matrix_branch_%d" % branch, "real", qfrom, timeout=200)

    def qypr(ctx):
        yaw = ctx.scalar("yaw"); pitch = ctx.scalar("pitch"); roll = ctx.scalar("roll")
        Q = ctx.call("q_from_ypr", yaw, pitch, roll)
        half = lambda x: x * z3.RealVal("0.5")
        sy, cy = sc["_sincos"](ctx.ev, half(yaw)); sp, cp = sc["_sincos"](ctx.ev, half(pitch)); sr, cr = sc["_sincos"](ctx.ev, half(roll))
        def qmul(a, b):
            return (a[0] * b[0] - a[1] * b[1] - a[2] * b[2] - a[3] * b[3], a[0] * b[1] + a[1] * b[0] + a[2] * b[3] - a[3] * b[2],
                    a[0] * b[2] - a[1] * b[3] + a[2] * b[0] + a[3] * b[1], a[0] * b[3] + a[1] * b[2] - a[2] * b[1] + a[3] * b[0])
        qy, qx, qz = (cy, 0, sy, 0), (cp, sp, 0, 0), (cr, 0, 0, sr)
        e = qmul(qmul(qy, qx), qz)
        return [], {"ypr_is_yaw_about_y_times_pitch_about_x_times_roll_about_z": A(Q.r == e[0], Q.i == e[1], Q.j == e[2], Q.k == e[3])}
    U.mlemma("q_yaw_pitch_roll", "real", qypr)

    def qrot(ctx):
        u = ctx.new("vec3f", "u"); r = ctx.scalar("angle")
        Q = ctx.call("q_rotate", u, r)
        s, c = sc["_sincos"](ctx.ev, z3.RealVal("0.5") * r)
        return [u.x * u.x + u.y * u.y + u.z * u.z == 1], {"axis_angle_quaternion": A(Q.r == c, Q.i == s * u.x, Q.j == s * u.y, Q.k == s * u.z)}
    U.mlemma("q_rotate_axis_angle", "real", qrot)

    def qslerp(ctx):
        # q and -q are the same rotation: slerp must not depend on the sign its first argument is stored with (except for exactly
        # orthogonal quaternions, where both arcs are equally short). This is a 30 s counterexample SEARCH, not a proof: z3 does
        # not decide the lemma on the unchanged code (sqrt side conditions + merged acos/sin branch: unknown after minutes; a CBMC
        # term-identity formulation did not finish either), but it refutes a wrong choice of hemisphere in well under a second and the
        # model replays natively.
        a = ctx.new("quatf", "a"); b = ctx.new("quatf", "b"); f = ctx.new("float", "f")
        na = ctx.call("q_neg", a)
        s1 = ctx.call("q_slerp", f, a, b)
        s2 = ctx.call("q_slerp", f, na, b)
        d = a.r * b.r + a.i * b.i + a.j * b.j + a.k * b.k
        hyp = [a.r * a.r + a.i * a.i + a.j * a.j + a.k * a.k == 1, b.r * b.r + b.i * b.i + b.j * b.j + b.k * b.k == 1, f >= 0, f <= 1,
               z3.Or(d > z3.RealVal("0.9996"), d < z3.RealVal("-0.9996"))]
        return hyp, {"slerp_is_independent_of_the_sign_its_first_argument_is_stored_with__small_angle_region": A(s1.r == s2.r, s1.i == s2.i, s1.j == s2.j, s1.k == s2.k)}
    U.mlemma("q_slerp_sign_symmetry_search", "real", qslerp, timeout=30, refute_only=True)
    return [U]


META = dict(
    technique='z3 5.1 over verification conditions generated by a symbolic evaluator of the extracted IR (real arithmetic: machine floating point treated as mathematical); one time-boxed z3 counterexample search (slerp)',
    level="proof",
    level_text="The algebraic content of C06 is decided for all real inputs: each lemma (M*adj(M)=det*I, M*inverse(M)=I, rcp(A)*A=id, (A*B)(p)=A(B(p)), det multiplicative, transposed/rows, xfmPoint/xfmVector/xfmNormal = full map / linear part / inverse transpose, rotate(u,angle) proper rotation about u by that angle incl. sense, matrix-from-quaternion = quaternion rotation and orthonormal, quaternion-from-matrix in each of its four branches recovers +-q, yaw/pitch/roll = qY*qX*qZ, scale/translate/rotate-about-point/frame/lookat axes, origin, orthonormality, orientation) is a z3 proof over VCs generated by symbolic evaluation of the functions extracted from /repo on this run. A sign, index or operand slip turns a polynomial identity into a non-identity and is refuted with a model that is replayed on the real code.",
    level_note="ASSUMPTION: machine floating-point arithmetic treated as real arithmetic (rounding, the condition-number tolerance of the statement, overflow/NaN are not modelled). rcp/rsqrt (SSE estimate + Newton-Raphson) are modelled as exact 1/x and 1/sqrt(x); sin/cos as symbols with s^2+c^2=1. Trusted: clang AST, cxx2c, lib/mathvc.py symbolic evaluator, z3 5.1 (fallback z3 4.8 / cvc5).",
    assumptions=["float arithmetic = real arithmetic", "rcp(x)=1/x, rsqrt(x)=1/sqrt(x) exactly", "sin/cos: only s^2+c^2=1 is used"],
    unverified=["orthogonal() (99-iteration Newton loop)", "slerp (only a counterexample search for its choice of hemisphere in the small-angle region; no proof)", "tolerances / conditioning", "double and padded (vec3fa) instantiations", "clamp(LinearSpace3)"],
    trusted_extra=["lib/mathvc.py symbolic evaluator", "z3 5.1.0 (python API), z3 4.8.12, cvc5 1.0 as fallback portfolio"],
)
