"""C15: stream serialization round-trips and never leaves its buffer."""
from unit import Unit

MAXN = 1000000
EXC = "EXC_std_runtime_error"

STUBS = """
unsigned char g_byte_j;   /* ghost: the buffer byte at position verif_gj on entry */
/* interface models of the two pure virtual stream operations (WriteStream::write / ReadStream::read): they check the
 * caller-side obligation (the memory range handed over is valid), may throw, and record every call in ghost state */
unsigned long g_w_calls, g_w_total, g_w_size[4], g_w_val[4];
const void *g_w_mem[4];
unsigned long g_r_calls, g_r_total, g_r_size[4], g_r_val[4];
void *g_r_mem[4];
void WriteStream_write_stub(WriteStream *self, void *mem, unsigned long size)
{
  __CPROVER_assert(size == 0 || mem == 0 || __CPROVER_r_ok(mem, size), "WriteStream::write is handed a readable range of `size` bytes");
  if (nondet__Bool()) { __verif_exc = EXC_std_runtime_error; return; }
  if (g_w_calls < 4) { g_w_mem[g_w_calls] = mem; g_w_size[g_w_calls] = size; if (size == 8 && mem) g_w_val[g_w_calls] = *(unsigned long *)mem; }
  g_w_calls++; g_w_total += size;
}
void ReadStream_read_stub(ReadStream *self, void *mem, unsigned long size)
{
  __CPROVER_assert(size == 0 || mem == 0 || __CPROVER_w_ok(mem, size), "ReadStream::read is handed a writable range of `size` bytes");
  if (nondet__Bool()) { __verif_exc = EXC_std_runtime_error; return; }
  if (mem && size) __CPROVER_havoc_slice(mem, size);
  if (g_r_calls < 4) { g_r_mem[g_r_calls] = mem; g_r_size[g_r_calls] = size; if (size == 8 && mem) g_r_val[g_r_calls] = *(unsigned long *)mem; }
  g_r_calls++; g_r_total += size;
}
"""
GW = ["g_w_calls", "g_w_total", "__CPROVER_object_whole(g_w_size)", "__CPROVER_object_whole(g_w_val)", "__CPROVER_object_whole(g_w_mem)"]
GR = ["g_r_calls", "g_r_total", "__CPROVER_object_whole(g_r_size)", "__CPROVER_object_whole(g_r_val)", "__CPROVER_object_whole(g_r_mem)"]
GINIT = "  g_w_calls = 0; g_w_total = 0; g_r_calls = 0; g_r_total = 0;\n"


def reader_state(o):
    """BufferReader over a buffer of symbolic length N with an arbitrary cursor <= N"""
    return """
  unsigned long in_N = nondet_unsigned_long(); __CPROVER_assume(in_N <= %(max)d);
  AbstractArrayu8 the_buf; the_buf.numItems = in_N; the_buf.ptr = in_N ? (unsigned char *)verif_malloc(in_N) : 0;
  verif_ctrl the_ctrl; the_ctrl.cnt = 1;
  %(o)s.buffer.p = &the_buf; %(o)s.buffer.c = &the_ctrl;
  unsigned long in_cursor = nondet_unsigned_long(); __CPROVER_assume(in_cursor <= in_N); %(o)s.cursor = in_cursor;
  verif_gi = nondet_unsigned_long(); verif_gj = nondet_unsigned_long();
""" % dict(o=o, max=MAXN)


def fixed_writer_state(o):
    return """
  unsigned long in_N = nondet_unsigned_long(); __CPROVER_assume(in_N <= %(max)d);
  FixedArrayu8 the_arr; the_arr.array.p = (unsigned char *)verif_malloc(in_N); verif_ctrl c1; c1.cnt = 1; the_arr.array.c = &c1;
  the_arr.__base_AbstractArrayu8.numItems = in_N; the_arr.__base_AbstractArrayu8.ptr = in_N ? the_arr.array.p : 0;
  verif_ctrl c2; c2.cnt = 1; %(o)s.buffer.p = &the_arr; %(o)s.buffer.c = &c2;
  unsigned long in_cursor = nondet_unsigned_long(); __CPROVER_assume(in_cursor <= in_N); %(o)s.cursor = in_cursor;
  verif_gi = nondet_unsigned_long(); verif_gj = nondet_unsigned_long();
  if (verif_gj < in_N) g_byte_j = the_arr.array.p[verif_gj];
""" % dict(o=o, max=MAXN)


def units():
    U = Unit("c15_streams", "units/c15_streams.cpp", stubs=STUBS,
             opts=dict(virtual_models={"rkcommon::networking::WriteStream::write": "WriteStream_write_stub",
                                       "rkcommon::networking::ReadStream::read": "ReadStream_read_stub"},
                       virtual_may_throw={"rkcommon::networking::WriteStream::write": True, "rkcommon::networking::ReadStream::read": True},
                       stub_may_throw=["WriteStream_write_stub", "ReadStream_read_stub"],
                       virtual_final=["BufferReader", "BufferWriter", "WriteSizeCalculator", "FixedBufferWriter"]))
    U.stub("WriteStream_write_stub / ReadStream_read_stub", "interface models of the pure virtual stream operations used when verifying the generic stream operators: check the range handed over, may throw, record calls (contracts/c15.py)")
    N = "$0->buffer.p->numItems"
    RINV = ["$0->cursor <= %s" % N, "__verif_exc == 0"]
    # ---------------- BufferReader
    FITS = "($2 <= OLD(%s) - OLD($0->cursor))" % N
    U.fn("br_read", pre_call=reader_state("o_@0"), requires=RINV + ["$1 == 0 || $2 == 0 || __CPROVER_w_ok($1, $2)"],
         assigns=["$0->cursor", "__CPROVER_object_whole($1)"], ensures={
             "read_accepted_iff_it_fits_in_the_remaining_bytes": "IMP(%s, __verif_exc == 0 && $0->cursor == OLD($0->cursor) + $2)" % FITS,
             "read_past_the_end_throws_and_changes_nothing": "IMP(!%s, __verif_exc == %s && $0->cursor == OLD($0->cursor))" % (FITS, EXC),
             "the_bytes_read_are_the_buffer_bytes_at_the_old_cursor": "IMP(%s && $1 != 0 && verif_gi < $2, ((unsigned char *)$1)[verif_gi] == $0->buffer.p->ptr[OLD($0->cursor) + verif_gi])" % FITS})
    U.fn("br_end", pre_call=reader_state("o_@0"), requires=RINV, ensures={"end_iff_everything_consumed": "RET == ($0->cursor == %s)" % N})
    FITSV = "($1 <= OLD(%s) - OLD($0->cursor))" % N
    U.fn("br_getView", pre_call=reader_state("o_@0"), requires=RINV, assigns=["$0->cursor"], ensures={
        "view_accepted_iff_it_fits": "IMP(%s, __verif_exc == 0 && $0->cursor == OLD($0->cursor) + $1)" % FITSV,
        "view_aliases_the_bytes_at_the_old_cursor": "IMP(%s, __CPROVER_is_fresh(RET.p, sizeof(ArrayView_uchar)) && RET.p->__base_AbstractArrayu8.numItems == $1 && IMP($1 > 0, RET.p->__base_AbstractArrayu8.ptr == $0->buffer.p->ptr + OLD($0->cursor)))" % FITSV,
        "view_past_the_end_throws_and_changes_nothing": "IMP(!%s, __verif_exc == %s && $0->cursor == OLD($0->cursor))" % (FITSV, EXC)})
    # ---------------- WriteSizeCalculator
    U.fn("wsc_write", nullable=["mem"], requires=["$0->writtenSize <= 1000000000000ul && $2 <= 1000000000000ul"], assigns=["$0->writtenSize"],
         ensures={"size_calculator_adds_exactly_the_bytes_written": "$0->writtenSize == OLD($0->writtenSize) + $2"})
    # ---------------- FixedBufferWriter
    CAP = "$0->buffer.p->__base_AbstractArrayu8.numItems"
    WINV = ["$0->cursor <= %s" % CAP, "__verif_exc == 0"]
    WFITS = "($2 <= OLD(%s) - OLD($0->cursor))" % CAP
    U.fn("fbw_write", pre_call=fixed_writer_state("o_@0"), requires=WINV + ["$1 == 0 || $2 == 0 || __CPROVER_r_ok($1, $2)", "IMP(verif_gj < %s, $0->buffer.p->__base_AbstractArrayu8.ptr[verif_gj] == g_byte_j)" % CAP, "$1 == 0 || !__CPROVER_same_object($1, $0->buffer.p->array.p)"],
         assigns=["$0->cursor", "__CPROVER_object_whole($0->buffer.p->array.p)"], ensures={
             "write_accepted_exactly_when_it_fits": "IMP(%s, __verif_exc == 0 && $0->cursor == OLD($0->cursor) + $2)" % WFITS,
             "write_that_does_not_fit_throws_without_writing": "IMP(!%s, __verif_exc == %s && $0->cursor == OLD($0->cursor))" % (WFITS, EXC),
             "the_bytes_written_land_at_the_old_cursor": "IMP(%s && $1 != 0 && verif_gi < $2, $0->buffer.p->__base_AbstractArrayu8.ptr[OLD($0->cursor) + verif_gi] == ((const unsigned char *)$1)[verif_gi])" % WFITS,
             "bytes_written_earlier_are_untouched": "IMP(verif_gj < OLD($0->cursor), $0->buffer.p->__base_AbstractArrayu8.ptr[verif_gj] == g_byte_j)"})
    RFITS = "($1 <= OLD(%s) - OLD($0->cursor))" % CAP
    U.fn("fbw_reserve", pre_call=fixed_writer_state("o_@0"), requires=WINV, assigns=["$0->cursor"], ensures={
        "reserve_accepted_exactly_when_it_fits": "IMP(%s, __verif_exc == 0 && $0->cursor == OLD($0->cursor) + $1 && IMP($1 > 0, RET == $0->buffer.p->__base_AbstractArrayu8.ptr + OLD($0->cursor)))" % RFITS,
        "reserve_that_does_not_fit_throws": "IMP(!%s, __verif_exc == %s && $0->cursor == OLD($0->cursor))" % (RFITS, EXC)})
    U.fn("fbw_available", pre_call=fixed_writer_state("o_@0"), requires=WINV, ensures={"available_is_capacity_minus_cursor": "RET == %s - $0->cursor" % CAP})
    U.fn("fbw_capacity", pre_call=fixed_writer_state("o_@0"), requires=WINV, ensures={"capacity_is_buffer_size": "RET == %s" % CAP})
    # ---------------- generic stream operators against the interface models
    U.fn("ws_put_u64", pre_call=GINIT, requires=["g_w_calls == 0", "__verif_exc == 0"], assigns=GW, ensures={
        "pod_write_is_one_write_of_sizeof_T_from_the_value": "IMP(__verif_exc == 0, g_w_calls == 1 && g_w_mem[0] == $1 && g_w_size[0] == 8 && g_w_total == OLD(g_w_total) + 8)",
        "returns_stream": "IMP(__verif_exc == 0, RET == $0)"})
    U.fn("ws_put_i32", pre_call=GINIT, requires=["g_w_calls == 0", "__verif_exc == 0"], assigns=GW, ensures={
        "pod_write_is_one_write_of_sizeof_T_from_the_value": "IMP(__verif_exc == 0, g_w_calls == 1 && g_w_mem[0] == $1 && g_w_size[0] == 4 && g_w_total == OLD(g_w_total) + 4)"})
    U.fn("rs_get_u64", pre_call=GINIT, requires=["g_r_calls == 0", "__verif_exc == 0"], assigns=GR + ["*$1"], ensures={
        "pod_read_is_one_read_of_sizeof_T_into_the_value": "IMP(__verif_exc == 0, g_r_calls == 1 && g_r_mem[0] == $1 && g_r_size[0] == 8 && g_r_total == OLD(g_r_total) + 8)"})
    U.fn("rs_get_i32", pre_call=GINIT, requires=["g_r_calls == 0", "__verif_exc == 0"], assigns=GR + ["*$1"], ensures={
        "pod_read_is_one_read_of_sizeof_T_into_the_value": "IMP(__verif_exc == 0, g_r_calls == 1 && g_r_mem[0] == $1 && g_r_size[0] == 4 && g_r_total == OLD(g_r_total) + 4)"})
    strh = lambda o: """
  unsigned long in_len = nondet_unsigned_long(); __CPROVER_assume(in_len <= %(max)d);
  %(o)s.n = in_len; %(o)s.cap = in_len; %(o)s.b = (char *)verif_malloc(in_len + 1);
""" % dict(o=o, max=MAXN)
    U.fn("ws_put_string", pre_call=GINIT + strh("o_@1"), inline=["ws_put_u64"], requires=["g_w_calls == 0", "__verif_exc == 0", "$1->n <= %d" % MAXN, "__CPROVER_r_ok($1->b, $1->n)"], assigns=GW, ensures={
        "string_is_written_as_size_prefix_then_payload": "IMP(__verif_exc == 0, g_w_calls == 2 && g_w_size[0] == 8 && g_w_val[0] == $1->n && g_w_mem[1] == $1->b && g_w_size[1] == $1->n && g_w_total == 8 + $1->n)"})
    U.fn("rs_get_string", pre_call=GINIT + strh("o_@1"), inline=["rs_get_u64"], requires=["g_r_calls == 0", "__verif_exc == 0", "__CPROVER_r_ok($1->b, $1->n)"],
         assigns=GR + ["*$1"], frees=["$1->b"], ensures={
        "string_is_read_as_size_prefix_then_payload_into_resized_storage": "IMP(__verif_exc == 0, g_r_calls == 2 && g_r_size[0] == 8 && $1->n == g_r_val[0] && g_r_size[1] == $1->n && IMP($1->n > 0, g_r_mem[1] == $1->b) && g_r_total == 8 + $1->n)"})
    arrh = lambda o: """
  unsigned long in_len = nondet_unsigned_long(); __CPROVER_assume(in_len <= %(max)d);
  %(o)s.numItems = in_len; %(o)s.ptr = in_len ? (int *)verif_malloc(in_len * sizeof(int)) : 0;
""" % dict(o=o, max=MAXN)
    U.fn("ws_put_array", pre_call=GINIT + arrh("o_@1"), inline=["ws_put_u64"], requires=["g_w_calls == 0", "__verif_exc == 0", "$1->numItems <= %d" % MAXN, "$1->numItems == 0 || __CPROVER_r_ok($1->ptr, $1->numItems * sizeof(int))"], assigns=GW, ensures={
        "array_is_written_as_size_prefix_then_sizeof_T_times_size_bytes": "IMP(__verif_exc == 0, g_w_calls == 2 && g_w_size[0] == 8 && g_w_val[0] == $1->numItems && g_w_mem[1] == $1->ptr && g_w_size[1] == 4 * $1->numItems && g_w_total == 8 + 4 * $1->numItems)"})
    vech = lambda o: """
  unsigned long in_len = nondet_unsigned_long(); __CPROVER_assume(in_len <= %(max)d);
  %(o)s.n = in_len; %(o)s.cap = in_len; %(o)s.b = in_len ? (int *)verif_malloc(in_len * sizeof(int)) : 0;
""" % dict(o=o, max=MAXN)
    U.fn("ws_put_vec", pre_call=GINIT + vech("o_@1"), inline=["ws_put_u64", "ws_put_i32"], requires=["g_w_calls == 0", "__verif_exc == 0", "$1->n <= %d" % MAXN, "$1->n == 0 || __CPROVER_r_ok($1->b, $1->n * sizeof(int))"], assigns=GW,
         loops={1: dict(assigns=["__begin0", "__verif_exc"] + GW,
                        invariant=["rh->n == 0 ? __begin0 == __end0 : (__CPROVER_same_object(__begin0, rh->b) && __CPROVER_POINTER_OFFSET(__begin0) >= __CPROVER_POINTER_OFFSET(rh->b) && (__CPROVER_POINTER_OFFSET(__begin0) - __CPROVER_POINTER_OFFSET(rh->b)) % 4 == 0 && ((__CPROVER_POINTER_OFFSET(__begin0) - __CPROVER_POINTER_OFFSET(rh->b)) / 4) <= rh->n)",
                                   "__verif_exc == 0",
                                   "g_w_calls == 1 + (rh->n == 0 ? 0 : ((__CPROVER_POINTER_OFFSET(__begin0) - __CPROVER_POINTER_OFFSET(rh->b)) / 4))",
                                   "g_w_total == 8 + 4 * (g_w_calls - 1)", "g_w_size[0] == 8 && g_w_val[0] == rh->n"],
                        decreases="rh->n == 0 ? 0 : rh->n - ((__CPROVER_POINTER_OFFSET(__begin0) - __CPROVER_POINTER_OFFSET(rh->b)) / 4)")},
         ensures={"vector_is_written_as_size_prefix_then_each_element_in_order": "IMP(__verif_exc == 0, g_w_calls == 1 + $1->n && g_w_size[0] == 8 && g_w_val[0] == $1->n && g_w_total == 8 + 4 * $1->n)"})
    U.fn("rs_get_vec", pre_call=GINIT + vech("o_@1"), inline=["rs_get_u64", "rs_get_i32"], requires=["g_r_calls == 0", "__verif_exc == 0", "$1->n == 0 || __CPROVER_r_ok($1->b, $1->n * sizeof(int))"],
         assigns=GR + ["*$1"], frees=["$1->b"],
         loops={1: dict(assigns=["i", "__verif_exc", "__CPROVER_object_whole(rh->b)"] + GR,
                        invariant=["i <= sz", "__verif_exc == 0", "g_r_calls == 1 + i", "g_r_total == 8 + 4 * i", "g_r_size[0] == 8 && g_r_val[0] == sz", "rh->n == sz"],
                        decreases="sz - i")},
         ensures={"vector_is_read_as_size_prefix_then_that_many_elements": "IMP(__verif_exc == 0, $1->n == g_r_val[0] && g_r_calls == 1 + $1->n && g_r_total == 8 + 4 * $1->n)"})
    return [U]


META = dict(
    technique='CBMC 6.11 function contracts (dfcc): cursor discipline and byte contents at ghost positions for reader/writers; generic stream operators against recording interface models',
    level="proof",
    level_text="BufferReader::read/end/getView, FixedBufferWriter::write/reserve/available/capacity and WriteSizeCalculator::write are extracted from /repo and proved against contracts written from the statement: an access of `size` bytes is accepted exactly when size <= size()-cursor (stated without cursor+size, so wrap-around of the sum is on the implementation), otherwise it throws std::runtime_error, changes nothing, and no byte outside the buffer is addressed (memcpy's range precondition is an obligation at every call; buffers have symbolic length up to 10^6). The generic stream operators (POD, string, AbstractArray, vector with loop contracts) are proved against interface models of WriteStream::write / ReadStream::read that record every call: each value is emitted / consumed as exactly the byte counts and in the order the matching reader / writer uses, so the write and read sides and WriteSizeCalculator agree on the byte count.",
    level_note="Byte CONTENTS are not tracked (memcpy / stream fidelity assumed), so 'yields equal values' is reduced to: same sequence of (address, size) chunks on both sides, prefix = element count. std::vector / std::string / std::shared_ptr are reference models (lib/stdlib.py); allocation never fails; the two virtual stream operations are interface models with the caller-side range obligation checked.",
    assumptions=["memcpy copies exactly n bytes (assumed contract; its precondition is checked)", "std::vector/std::string/std::shared_ptr models", "buffer lengths <= 10^6 in harnesses (symbolic, not unrolled)"],
    unverified=["byte contents / value equality after a round trip", "BufferWriter::write growth through OwnedArray::resize contents", "vectors of strings (vector of non-trivially-copyable elements is outside the vector model)"],
)
