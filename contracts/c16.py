"""C16: XML reading is total and memory-safe (cursor discipline with loop contracts); leaf fidelity bounded; tree assembly structural."""
from unit import Unit

import os
MAXLEN = int(os.environ.get('VERIF_XML_MAXLEN', str(1 << 47)))   # harness assumption: the text is at most 2^47 bytes (x86-64 user address space)
EXC = "EXC_std_runtime_error"
GUARD = ["--unwind", "16", "--unwinding-assertions"]   # loops under contract are gone after instrumentation; this only bounds residual library loops (assertion-checked)
CADICAL = ["--sat-solver", "cadical"]   # minisat needs >11 min on parseNode at 4096 bytes; cadical 45 s
HELPERS = """
char *g_buf, *g_end;   /* ghost: first byte of the text buffer, and the address of its NUL terminator */
"""
VALID = "__CPROVER_pointer_in_range_dfcc(g_buf, *$0, g_end)"
BUFOK = ["__CPROVER_same_object(g_buf, g_end) && __CPROVER_POINTER_OFFSET(g_buf) == 0 && __CPROVER_r_ok(g_buf, __CPROVER_POINTER_OFFSET(g_end) + 1) && *g_end == 0", "__verif_exc == 0"]
# loop-invariant form of "cursor inside the buffer" (side-effect free)
LV = lambda p: "(__CPROVER_same_object(%s, g_end) && __CPROVER_POINTER_OFFSET(%s) >= 0 && __CPROVER_POINTER_OFFSET(%s) <= __CPROVER_POINTER_OFFSET(g_end))" % (p, p, p)
DIST = lambda p: "(__CPROVER_POINTER_OFFSET(g_end) - __CPROVER_POINTER_OFFSET(%s))" % p


def buffer(cursor_param=True):
    """harness: a NUL-terminated buffer of symbolic length with arbitrary contents and a cursor anywhere inside it"""
    return """
  unsigned long in_len = nondet_unsigned_long(); __CPROVER_assume(in_len <= %d);
  g_buf = (char *)verif_malloc(in_len + 1); g_end = g_buf + in_len; *g_end = 0;
  unsigned long in_pos = nondet_unsigned_long(); __CPROVER_assume(in_pos <= in_len);
  o_@0 = g_buf + in_pos;
""" % MAXLEN


class AssumedView:
    """declares the same contracts on another unit as ASSUMED (they are proved in unit c16_xml)"""
    def __init__(self, U):
        self.U = U

    def fn(self, name, **kw):
        kw["assumed"] = True
        return self.U.fn(name, **kw)


def units():
    U = Unit("c16_xml", "units/c16_xml.cpp", helpers=HELPERS, opts=dict(opaque_std=True))
    declare(U)
    return [U, assembly_unit(), values_unit()]


def declare(U):
    CUR_OK = {"cursor_stays_inside_the_buffer": VALID, "only_runtime_error_escapes": "__verif_exc == 0 || __verif_exc == %s" % EXC}
    U.fn("x_isWhite", ensures={"white_is_space_tab_newline_cr": "RET == ($0 == ' ' || $0 == '\\t' || $0 == '\\n' || $0 == '\\r')"})
    U.fn("x_expect", pre_call=buffer(), requires=BUFOK + [VALID], assigns=[], ensures={
        "expect_throws_iff_the_current_byte_differs": "(__verif_exc == 0) == (**$0 == $1) && IMP(__verif_exc != 0, __verif_exc == %s)" % EXC, "cursor_unchanged": "*$0 == OLD(*$0)"})
    U.fn("x_expect2", pre_call=buffer(), requires=BUFOK + [VALID], assigns=[], ensures={
        "expect_throws_iff_the_current_byte_is_neither": "(__verif_exc == 0) == (**$0 == $1 || **$0 == $2) && IMP(__verif_exc != 0, __verif_exc == %s)" % EXC, "cursor_unchanged": "*$0 == OLD(*$0)"})
    U.fn("x_consume", pre_call=buffer(), requires=BUFOK + [VALID, "$1 != 0"], assigns=["*$0"], ensures=dict(CUR_OK,
         consume_advances_by_one_exactly_when_the_byte_matches="IMP(__verif_exc == 0, *$0 == OLD(*$0) + 1 && OLD(**$0) == $1) && IMP(__verif_exc != 0, *$0 == OLD(*$0) && __verif_exc == %s)" % EXC))
    word = "  char the_word[4]; the_word[0] = nondet_char(); the_word[1] = nondet_char(); the_word[2] = nondet_char(); the_word[3] = 0; p_word = the_word;\n"
    U.fn("x_consume_word", timeout=1200, pre_call=buffer() + word, arrays={"word": 4}, ptr_requires=False,
         requires=BUFOK + ["__CPROVER_r_ok($0, sizeof(*$0))", VALID, "__CPROVER_POINTER_OFFSET($1) == 0 && __CPROVER_OBJECT_SIZE($1) >= 1 && __CPROVER_OBJECT_SIZE($1) <= 16 && __CPROVER_r_ok($1, __CPROVER_OBJECT_SIZE($1)) && $1[__CPROVER_OBJECT_SIZE($1) - 1] == 0"], assigns=["*$0"],
         loops={1: dict(assigns=["word", "*s", "__verif_exc"],
                        invariant=[LV("*s"), "__verif_exc == 0", "__CPROVER_POINTER_OFFSET(*s) >= __CPROVER_POINTER_OFFSET(__CPROVER_loop_entry(*s))",
                                   "__CPROVER_same_object(word, in) && __CPROVER_POINTER_OFFSET(word) >= __CPROVER_POINTER_OFFSET(in) && __CPROVER_POINTER_OFFSET(word) < __CPROVER_OBJECT_SIZE(in)",
                                   "((const char *)in)[__CPROVER_OBJECT_SIZE(in) - 1 - __CPROVER_POINTER_OFFSET(in)] == 0"],
                        decreases="__CPROVER_OBJECT_SIZE(in) - __CPROVER_POINTER_OFFSET(word)")},
         ensures=dict(CUR_OK, word_consumption_never_moves_backwards="__CPROVER_POINTER_OFFSET(*$0) >= __CPROVER_POINTER_OFFSET(OLD(*$0))",
                      only_runtime_error_escapes="__verif_exc == 0 || __verif_exc == %s" % EXC))
    U.fn("x_skipWhites", pre_call=buffer(), requires=BUFOK + [VALID], assigns=["*$0"],
         loops={1: dict(assigns=["*s"], invariant=[LV("*s"), "__CPROVER_POINTER_OFFSET(*s) >= __CPROVER_POINTER_OFFSET(__CPROVER_loop_entry(*s))"], decreases=DIST("*s"))},
         ensures=dict(CUR_OK, never_moves_backwards="__CPROVER_POINTER_OFFSET(*$0) >= __CPROVER_POINTER_OFFSET(OLD(*$0))", stops_on_non_white="!(**$0 == ' ' || **$0 == '\\t' || **$0 == '\\n' || **$0 == '\\r')"))
    U.fn("x_consumeComment", timeout=1200, solver=CADICAL, flags=GUARD, pre_call=buffer(), requires=BUFOK + [VALID], assigns=["*$0"],
         loops={1: dict(assigns=["*s"], invariant=[LV("*s"), "__verif_exc == 0", "__CPROVER_POINTER_OFFSET(*s) >= __CPROVER_POINTER_OFFSET(__CPROVER_loop_entry(*s))"], decreases=DIST("*s"))},
         ensures=dict(CUR_OK, a_comment_consumes_at_least_five_bytes="IMP(__verif_exc == 0, __CPROVER_POINTER_OFFSET(*$0) >= __CPROVER_POINTER_OFFSET(OLD(*$0)) + 5)"))
    U.fn("x_skipComment", timeout=1200, pre_call=buffer(), requires=BUFOK + [VALID], assigns=["*$0"], ensures=dict(CUR_OK,
         comment_skipping_consumes_something="IMP(RET && __verif_exc == 0, __CPROVER_POINTER_OFFSET(*$0) > __CPROVER_POINTER_OFFSET(OLD(*$0)))",
         no_comment_no_move="IMP(!RET && __verif_exc == 0, *$0 == OLD(*$0))"))
    two = """
  unsigned long in_len = nondet_unsigned_long(); __CPROVER_assume(in_len <= %d);
  g_buf = (char *)verif_malloc(in_len + 1); g_end = g_buf + in_len; *g_end = 0;
  unsigned long in_b = nondet_unsigned_long(), in_e = nondet_unsigned_long(); __CPROVER_assume(in_b <= in_len && in_e <= in_len);
  p_begin = g_buf + in_b; p_end = g_buf + in_e;
""" % MAXLEN
    U.fn("x_makeString", timeout=1200, solver=CADICAL, flags=GUARD, pre_call=two, arrays={"begin": 1, "end": 1}, ptr_requires=False, requires=BUFOK + [LV("$0"), LV("$1")], assigns=[], ensures={
        "makeString_reads_only_begin_to_end_and_throws_on_reversed_range": "(__verif_exc != 0) == (__CPROVER_POINTER_OFFSET($0) > __CPROVER_POINTER_OFFSET($1))",
        "only_runtime_error_escapes": "__verif_exc == 0 || __verif_exc == %s" % EXC})
    quoted = buffer() + "  __CPROVER_assume(*o_@0 == '\"' || *o_@0 == '\\'');\n"
    U.fn("x_parseString", timeout=1200, solver=CADICAL, flags=GUARD, pre_call=quoted, requires=BUFOK + [VALID, "**$0 == '\"' || **$0 == '\\''"], assigns=["*$0", "*$1"],
         loops={1: dict(assigns=["*s"], invariant=[LV("*s"), "__verif_exc == 0"], decreases=DIST("*s")),
                2: dict(assigns=["*s"], invariant=[LV("*s"), "__verif_exc == 0"], decreases=DIST("*s"))},
         ensures=dict(CUR_OK, string_parsing_consumes_at_least_the_quotes="IMP(__verif_exc == 0, __CPROVER_POINTER_OFFSET(*$0) >= __CPROVER_POINTER_OFFSET(OLD(*$0)) + 2)"))
    U.fn("x_parseIdentifier", timeout=1200, pre_call=buffer(), requires=BUFOK + [VALID], assigns=["*$0", "*$1"],
         loops={1: dict(assigns=["*s"], invariant=[LV("*s"), "__verif_exc == 0", "__CPROVER_POINTER_OFFSET(*s) > __CPROVER_POINTER_OFFSET(begin)", LV("begin")], decreases=DIST("*s"))},
         ensures=dict(CUR_OK, identifier_consumes_at_least_one_byte_when_found="IMP(RET && __verif_exc == 0, __CPROVER_POINTER_OFFSET(*$0) > __CPROVER_POINTER_OFFSET(OLD(*$0)))",
                      no_identifier_no_move="IMP(!RET, *$0 == OLD(*$0))"))
    U.fn("x_parseProp", timeout=1200, solver=CADICAL, pre_call=buffer(), requires=BUFOK + [VALID], assigns=["*$0", "*$1", "*$2"], ensures=dict(CUR_OK,
         property_consumes_at_least_one_byte_when_found="IMP(RET && __verif_exc == 0, __CPROVER_POINTER_OFFSET(*$0) > __CPROVER_POINTER_OFFSET(OLD(*$0)))",
         no_property_no_move="IMP(!RET && __verif_exc == 0, *$0 == OLD(*$0))"))
    U.fn("x_parseNode", rec=True, timeout=1500, solver=CADICAL, flags=GUARD, pre_call=buffer(), requires=BUFOK + [VALID, "**$0 != 0"], assigns=["*$0"], ghost_entry=["char *g_entry = *$0;"],
         loops={1: dict(assigns=["*s", "name", "value", "node", "__verif_exc"], invariant=[LV("*s"), "__verif_exc == 0", "__CPROVER_POINTER_OFFSET(*s) > __CPROVER_POINTER_OFFSET(g_entry)"], decreases=DIST("*s")),
                2: dict(assigns=["*s", "node", "__verif_exc"], invariant=[LV("*s"), "__verif_exc == 0", "__CPROVER_POINTER_OFFSET(*s) > __CPROVER_POINTER_OFFSET(g_entry)"], decreases=DIST("*s")),
                3: dict(assigns=["*s"], invariant=[LV("*s"), "__CPROVER_POINTER_OFFSET(*s) >= __CPROVER_POINTER_OFFSET(begin)"], decreases=DIST("*s")),
                4: dict(assigns=["end"], invariant=[LV("end"), "__CPROVER_POINTER_OFFSET(end) > __CPROVER_POINTER_OFFSET(g_entry)"], decreases="__CPROVER_POINTER_OFFSET(end)")},
         ensures=dict(CUR_OK, a_node_consumes_at_least_its_opening_bracket="IMP(__verif_exc == 0, __CPROVER_POINTER_OFFSET(*$0) > __CPROVER_POINTER_OFFSET(OLD(*$0)))",
                      only_runtime_error_escapes="__verif_exc == 0 || __verif_exc == %s" % EXC))
    U.fn("x_parseHeader", timeout=1200, solver=CADICAL, flags=GUARD, pre_call=buffer(), requires=BUFOK + [VALID], assigns=["*$0"],
         loops={1: dict(assigns=["*s", "name", "value", "__verif_exc"], invariant=[LV("*s"), "__verif_exc == 0"], decreases=DIST("*s"))},
         ensures=dict(CUR_OK, only_runtime_error_escapes="__verif_exc == 0 || __verif_exc == %s" % EXC))
    docbuf = """
  unsigned long in_len = nondet_unsigned_long(); __CPROVER_assume(in_len <= %d);
  g_buf = (char *)verif_malloc(in_len + 1); g_end = g_buf + in_len; *g_end = 0;
  p_s = g_buf;
""" % MAXLEN
    U.fn("x_parseXML", timeout=1200, solver=CADICAL, flags=GUARD, pre_call=docbuf, arrays={"s": 1}, ptr_requires=False, requires=BUFOK + ["__CPROVER_r_ok($0, sizeof(*$0))", "$1 == g_buf"], assigns=["*$0"],
         loops={1: dict(assigns=["s", "*doc", "__verif_exc"], invariant=[LV("s"), "__verif_exc == 0"], decreases=DIST("s"))},
         ensures={"parseXML_returns_a_document_or_throws_runtime_error": "__verif_exc == 0 || __verif_exc == %s" % EXC})



# ---------------------------------------------------------------- parseNode: assembly of the tree (structural, strings stay opaque)
ASM_STUBS = """
/* Ghost frame of one parseNode activation and logging wrappers.  The wrappers CALL the functions under contract (so the callee's
 * proved contract is what the caller sees) and only add bookkeeping; the std operations parseNode applies to the node under
 * construction (properties[name] = value, child.push_back, the two string comparisons, content = ...) are recording models.
 * What is asserted is the PROTOCOL by which the pieces are put together -- which object is parsed into, what is stored under which
 * key, that nothing parsed is dropped or stored twice, in order; the VALUES stay opaque here (leaf fidelity is unit c16_values). */
typedef struct verif_frame {
  std_basic_string_char *open_name, *last_ident; unsigned long ident_calls;
  _Bool prop_pending, slot_pending; std_basic_string_char *last_name, *last_value; unsigned long found, stored;
  _Bool child_pending; unsigned long parsed, pushed;
  std_basic_string_char *content_target; _Bool content_pending; unsigned long content_sets;
} verif_frame;
std_basic_string_char g_slot;
_Bool verif_log_parseIdentifier(verif_frame *f, char **s, std_basic_string_char *out)
{
  _Bool r = x_parseIdentifier(s, out);
  if (__verif_exc == 0) { if (f->ident_calls == 0) f->open_name = out; f->last_ident = out; f->ident_calls++; }
  return r;
}
_Bool verif_log_parseProp(verif_frame *f, char **s, std_basic_string_char *n, std_basic_string_char *v)
{
  __CPROVER_assert(!f->prop_pending, "ASSEMBLY every parsed property is stored before the next one is parsed");
  _Bool r = x_parseProp(s, n, v);
  if (__verif_exc == 0 && r) { f->prop_pending = 1; f->last_name = n; f->last_value = v; f->found++; }
  return r;
}
std_basic_string_char *verif_asm_map_index(verif_frame *f, void *map, std_basic_string_char *key)
{
  __CPROVER_assert(f->prop_pending && !f->slot_pending && key == f->last_name, "ASSEMBLY properties[...] is indexed with the property name just parsed, once per parsed property");
  __CPROVER_assert(f->ident_calls >= 1 && __CPROVER_same_object(map, f->open_name), "ASSEMBLY the property map and the parsed node name belong to the same node object");
  f->slot_pending = 1;
  return &g_slot;
}
std_basic_string_char *verif_asm_str_assign(verif_frame *f, std_basic_string_char *dst, std_basic_string_char *src)
{
  if (dst == &g_slot) {
    __CPROVER_assert(f->slot_pending && src == f->last_value, "ASSEMBLY the slot of the parsed name receives the parsed value");
    f->slot_pending = 0; f->prop_pending = 0; f->stored++;
  } else {
    __CPROVER_assert(f->content_pending && dst == f->content_target, "ASSEMBLY the only other string assigned is the node content, from the text just cut out, into the string that was tested for emptiness");
    __CPROVER_assert(__CPROVER_same_object(dst, f->open_name), "ASSEMBLY the content and the parsed node name belong to the same node object");
    f->content_pending = 0; f->content_sets++;
  }
  return dst;
}
Node verif_log_parseNode(verif_frame *f, char **s)
{
  __CPROVER_assert(!f->child_pending, "ASSEMBLY every parsed child is appended before the next one is parsed");
  Node r = x_parseNode(s);
  if (__verif_exc == 0) { f->child_pending = 1; f->parsed++; }
  return r;
}
void verif_asm_push_child(verif_frame *f, void *vec, Node *c)
{
  __CPROVER_assert(f->child_pending, "ASSEMBLY push_back appends exactly the child just parsed, once");
  __CPROVER_assert(f->ident_calls >= 1 && __CPROVER_same_object(vec, f->open_name), "ASSEMBLY the child list and the parsed node name belong to the same node object");
  f->child_pending = 0; f->pushed++;
}
_Bool verif_asm_str_ne(verif_frame *f, std_basic_string_char *a, std_basic_string_char *b)
{
  __CPROVER_assert(f->ident_calls == 2 && ((a == f->last_ident && b == f->open_name) || (b == f->last_ident && a == f->open_name)), "ASSEMBLY the name after '</' is compared with the name parsed after '<'");
  return nondet__Bool();
}
_Bool verif_asm_str_ne_cstr(verif_frame *f, std_basic_string_char *a, const char *lit)
{
  __CPROVER_assert(lit[0] == 0, "ASSEMBLY the content is tested against the empty string");
  f->content_target = a;
  return nondet__Bool();
}
std_basic_string_char verif_log_makeString(verif_frame *f, char *begin, char *end, char *cur)
{
  /* (end may lie before begin: the scan stops on the four XML white-space bytes, the trimming uses isspace, which also takes
   *  \\v and \\f; makeString then throws for a content of only those -- totality is not affected) */
  __CPROVER_assert(__CPROVER_same_object(begin, cur) && __CPROVER_same_object(end, cur) && __CPROVER_POINTER_OFFSET(begin) < __CPROVER_POINTER_OFFSET(cur) && __CPROVER_POINTER_OFFSET(end) <= __CPROVER_POINTER_OFFSET(cur),
                   "ASSEMBLY the content is cut out of the text between its first byte and the cursor");
  __CPROVER_assert(*cur == '<' || *cur == 0, "ASSEMBLY the content runs up to the next '<' (or the end of the text)");
  __CPROVER_assert(!verif_isspace(end[-1]), "ASSEMBLY trailing white space is trimmed off the content");
  __CPROVER_assert(begin == f_content_begin, "ASSEMBLY the content starts where the white space after the previous item ended");
  std_basic_string_char r = x_makeString(begin, end);
  if (__verif_exc == 0) f->content_pending = 1;
  return r;
}
"""


def asm_intercepts():
    from cxx2c import X, Ty, parse_type, fn_ret_type, deref, addr
    STR = Ty("rec", name="std::basic_string<char>")
    F = lambda: addr(X("var", "gl", ty=Ty("rec", name="verif_frame")))
    inside = lambda tr: tr.cur is not None and tr.cur.cname == "x_parseNode"

    def internal(wrapper, extra=None):
        def h(tr, fid, e, args, obj):
            if not inside(tr):
                return None
            info = tr.ast.finfo(fid)
            rets, ps = fn_ret_type(info["type"])
            tr.rule("assembly: logged call")
            tr.cur.calls[wrapper] = True
            cargs = [F()]
            for a, p in zip(args, ps):
                cargs.append(tr.bind_ref(a) if parse_type(p).kind == "ref" else tr.rv(a))
            if extra:
                cargs.append(extra())
            call = X("call", wrapper, cargs, ty=tr.lower(parse_type(rets)))
            return X("callx", call, wrapper, tr.jump_text(), None, ty=call.ty)
        return h

    def map_index(tr, fid, e, args, obj):
        if not inside(tr):
            return None
        tr.cur.calls["verif_asm_map_index"] = True
        o = deref(tr.rv(obj[0])) if obj[1] else tr.lv(obj[0])
        return deref(X("call", "verif_asm_map_index", [F(), X("cast", "void *", addr(o)), tr.bind_ref(args[0])], ty=Ty("ptr", to=STR)))

    def str_assign(tr, fid, e, args, obj):
        if not inside(tr):
            return None
        tr.cur.calls["verif_asm_str_assign"] = True
        o = deref(tr.rv(obj[0])) if obj[1] else tr.lv(obj[0])
        return deref(X("call", "verif_asm_str_assign", [F(), addr(o), tr.bind_ref(args[0])], ty=Ty("ptr", to=STR)))

    def push_child(tr, fid, e, args, obj):
        if not inside(tr):
            return None
        tr.cur.calls["verif_asm_push_child"] = True
        o = deref(tr.rv(obj[0])) if obj[1] else tr.lv(obj[0])
        return X("call", "verif_asm_push_child", [F(), X("cast", "void *", addr(o)), tr.bind_ref(args[0])], ty=parse_type("void"))

    def str_ne(tr, fid, e, args, obj):
        if not inside(tr):
            return None
        info = tr.ast.finfo(fid)
        rets, ps = fn_ret_type(info["type"])
        if parse_type(ps[1]).kind == "ref":
            tr.cur.calls["verif_asm_str_ne"] = True
            return X("call", "verif_asm_str_ne", [F(), tr.bind_ref(args[0]), tr.bind_ref(args[1])], ty=parse_type("bool"))
        tr.cur.calls["verif_asm_str_ne_cstr"] = True
        return X("call", "verif_asm_str_ne_cstr", [F(), tr.bind_ref(args[0]), tr.rv(args[1])], ty=parse_type("bool"))

    cursor = lambda: deref(X("var", "s", ty=Ty("ptr", to=Ty("ptr", to=parse_type("char")))))
    return {"rkcommon::xml::parseIdentifier": internal("verif_log_parseIdentifier"), "rkcommon::xml::parseProp": internal("verif_log_parseProp"),
            "rkcommon::xml::parseNode": internal("verif_log_parseNode"), "rkcommon::xml::makeString": internal("verif_log_makeString", extra=cursor),
            "std::map<std::basic_string<char>, std::basic_string<char>>::operator[]": map_index, "std::basic_string<char>::operator=": str_assign,
            "std::vector<rkcommon::xml::Node>::push_back": push_child, "std::operator!=": str_ne}


def assembly_unit():
    A = Unit("c16_assembly", "units/c16_xml.cpp", helpers=HELPERS, stubs=ASM_STUBS.replace("begin == f_content_begin", "1"),
             opts=dict(opaque_std=True, intercept=asm_intercepts(), force_records=["std::basic_string<char>", "rkcommon::xml::Node"],
                       stub_may_throw=["verif_log_parseIdentifier", "verif_log_parseProp", "verif_log_parseNode", "verif_log_makeString"]))
    A.stub_deps = {"verif_log_parseIdentifier": ["x_parseIdentifier"], "verif_log_parseProp": ["x_parseProp"], "verif_log_parseNode": ["x_parseNode"], "verif_log_makeString": ["x_makeString"]}
    A.stub("verif_log_* / verif_asm_*", "logging wrappers around the functions under contract and recording models of the std operations parseNode applies to the node under construction (ghost bookkeeping only; results of the std operations stay nondeterministic)")
    declare(AssumedView(A))
    CUR_OK = {"cursor_stays_inside_the_buffer": VALID, "only_runtime_error_escapes": "__verif_exc == 0 || __verif_exc == %s" % EXC}
    IDLE = "gl.prop_pending == 0 && gl.slot_pending == 0 && gl.stored == gl.found && gl.child_pending == 0 && gl.pushed == gl.parsed && gl.content_pending == 0 && gl.ident_calls == 1"
    A.fn("x_parseNode", variant="assembly", rec=True, timeout=1800, solver=CADICAL, flags=GUARD, pre_call=buffer(), requires=BUFOK + [VALID, "**$0 != 0"], assigns=["*$0"],
         ghost_entry=["char *g_entry = *$0;", "verif_frame gl = {0};"],
         loops={1: dict(assigns=["*s", "name", "value", "node", "__verif_exc", "gl"], invariant=[LV("*s"), "__verif_exc == 0", "__CPROVER_POINTER_OFFSET(*s) > __CPROVER_POINTER_OFFSET(g_entry)", IDLE, "gl.parsed == 0 && gl.content_sets == 0", "gl.open_name == &node.name"], decreases=DIST("*s")),
                2: dict(assigns=["*s", "node", "__verif_exc", "gl"], invariant=[LV("*s"), "__verif_exc == 0", "__CPROVER_POINTER_OFFSET(*s) > __CPROVER_POINTER_OFFSET(g_entry)", IDLE, "gl.open_name == &node.name"], decreases=DIST("*s")),
                3: dict(assigns=["*s"], invariant=[LV("*s"), "__CPROVER_POINTER_OFFSET(*s) >= __CPROVER_POINTER_OFFSET(begin)"], decreases=DIST("*s")),
                4: dict(assigns=["end"], invariant=[LV("end"), "__CPROVER_POINTER_OFFSET(end) > __CPROVER_POINTER_OFFSET(g_entry)", "__CPROVER_POINTER_OFFSET(end) <= __CPROVER_POINTER_OFFSET(*s)"], decreases="__CPROVER_POINTER_OFFSET(end)")},
         ensures=dict(CUR_OK, a_node_consumes_at_least_its_opening_bracket="IMP(__verif_exc == 0, __CPROVER_POINTER_OFFSET(*$0) > __CPROVER_POINTER_OFFSET(OLD(*$0)))"))
    return A


def values_unit():
    """Leaf-level FIDELITY of the reader, BOUNDED exact: the strings produced by makeString / parseString / parseIdentifier / parseProp are
    exactly the bytes of the text they were scanned from (text of at most 8 bytes; bounded std::string code model)."""
    TB = 8
    helpers = """
char the_text[%(n)d];     /* the NUL-terminated text (harness) */
static _Bool is_slice(std_basic_string_char *s, const char *from, unsigned long n) { unsigned long i; if (s->n != n) return 0; for (i = 0; i < n && i < %(n)d; i++) if (s->b[i] != from[i]) return 0; return 1; }
static int sp_white(char c) { return c == ' ' || c == '\\t' || c == '\\n' || c == '\\r'; }
static int sp_alpha(char c) { return (c >= 'a' && c <= 'z') || (c >= 'A' && c <= 'Z'); }
static int sp_digit(char c) { return c >= '0' && c <= '9'; }
/* end of a quoted string that starts (after the quote) at position p: the first unescaped closing quote, or the terminator */
static unsigned long sp_string_end(unsigned long p, char q) { unsigned long k; for (k = 0; k < %(n)d; k++) { if (p >= %(n)d - 1 || the_text[p] == q || the_text[p] == 0) return p; if (the_text[p] == '\\\\' && the_text[p + 1] != 0) p++; p++; } return p; }
/* end of an identifier that starts at p (first character already known to be a letter or '_') */
static unsigned long sp_ident_end(unsigned long p) { unsigned long k; p++; for (k = 0; k < %(n)d; k++) { if (p >= %(n)d - 1) return p; char c = the_text[p]; if (!(sp_alpha(c) || sp_digit(c) || c == '_' || c == '.')) return p; p++; } return p; }
static unsigned long sp_skip_white(unsigned long p) { unsigned long k; for (k = 0; k < %(n)d; k++) { if (p >= %(n)d - 1 || !sp_white(the_text[p])) return p; p++; } return p; }
""" % dict(n=TB + 1)
    V = Unit("c16_values", "units/c16_values.cpp", helpers=helpers, opts=dict(tracked_vec=True, tracked_str=True, bounded_str=TB + 1, memcpy_code=True))
    text = ("  unsigned long in_len = nondet_ulong(); __CPROVER_assume(in_len <= %d);\n" % TB
            + "".join("  char in_t%d = nondet_char(); __CPROVER_assume(in_t%d != 0); the_text[%d] = in_t%d;\n" % (k, k, k, k) for k in range(TB))
            + "  the_text[%d] = 0;\n" % TB + "".join("  if (in_len == %d) the_text[%d] = 0;\n" % (k, k) for k in range(TB)))
    TEXTOK = ["the_text[%d] == 0" % TB]
    OFF = lambda p: "((unsigned long)((%s) - the_text))" % p
    acc = dict(unwind=TB + 4, timeout=900, solver=CADICAL)
    two = text + "  unsigned long in_b = nondet_ulong(), in_e = nondet_ulong(); __CPROVER_assume(in_b <= in_e && in_e <= in_len); p_begin = the_text + in_b; p_end = the_text + in_e;\n"
    V.fn("x_makeString", pre_call=two, arrays={"begin": 1, "end": 1}, ptr_requires=False, requires=TEXTOK + ["__CPROVER_same_object($0, the_text) && __CPROVER_same_object($1, the_text) && %s <= %s && %s <= %d" % (OFF("$0"), OFF("$1"), OFF("$1"), TB),
                                                                                                      "__verif_exc == 0"] + ["IMP(%d >= %s && %d < %s, the_text[%d] != 0)" % (k, OFF("$0"), k, OFF("$1"), k) for k in range(TB)],
         assigns=["__verif_exc"], ensures={"makeString_is_exactly_the_bytes_from_begin_to_end": "__verif_exc == 0 && is_slice(&RET, $0, %s - %s)" % (OFF("$1"), OFF("$0"))}, **acc)
    cur = text + "  unsigned long in_pos = nondet_ulong(); __CPROVER_assume(in_pos <= in_len); o_@0 = the_text + in_pos;\n"
    CUROK = ["__CPROVER_same_object(*$0, the_text) && %s <= %d" % (OFF("*$0"), TB), "__verif_exc == 0"]
    P0 = OFF("__CPROVER_old(*$0)")
    strpre = cur + "  __CPROVER_assume(*o_@0 == '\"' || *o_@0 == '\\'');\n  o_@1.n = nondet_ulong(); __CPROVER_assume(o_@1.n <= %d);\n" % TB
    SE = "sp_string_end(%s + 1, the_text[%s])" % (P0, P0)
    V.fn("x_parseString", pre_call=strpre, requires=TEXTOK + CUROK + ["**$0 == '\"' || **$0 == '\\''", "$1->n <= %d" % TB], assigns=["*$0", "*$1", "__verif_exc"], inline=["x_makeString", "x_consume", "x_expect"], noalias=True, ensures={
        "an_unterminated_string_throws": "(__verif_exc != 0) == (the_text[%s] == 0)" % SE,
        "the_value_is_exactly_the_bytes_between_the_quotes": "IMP(__verif_exc == 0, is_slice($1, the_text + %s + 1, %s - %s - 1))" % (P0, SE, P0),
        "the_cursor_ends_after_the_closing_quote": "IMP(__verif_exc == 0, %s == %s + 1)" % (OFF("*$0"), SE)}, **acc)
    idpre = cur + "  o_@1.n = nondet_ulong(); __CPROVER_assume(o_@1.n <= %d);\n" % TB
    ISID = "(sp_alpha(the_text[%s]) || the_text[%s] == '_')" % (P0, P0)
    V.fn("x_parseIdentifier", pre_call=idpre, requires=TEXTOK + CUROK + ["$1->n <= %d" % TB], assigns=["*$0", "*$1", "__verif_exc"], inline=["x_makeString"], noalias=True, ensures={
        "an_identifier_is_recognised_exactly_at_a_letter_or_underscore": "__verif_exc == 0 && RET == %s" % ISID,
        "the_identifier_is_exactly_the_scanned_bytes_and_the_cursor_follows_it": "IMP(RET, is_slice($1, the_text + %s, sp_ident_end(%s) - %s) && %s == sp_ident_end(%s))" % (P0, P0, P0, OFF("*$0"), P0),
        "no_identifier_leaves_the_cursor_alone": "IMP(!RET, *$0 == __CPROVER_old(*$0))"}, **acc)
    proppre = cur + "  o_@1.n = nondet_ulong(); __CPROVER_assume(o_@1.n <= %d); o_@2.n = nondet_ulong(); __CPROVER_assume(o_@2.n <= %d);\n" % (TB, TB)
    IE = "sp_ident_end(%s)" % P0
    EQP = "sp_skip_white(%s)" % IE
    QP = "sp_skip_white(%s + 1)" % EQP
    VE = "sp_string_end(%s + 1, the_text[%s])" % (QP, QP)
    WELL = "(%s && the_text[%s] == '=' && (the_text[%s] == '\"' || the_text[%s] == '\\'') && the_text[%s] != 0)" % (ISID, EQP, QP, QP, VE)
    V.fn("x_parseProp", pre_call=proppre, requires=TEXTOK + CUROK + ["$1->n <= %d && $2->n <= %d" % (TB, TB)], assigns=["*$0", "*$1", "*$2", "__verif_exc"],
         inline=["x_makeString", "x_consume", "x_expect", "x_expect2", "x_skipWhites", "x_isWhite", "x_parseIdentifier", "x_parseString"], noalias=True, ensures={
        "a_well_formed_property_yields_exactly_its_name_and_value": "IMP(%s, __verif_exc == 0 && RET && is_slice($1, the_text + %s, %s - %s) && is_slice($2, the_text + %s + 1, %s - %s - 1) && %s == %s + 1)" % (WELL, P0, IE, P0, QP, VE, QP, OFF("*$0"), VE),
        "no_identifier_means_no_property": "IMP(!%s, __verif_exc == 0 && !RET && *$0 == __CPROVER_old(*$0))" % ISID,
        "a_malformed_property_throws": "IMP(%s && !%s, __verif_exc != 0)" % (ISID, WELL)}, **acc)
    return V


META = dict(
    technique='CBMC 6.11 function + loop contracts (dfcc, --enforce-contract-rec for parseNode) on every scanner/parser function, text up to 2^47 bytes; bounded unwinding against exact specifications for the leaf strings',
    level="proof",
    level_text="Every scanner/parser function of XML.cpp (isWhite, expect x2, consume x2, consumeComment, makeString, parseString, parseIdentifier, skipWhites, parseProp, skipComment, the recursive parseNode, parseHeader, parseXML) is extracted from /repo and proved, for NUL-terminated buffers of ANY length up to 2^47 bytes (the x86-64 user address space; the only bound, a harness assumption) with arbitrary contents and any cursor position, to keep the cursor inside [buffer, terminator], to dereference only bytes of the buffer (CBMC pointer checks on every *s, s[1], s[2], end[-1]), to terminate in every loop (loop contracts with decreases clauses; parseNode with its own contract assumed at the recursive call) and to leave either normally or with std::runtime_error in flight.",
    level_note="LEAF-LEVEL fidelity is checked by BOUNDED exact contracts (unit c16_values: texts of at most 8 bytes, bounded std::string code model, memcpy as a byte loop): makeString is exactly the bytes [begin,end), parseString yields exactly the bytes between the quotes (escapes skipped as the scanner defines) and throws exactly for an unterminated string, parseIdentifier yields exactly the scanned identifier, parseProp yields exactly name and value of a well-formed name=\"value\" and throws for a malformed one. Above the leaves std::string / std::map / std::vector<Node> / string streams are OPAQUE (values not modelled): how parseNode ASSEMBLES the tree (property map, child order, trimmed content) is NOT verified. isalpha/isdigit/isspace as in the C locale. readXML's file handling (fopen/ftell/fread) is assumed to hand parseXML a buffer of numBytes+1 bytes whose last byte is 0. Recursion depth (stack) is not bounded by the proof. TREE ASSEMBLY in parseNode is checked STRUCTURALLY (unit c16_assembly, x_parseNode#assembly, unbounded text, loop contracts): calls to parseIdentifier / parseProp / parseNode / makeString go through logging wrappers that call the functions under contract and keep a ghost frame; the std operations on the node under construction are recording models. Proved: the first identifier is parsed into the node's own name; every parsed property is stored, once, under the name just parsed with the value just parsed, before the next one is parsed; every parsed child is appended, once, before the next one is parsed (hence in order); the name after '</' is compared with the name parsed after '<'; the content is cut out of the text before the cursor, which stands on '<' or the end, with trailing isspace bytes trimmed, and assigned to the string that was tested for emptiness; name, property map, child list and content belong to the same node object. parseNode requires text left (**s != 0), a fact of every call site. When goto-instrument refuses a new uncontracted loop nested in a contracted one, the function is re-run without loop contracts with every loop unwound 3 times (bounded fallback: failures inside the bound are reported, anything else is inconclusive).",
    assumptions=["text buffer at most 2^47 bytes", "opaque std containers/strings (only obligation kept: [first,last) handed to string assign/append is a valid range)", "C-locale <cctype>", "readXML passes a NUL-terminated buffer (fread <= numBytes, ftell >= 0)", "allocation never fails"],
    bounded=["leaf fidelity (unit c16_values: makeString, parseString, parseIdentifier, parseProp): texts of at most 8 bytes, unwind 12"],
    unverified=["the VALUES that flow through the assembly of a node (strings are opaque in unit c16_assembly; their fidelity is the bounded leaf unit)", "std::map semantics of properties[name] (a repeated name overwrites)", "that the returned Node is a faithful copy of the assembled one (copy constructor of Node is opaque)", "where the content starts (only: inside the text, before the cursor)", "parseXML's own child list", "recursion depth / stack", "Writer", "fopen/ftell/fread behaviour"],
)
