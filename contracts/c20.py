"""C20: image writers read only the pixels they were given and emit the selected channels (image half; bounded dimensions)."""
import os
from unit import Unit
from cxx2c import X, parse_type, Ty

STUBS = """
/* ASSUMED models of the C stdio calls used by writeImage: fopen returns null or a handle, fprintf records the header
 * arguments, fwrite requires the range it is handed to be readable and records rows / one ghost component, fclose counts. */
extern const void *__CPROVER_alloca_object;   /* CBMC's alloca bookkeeping global: written by __builtin_alloca, so it is in the frame */
verif_FILE the_file;
int g_hdr_calls, g_hdr_x, g_hdr_y, g_closed, g_rows; const char *g_hdr_fmt;
unsigned long g_row_bytes_ok;            /* number of fwrite calls whose size*count was the expected row size */
long g_row, g_j;                         /* ghost: row ordinal and component index inside the row that is observed */
unsigned char g_val_u8; float g_val_f32; /* ghost: the observed component as written */
unsigned long g_expect_row_elems, g_comp_size;
verif_FILE *verif_fopen(const char *name, const char *mode) { return nondet__Bool() ? (verif_FILE *)0 : &the_file; }
int verif_fprintf2(verif_FILE *f, const char *fmt, int a, int b) { __CPROVER_assert(f == &the_file, "FILE handle passed to fprintf is the opened file"); if (g_hdr_calls == 0) { g_hdr_x = a; g_hdr_y = b; g_hdr_fmt = fmt; } g_hdr_calls++; return 0; }
int verif_fprintf0(verif_FILE *f, const char *fmt) { __CPROVER_assert(f == &the_file, "FILE handle passed to fprintf is the opened file"); return 0; }
unsigned long verif_fwrite(const void *p, unsigned long size, unsigned long n, verif_FILE *f)
{
  __CPROVER_assert(f == &the_file, "FILE handle passed to fwrite is the opened file");
  __CPROVER_assert(size * n == 0 || __CPROVER_r_ok(p, size * n), "fwrite is handed a readable range of size*count bytes");
  if (size * n == g_expect_row_elems * g_comp_size) g_row_bytes_ok++;
  if (g_rows == g_row && g_j >= 0 && (unsigned long)g_j < g_expect_row_elems) { if (g_comp_size == 1) g_val_u8 = ((const unsigned char *)p)[g_j]; else g_val_f32 = ((const float *)p)[g_j]; }
  g_rows++;
  return n;
}
int verif_fclose(verif_FILE *f) { __CPROVER_assert(f == &the_file, "FILE handle passed to fclose is the opened file"); g_closed++; return 0; }
"""
GA = ["g_hdr_calls", "g_hdr_x", "g_hdr_y", "g_hdr_fmt", "g_closed", "g_rows", "g_row_bytes_ok", "g_val_u8", "g_val_f32", "__verif_exc", "__CPROVER_alloca_object"]


C20_REPLAY = """
#include <unistd.h>
typedef %(PT)s PIX; typedef %(CT)s COMP;
static bool probe(int sx, int sy)
{
  std::vector<PIX> img((size_t)sx * sy + 1);
  COMP *raw = (COMP *)img.data();
  for (size_t k = 0; k < (size_t)sx * sy * %(PC)d; k++) raw[k] = (COMP)(1 + k %% 251);      /* every component of every pixel distinct from its neighbours */
  char name[] = "/tmp/verif_c20_XXXXXX"; int fd = mkstemp(name); if (fd < 0) { printf("cannot create temp file\\n"); exit(2); } close(fd);
  %(CALL)s(std::string(name), sx, sy, img.data());
  FILE *f = fopen(name, "rb"); std::vector<unsigned char> bytes; int ch; while ((ch = fgetc(f)) != EOF) bytes.push_back((unsigned char)ch); fclose(f); unlink(name);
  size_t pos = 0; int nl = 0; while (pos < bytes.size() && nl < 3) if (bytes[pos++] == 10) nl++;
  std::string hdr(bytes.begin(), bytes.begin() + pos);
  char want_hdr[64]; snprintf(want_hdr, sizeof want_hdr, "%(HDR)s", sx, sy);
  bool ok = hdr == want_hdr;
  if (!ok) printf("%%dx%%d: header differs: got [%%s]\\n", sx, sy, hdr.c_str());
  size_t want = (size_t)sx * sy * %(NC)d * sizeof(COMP);
  if (bytes.size() - pos < want) { printf("%%dx%%d: payload is %%lu bytes, expected at least %%lu\\n", sx, sy, (unsigned long)(bytes.size() - pos), (unsigned long)want); return false; }
  const unsigned char *out = bytes.data() + pos;
  for (int r = 0; ok && r < sy; r++) for (long j = 0; j < (long)%(NC)d * sx; j++) {
    long srow = %(FLIP)d ? sy - 1 - r : r, x = j / %(NC)d, c = j %% %(NC)d, sel = %(SEL)s;
    COMP got; memcpy(&got, out + ((size_t)r * %(NC)d * sx + j) * sizeof(COMP), sizeof got);
    COMP exp = raw[(srow * sx + x) * %(PC)d + sel];
    if (memcmp(&got, &exp, sizeof got) != 0) { printf("%%dx%%d: file row %%d component %%ld: written %%g, the selected channel of pixel (x=%%ld, y=%%ld) is %%g\\n", sx, sy, r, j, (double)got, x, srow, (double)exp); ok = false; break; }
  }
  return ok;
}
int main()
{
  /* the counterexample's dimensions when the trace has them, then a fixed set of small images: any departure of the real
   * writer from 'decoded pixels equal the input' on any of them is a reproduction on real code */
  int dims[][2] = {{IN_in_sizeX, IN_in_sizeY}, {1, 1}, {2, 1}, {1, 2}, {2, 2}, {3, 2}, {4, 3}, {5, 7}};
  bool ok = true;
  for (unsigned k = 0; k < sizeof dims / sizeof dims[0]; k++) {
    int sx = dims[k][0], sy = dims[k][1];
    if (sx < 0 || sy < 0 || sx > 4096 || sy > 4096) continue;
    if (!probe(sx, sy)) ok = false;
  }
  printf("%(CALL)s\\n");
  printf("REPLAY RESULT: %%s\\n", ok ? "not reproduced" : "violation reproduced on real code");
  return ok ? 0 : 1;
}
"""


def io_models():
    def call(name, nargs=None):
        def h(tr, fid, info, e, args, obj):
            tr.rule("stdio -> interface model")
            fn = name
            if name == "verif_fprintf":
                fn = "verif_fprintf2" if len(args) == 4 else "verif_fprintf0"
            tr.cur.calls[fn] = True
            return X("call", fn, [tr.rv(a) for a in args], ty=parse_type("int") if "fwrite" not in fn else parse_type("unsigned long"))
        return h

    def alloca(tr, fid, info, e, args, obj):
        tr.rule("alloca -> __builtin_alloca")
        return X("call", "__builtin_alloca", [tr.rv(args[0])], ty=parse_type("void *"))

    def fopen(tr, fid, info, e, args, obj):
        tr.rule("stdio -> interface model")
        tr.cur.calls["verif_fopen"] = True
        return X("call", "verif_fopen", [tr.rv(a) for a in args], ty=Ty("ptr", to=Ty("rec", name="_IO_FILE")))
    return {"fopen": fopen, "fprintf": call("verif_fprintf"), "fwrite": call("verif_fwrite"), "fclose": call("verif_fclose"), "alloca": alloca, "__builtin_alloca": alloca}


def units():
    DIM = int(os.environ.get("VERIF_IMG_MAXDIM", "64" if os.environ.get("VERIF_TIER_EFFECTIVE") == "thorough" else "32"))
    U = Unit("c20_image", "units/c20_image.cpp", stubs=STUBS,
             opts=dict(opaque_std=True, models=io_models(), force_records=["_IO_FILE"], ext_records={"_IO_FILE": [("g_opaque", "char")]}, rec_alias={"_IO_FILE": "verif_FILE"}))
    U.stub("fopen/fprintf/fwrite/fclose", "ASSUMED interface models of <stdio.h>: fwrite's precondition (range readable) is checked at each call; file contents are the recorded calls")
    # (alias, N_COMP, PIXEL_COMP, FLIP, component C type, pixel elem type text, selected-channel rule)
    inst = [("wi_ppm", 3, 4, True, "unsigned char", "unsigned int"), ("wi_pgm", 1, 4, True, "unsigned char", "unsigned int"),
            ("wi_pfm1", 1, 1, False, "float", "float"), ("wi_pfm3", 3, 3, False, "float", "vec3f"), ("wi_pfm3a", 3, 4, False, "float", "vec3fa"), ("wi_pfm4", 4, 4, False, "float", "vec4f")]
    for (nm, NC, PC, FLIP, CT, PT) in inst:
        csz = 1 if CT == "unsigned char" else 4
        state = """
  __CPROVER_assume(in_sizeX >= 0 && in_sizeX <= %(dim)d && in_sizeY >= 0 && in_sizeY <= %(dim)d);
  p_@PIX = (%(PT)s *)verif_malloc((unsigned long)in_sizeX * in_sizeY * sizeof(%(PT)s));
  g_hdr_calls = 0; g_closed = 0; g_rows = 0; g_row_bytes_ok = 0; g_row = nondet_long(); g_j = nondet_long();
  g_expect_row_elems = (unsigned long)%(NC)d * in_sizeX; g_comp_size = %(csz)d;
  __CPROVER_assume(g_row >= 0 && g_row < in_sizeY && g_j >= 0 && g_j < %(NC)d * (long)in_sizeX);
""" % dict(dim=DIM, PT=PT, NC=NC, csz=csz)
        srcrow = "(%s)" % ("(long)$3 - 1 - g_row" if FLIP else "g_row")
        gx, gc = "(g_j / %d)" % NC, "(g_j %% %d)" % NC
        sel = "3" if (NC == 1 and PC == 4) else ("0" if NC == 1 else gc)
        src = "((const %s *)$4)[(%s * (long)$2 + %s) * %d + %s]" % (CT, srcrow, gx, PC, sel)
        val = "g_val_u8" if csz == 1 else "g_val_f32"
        eq = ("%s == %s" % (val, src)) if csz == 1 else ("FEQ(%s, %s)" % (val, src))
        HDR = {"wi_ppm": "P6\n%i %i\n255\n", "wi_pgm": "P5\n%i %i\n255\n", "wi_pfm1": "Pf\n%i %i\n-1.0\n", "wi_pfm3": "PF\n%i %i\n-1.0\n", "wi_pfm3a": "PF\n%i %i\n-1.0\n", "wi_pfm4": "PF4\n%i %i\n-1.0\n"}[nm]
        CALL = {"wi_ppm": "writePPM", "wi_pgm": "writePGM", "wi_pfm1": "writePFM<float>", "wi_pfm3": "writePFM<vec3f>", "wi_pfm3a": "writePFM<vec3fa>", "wi_pfm4": "writePFM<vec4f>"}[nm]
        rp = C20_REPLAY % dict(PT=("uint32_t" if PT == "unsigned int" else PT), CT=CT, PC=PC, NC=NC, FLIP=int(FLIP), SEL=("3" if (NC == 1 and PC == 4) else ("0" if NC == 1 else "c")), CALL=CALL, HDR=HDR.replace("\n", "\\n"))
        U.fn(nm, pre_call=state.replace("@PIX", "@4"), replay_native=rp, arrays={"pixel": 1, "header": 1}, ptr_requires=False, nullable=["header"], timeout=1500, solver=["--sat-solver", "cadical"], flags=["--unwind", "16", "--unwinding-assertions"],
             requires=["$2 >= 0 && $2 <= %d && $3 >= 0 && $3 <= %d" % (DIM, DIM), "(long)$2 * $3 == 0 || __CPROVER_r_ok($4, (unsigned long)$2 * $3 * sizeof(*$4))", "__verif_exc == 0",
                       "g_hdr_calls == 0 && g_closed == 0 && g_rows == 0 && g_row_bytes_ok == 0", "g_expect_row_elems == (unsigned long)%d * $2 && g_comp_size == %d" % (NC, csz),
                       "g_row >= 0 && g_row < $3 && g_j >= 0 && g_j < %d * (long)$2" % NC],
             assigns=GA,
             loops={1: dict(assigns=["y", "__CPROVER_object_whole(out)", "g_rows", "g_row_bytes_ok", "g_val_u8", "g_val_f32"],
                            invariant=["y >= 0 && y <= sizeY", "g_rows == y", "g_row_bytes_ok == (unsigned long)y", "IMP(y > g_row, %s)" % eq.replace("$4", "pixel").replace("$3", "sizeY").replace("$2", "sizeX")],
                            decreases="sizeY - y"),
                    2: dict(assigns=["x", "__CPROVER_object_whole(out)"],
                            invariant=["x >= 0 && x <= sizeX", "IMP(g_j / %d < x, %s)" % (NC, ("out[g_j] == in[%d * (g_j / %d) + %s]" % (PC, NC, sel)) if csz == 1 else ("FEQ(out[g_j], in[%d * (g_j / %d) + %s])" % (PC, NC, sel)))],
                            decreases="sizeX - x"),
                    3: dict(assigns=["c", "__CPROVER_object_whole(out)"],
                            invariant=["c >= 0 && c <= %d" % NC, "IMP(g_j / %d < x || (g_j / %d == x && g_j %% %d < c), %s)" % (NC, NC, NC, ("out[g_j] == in[%d * (g_j / %d) + %s]" % (PC, NC, sel)) if csz == 1 else ("FEQ(out[g_j], in[%d * (g_j / %d) + %s])" % (PC, NC, sel)))],
                            decreases="%d - c" % NC)},
             ensures={
                 "open_failure_throws_runtime_error_and_writes_nothing": "IMP(__verif_exc != 0, g_rows == 0 && g_hdr_calls == 0)",
                 "header_receives_width_and_height": "IMP(__verif_exc == 0, g_hdr_calls == 1 && g_hdr_x == $2 && g_hdr_y == $3)",
                 "header_is_written_with_the_format_passed_in": "(__verif_exc != 0 || __CPROVER_pointer_equals(g_hdr_fmt, $1))",
                 "exactly_height_rows_of_N_COMP_times_width_components": "IMP(__verif_exc == 0, g_rows == $3 && g_row_bytes_ok == (unsigned long)$3)",
                 "each_written_component_is_the_selected_channel_of_the_right_pixel": "IMP(__verif_exc == 0, %s)" % eq,
                 "file_is_closed_exactly_once": "IMP(__verif_exc == 0, g_closed == 1)"})
        # the public writer (writePPM / writePGM / writePFM<T>) on top of the writeImage contract: same postconditions, plus the header text
        hdr_eq = " && ".join("g_hdr_fmt[%d] == %d" % (i, ord(ch)) for i, ch in enumerate(HDR + "\0"))
        sh = lambda t: t.replace("$4", "$P").replace("$3", "$Y").replace("$2", "$X").replace("$P", "$3").replace("$Y", "$2").replace("$X", "$1")
        for (variant, VD) in ((None, DIM), ("small_images", 2)):
          # the small_images variant repeats the check for images of at most 2x2 pixels: redundant while the writer calls a writeImage
          # instantiation that is under contract, but complete by unwinding (2 rows x 2 pixels x <= 4 components, unwind 5) when it does not
          U.fn("w_" + nm[3:], variant=variant, replay_native=rp, pre_call=state.replace("@PIX", "@3").replace("<= %d" % DIM, "<= %d" % VD), arrays={"pixel": 1, "p": 1}, ptr_requires=False, timeout=600, solver=["--sat-solver", "cadical"], flags=["--unwind", "16" if variant is None else "5", "--unwinding-assertions"],
             requires=[sh(r) for r in ["$2 >= 0 && $2 <= %d && $3 >= 0 && $3 <= %d" % (VD, VD), "(long)$2 * $3 == 0 || __CPROVER_r_ok($4, (unsigned long)$2 * $3 * sizeof(*$4))", "__verif_exc == 0",
                       "g_hdr_calls == 0 && g_closed == 0 && g_rows == 0 && g_row_bytes_ok == 0", "g_expect_row_elems == (unsigned long)%d * $2 && g_comp_size == %d" % (NC, csz),
                       "g_row >= 0 && g_row < $3 && g_j >= 0 && g_j < %d * (long)$2" % NC]],
             assigns=GA,
             ensures={
                 "open_failure_throws_runtime_error_and_writes_nothing": "IMP(__verif_exc != 0, g_rows == 0 && g_hdr_calls == 0)",
                 "header_receives_width_and_height": sh("IMP(__verif_exc == 0, g_hdr_calls == 1 && g_hdr_x == $2 && g_hdr_y == $3)"),
                 "header_text_is_the_format_magic_with_width_height_and_range": "IMP(__verif_exc == 0, %s)" % hdr_eq,
                 "exactly_height_rows_of_N_COMP_times_width_components": sh("IMP(__verif_exc == 0, g_rows == $3 && g_row_bytes_ok == (unsigned long)$3)"),
                 "each_written_component_is_the_selected_channel_of_the_right_pixel": sh("IMP(__verif_exc == 0, %s)" % eq),
                 "file_is_closed_exactly_once": "IMP(__verif_exc == 0, g_closed == 1)"})
    # (contracts/tracegen.py holds an unfinished unit for TraceRecorder::saveLog -- extraction and contracts are written, but CBMC runs out of
    #  memory (12 GB) on its loop-invariant obligations; it is NOT part of the check. Set VERIF_TRACE_UNIT=1 to run it.)
    if os.environ.get("VERIF_TRACE_UNIT"):
        import tracegen
        return [U, tracegen.trace_unit()]
    return [U]


META = dict(
    technique='CBMC 6.11 function + loop contracts (dfcc) on the six writeImage instantiations and the six public writers (writePPM/writePGM/writePFM<T>) against recording stdio interface models; image dimensions bounded by a harness assumption',
    level="other",
    level_text="writeImage in its six instantiations (PPM, PGM, PFM<float|vec3f|vec3fa|vec4f>) is extracted from /repo and proved by CBMC with loop contracts on its three nested loops against stdio interface models: every read of `pixel` lies inside the sizeX*sizeY elements it was given (pointer checks), every fwrite is handed a readable row of exactly N_COMP*sizeX components, exactly sizeY rows are written, the header receives (sizeX, sizeY), and -- for an arbitrary ghost row and component -- the value written is the selected channel of pixel (x, FLIP ? sizeY-1-y : y). The loops are closed by invariants (any iteration count) but the image dimensions are bounded in the harness. The public writers writePPM / writePGM / writePFM<float|vec3f|vec3fa|vec4f> are proved on top of those contracts (calls replaced by the contract): same postconditions, and the header is written with exactly the format text of the file type (P6/P5/Pf/PF/PF4 magic, \"%i %i\", range line) -- so the pixel stride and channel count each public writer selects are part of what is proved. A second variant of each public writer (#small_images, images up to 2x2, complete by unwinding) decides the same postconditions when a writer calls a writeImage instantiation that has no contract.",
    level_note="BOUNDED in the image dimensions (sizeX, sizeY <= 32 quick / 64 thorough): the row*sizeX index products against the sizeX*sizeY allocation make the SAT problem grow with the range of the dimensions; not counted as an unbounded proof. saveLog / event tracing (the second half of the statement) is NOT verified: stream formatting over std::list/vector/unordered_map and chrono is outside the extractor's subset. stdio is an assumed interface model.",
    explanation="CBMC function contracts + loop contracts (unbounded in iteration count) with image dimensions bounded by a harness assumption; stdio modelled by recording stubs. Bounded, not a proof; the tracing half of the property is not checked at all.",
    assumptions=["stdio interface models", "allocation never fails", "image dimensions bounded (stated bound)"],
    bounded=["image dimensions sizeX, sizeY <= 32 (quick) / 64 (thorough)"],
    unverified=["saveLog / tracing JSON", "file system behaviour", "printf rendering of the header (the format text and its two integer arguments are checked, not the bytes fprintf produces)", "the trailing newline after the pixel rows"],
)
