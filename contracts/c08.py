"""C08: reference counting destroys each object exactly once, at the last release."""
from unit import Unit

RC = "__base_RefCountedObject"
CNT = lambda o: "%s.%s.refCounter.v" % (o, RC)
DEAD = lambda o: "(%s.%s.g_dead != 0)" % (o, RC)
BIG = 1000000


def world(handles, raws=(), handle2=None):
    """harness prefix: two live objects o1,o2 with arbitrary counts, handles pointing at null/o1/o2 (possibly the same
    handle object twice), every object's count >= number of distinct harness handles pointing at it (count = e + handles, e >= 0)"""
    L = ["  Obj o1, o2;"]
    for o in ("o1", "o2"):
        L.append("  long long in_cnt_%s = nondet_long_long(); %s = in_cnt_%s; %s.%s.g_dead = 0; %s.payload = 0;" % (o, CNT(o), o, o, RC, o))
        L.append("  __CPROVER_assume(in_cnt_%s >= 0 && in_cnt_%s <= %d);" % (o, o, BIG))
    names = []
    for i, h in enumerate(handles):
        L.append("  Handle hobj_%s; int in_sel_%s = nondet_int(); hobj_%s.ptr = in_sel_%s == 1 ? &o1 : (in_sel_%s == 2 ? &o2 : (Obj *)0);" % (h, h, h, h, h))
        L.append("  Handle *p_%s = &hobj_%s;" % (h, h))
        if i > 0:
            L.append("  _Bool in_alias_%s = nondet__Bool(); if (in_alias_%s) p_%s = p_%s;" % (h, h, h, handles[0]))
        names.append("p_" + h)
    for r in raws:
        L.append("  int in_sel_%s = nondet_int(); Obj *p_%s = in_sel_%s == 1 ? &o1 : (in_sel_%s == 2 ? &o2 : (Obj *)0);" % (r, r, r, r))
    # invariant: count(o) >= distinct handles at o
    for o in ("o1", "o2"):
        terms = []
        for i, h in enumerate(handles):
            t = "(p_%s->ptr == &%s)" % (h, o)
            if i > 0:
                t = "(p_%s != p_%s && p_%s->ptr == &%s)" % (h, handles[0], h, o)
            terms.append(t)
        if terms:
            L.append("  __CPROVER_assume(%s >= %s);" % (CNT(o), " + ".join(terms)))
    return "\n".join(L) + "\n"


def H(h, o, first):
    """1 if handle parameter h (distinct from `first` unless it is first) points at object o"""
    if h == first:
        return "(%s->ptr == &%s)" % (h, o)
    return "(%s != %s && %s->ptr == &%s)" % (h, first, h, o)


def units():
    U = Unit("c08_refcount", "units/c08_refcount.cpp",
             opts=dict(ghost_fields={"RefCountedObject": ["_Bool g_dead;"]}, delete_ghost=["rkcommon::memory::RefCountedObject"], count_atomic_ops=True,
                       virtual_final=["RefCountedObject"]))
    C = "$0->refCounter.v"
    U.fn("rc_refInc", requires=["$0->g_dead == 0", "%s >= 0 && %s <= %d" % (C, C, BIG)], assigns=[C, "verif_atomic_ops"], ensures={
        "refInc_adds_exactly_one": "%s == OLD(%s) + 1" % (C, C), "refInc_does_not_destroy": "$0->g_dead == 0",
        "refInc_is_one_atomic_read_modify_write": "verif_atomic_ops == OLD(verif_atomic_ops) + 1"})
    U.fn("rc_refDec", requires=["$0->g_dead == 0", "%s >= 1 && %s <= %d" % (C, C, BIG)], assigns=[C, "$0->g_dead", "verif_atomic_ops"], ensures={
        "refDec_subtracts_exactly_one": "%s == OLD(%s) - 1" % (C, C),
        "object_destroyed_exactly_when_last_reference_released": "($0->g_dead != 0) == (OLD(%s) == 1)" % C,
        "refDec_decides_on_its_own_single_atomic_read_modify_write": "verif_atomic_ops == OLD(verif_atomic_ops) + 1"})
    U.fn("rc_useCount", requires=["$0->g_dead == 0"], assigns=["verif_atomic_ops"], ensures={"useCount_is_the_counter": "RET == %s" % C})

    # ---- handle operations: delta contracts over the two-object world
    def delta_spec(name, params, raws=(), extra_req=(), ptr_post=None, ret=None, self_fresh=False):
        """params: names of Handle* parameters in order (first = self when self_fresh is False)"""
        hs = list(params)
        pre = world(hs, raws)
        call_args = []
        ens = {}
        return pre

    def harness_for(call, handles, raws=(), decl_ret=None, fresh_self=False):
        def mk(U_, spec, f):
            L = ["void h_%s(void)\n{" % f.cname, "  verif_lib_anchor(); __verif_exc = 0;"]
            if fresh_self:
                L.append("  Handle newh;")
            L.append(world(handles, raws))
            if decl_ret:
                L.append("  %s ret = %s;" % (decl_ret, call))
            else:
                L.append("  %s;" % call)
            L.append("  __CPROVER_assert(0, \"VERIF_CANARY reachable end of harness\");\n}")
            inputs = []
            return "\n".join(L) + "\n", inputs
        return mk

    LIVE = lambda p: "(%s == 0 || (%s->%s.g_dead == 0 && %s->%s.refCounter.v >= 1 && %s->%s.refCounter.v <= %d))" % (p, p, RC, p, RC, p, RC, BIG)
    ALLC = ["o1.%s.refCounter.v" % RC, "o2.%s.refCounter.v" % RC, "o1.%s.g_dead" % RC, "o2.%s.g_dead" % RC, "verif_atomic_ops"]

    def post_counts(before, after):
        """count(o) changes by (#handles at o after) - (#handles at o before); dead iff count reaches 0"""
        out = {}
        for o in ("o1", "o2"):
            out["count_of_%s_changes_by_exactly_the_handles_gained_or_lost" % o] = "%s == OLD(%s) + (%s) - (%s)" % (CNT(o), CNT(o), after(o), before(o))
            out["%s_destroyed_exactly_when_its_count_reaches_zero_and_never_earlier" % o] = "%s == (%s == 0 && OLD(%s) > 0)" % (DEAD(o), CNT(o), CNT(o))
        return out

    # NOTE: the harness objects o1,o2 are locals of the harness; contracts refer to them through the handles' pointers.
    # To keep contracts closed we state deltas through the pointer values captured at entry.
    def P(expr_ptr, o):   # "pointer == &o" cannot be written in a contract (o is a harness local): use ghost globals g_o1/g_o2
        return "(%s == g_%s)" % (expr_ptr, o)

    U.helpers += "\nObj *g_o1, *g_o2; /* ghost: the two objects of the harness world */\n"
    GCNT = lambda o: "g_%s->%s.refCounter.v" % (o, RC)
    GDEAD = lambda o: "(g_%s->%s.g_dead != 0)" % (o, RC)
    GA = ["g_o1->%s.refCounter.v" % RC, "g_o2->%s.refCounter.v" % RC, "g_o1->%s.g_dead" % RC, "g_o2->%s.g_dead" % RC, "verif_atomic_ops"]

    def counts(before, after):
        out = {}
        for o in ("o1", "o2"):
            out["count_of_%s_changes_by_exactly_the_handles_gained_minus_lost" % o] = "%s == OLD(%s) + (%s) - (%s)" % (GCNT(o), GCNT(o), after(o), before(o))
            out["%s_destroyed_exactly_when_its_last_reference_goes" % o] = "%s == (%s == 0 && OLD(%s) > 0)" % (GDEAD(o), GCNT(o), GCNT(o))
        return out

    WORLD_REQ = ["g_o1 != g_o2", "__CPROVER_rw_ok(g_o1, sizeof(Obj)) && __CPROVER_rw_ok(g_o2, sizeof(Obj))",
                 "g_o1->%s.g_dead == 0 && g_o2->%s.g_dead == 0" % (RC, RC), "%s >= 0 && %s <= %d && %s >= 0 && %s <= %d" % (GCNT("o1"), GCNT("o1"), BIG - 2, GCNT("o2"), GCNT("o2"), BIG - 2)]
    IN = lambda p: "(%s == 0 || %s == g_o1 || %s == g_o2)" % (p, p, p)
    AT = lambda p, o: "(%s == g_%s)" % (p, o)

    def hworld(handles, raws=()):
        return world(handles, raws) + "  g_o1 = &o1; g_o2 = &o2;\n"

    def custom(call, handles, raws=(), ret=None, fresh=False):
        def mk(U_, spec, f):
            L = ["void h_%s(void)\n{" % f.cname, "  verif_lib_anchor(); __verif_exc = 0;"]
            if fresh:
                L.append("  Handle newh; newh.ptr = 0;")
            L.append(hworld(handles, raws))
            L.append(("  %s ret = %s;" % (ret, call)) if ret else ("  %s;" % call))
            L.append("  __CPROVER_assert(0, \"VERIF_CANARY reachable end of harness\");\n}")
            return "\n".join(L) + "\n", []
        return mk

    # destructor: the handle goes away
    U.fn("h_dtor", harness=custom("h_dtor(p_h)", ["h"]), requires=WORLD_REQ + [IN("$0->ptr"), "IMP($0->ptr == g_o1, %s >= 1) && IMP($0->ptr == g_o2, %s >= 1)" % (GCNT("o1"), GCNT("o2"))],
         assigns=GA, ensures=counts(lambda o: AT("OLD($0->ptr)", o), lambda o: "0"))
    # copy constructor: one more handle at the source's object
    U.fn("h_copy", harness=custom("h_copy(&newh, p_in)", ["in"], fresh=True), noalias=True,
         requires=WORLD_REQ + [IN("$1->ptr"), "IMP($1->ptr == g_o1, %s >= 1) && IMP($1->ptr == g_o2, %s >= 1)" % (GCNT("o1"), GCNT("o2"))],
         assigns=GA + ["*$0"], ensures=dict(counts(lambda o: "0", lambda o: AT("$0->ptr", o)), copy_points_at_same_object="$0->ptr == $1->ptr"))
    U.fn("h_move", harness=custom("h_move(&newh, p_in)", ["in"], fresh=True), noalias=True,
         requires=WORLD_REQ + [IN("$1->ptr"), "IMP($1->ptr == g_o1, %s >= 1) && IMP($1->ptr == g_o2, %s >= 1)" % (GCNT("o1"), GCNT("o2"))],
         assigns=GA + ["*$0", "$1->ptr"], ensures=dict(counts(lambda o: AT("OLD($1->ptr)", o), lambda o: AT("$0->ptr", o)),
                                                    move_transfers_the_reference="$0->ptr == OLD($1->ptr) && $1->ptr == 0"))
    U.fn("h_from_raw", harness=custom("h_from_raw(&newh, p_r)", [], raws=["r"], fresh=True), noalias=True,
         requires=WORLD_REQ + [IN("$1")], assigns=GA + ["*$0"],
         ensures=dict(counts(lambda o: "0", lambda o: AT("$0->ptr", o)), handle_points_at_the_raw_pointer="$0->ptr == $1"))
    # assignments: self may alias input
    LIVE2 = lambda a, b: ["IMP(%s->ptr == g_%s || %s->ptr == g_%s, %s >= (%s->ptr == g_%s) + (%s != %s && %s->ptr == g_%s))" % (a, o, b, o, GCNT(o), a, o, a, b, b, o) for o in ("o1", "o2")]
    U.fn("h_assign", harness=custom("h_assign(p_h, p_in)", ["h", "in"], ret="Handle *"),
         requires=WORLD_REQ + [IN("$0->ptr"), IN("$1->ptr")] + LIVE2("$0", "$1"), assigns=GA + ["$0->ptr"],
         ensures=dict(counts(lambda o: AT("OLD($0->ptr)", o), lambda o: AT("$0->ptr", o)), assigned_handle_points_at_source_object="$0->ptr == OLD($1->ptr)",
                      source_handle_unchanged="IMP($0 != $1, $1->ptr == OLD($1->ptr))", returns_self="RET == $0"))
    U.fn("h_assign_move", harness=custom("h_assign_move(p_h, p_in)", ["h", "in"], ret="Handle *"),
         requires=WORLD_REQ + [IN("$0->ptr"), IN("$1->ptr"), "$0 != $1"] + LIVE2("$0", "$1"), assigns=GA + ["$0->ptr", "$1->ptr"],
         ensures=dict(counts(lambda o: "%s + %s" % (AT("OLD($0->ptr)", o), AT("OLD($1->ptr)", o)), lambda o: AT("$0->ptr", o)),
                      move_assignment_transfers_the_reference="$0->ptr == OLD($1->ptr) && $1->ptr == 0", returns_self="RET == $0"))
    U.fn("h_assign_raw", harness=custom("h_assign_raw(p_h, p_r)", ["h"], raws=["r"], ret="Handle *"),
         requires=WORLD_REQ + [IN("$0->ptr"), IN("$1"), "IMP($0->ptr == g_o1, %s >= 1) && IMP($0->ptr == g_o2, %s >= 1)" % (GCNT("o1"), GCNT("o2"))], assigns=GA + ["$0->ptr"],
         ensures=dict(counts(lambda o: AT("OLD($0->ptr)", o), lambda o: AT("$0->ptr", o)), assigned_handle_points_at_raw_pointer="$0->ptr == $1", returns_self="RET == $0"))
    # observers and comparisons
    U.fn("h_bool", ensures={"bool_iff_non_null": "RET == ($0->ptr != 0)"}, pre_call="  o_@0.ptr = nondet__Bool() ? (Obj *)verif_malloc(sizeof(Obj)) : 0;\n")
    U.fn("h_arrow", ensures={"arrow_is_the_pointer": "RET == $0->ptr"}, pre_call="  o_@0.ptr = nondet__Bool() ? (Obj *)verif_malloc(sizeof(Obj)) : 0;\n")
    U.fn("h_deref", requires=["$0->ptr != 0"], ensures={"deref_is_the_object": "RET == $0->ptr"}, pre_call="  o_@0.ptr = (Obj *)verif_malloc(sizeof(Obj));\n")
    two = "  Obj *qa = (Obj *)verif_malloc(sizeof(Obj)), *qb = (Obj *)verif_malloc(sizeof(Obj)); int in_sa = nondet_int(), in_sb = nondet_int();\n  o_@0.ptr = in_sa == 1 ? qa : (in_sa == 2 ? qb : 0); o_@1.ptr = in_sb == 1 ? qa : (in_sb == 2 ? qb : 0);\n"
    U.fn("h_eq", pre_call=two, ensures={"handles_equal_iff_same_object": "RET == ($0->ptr == $1->ptr)"})
    U.fn("h_ne", pre_call=two, ensures={"handles_differ_iff_different_objects": "RET == ($0->ptr != $1->ptr)"})
    return [U]


META = dict(
    technique='CBMC 6.11 function contracts (dfcc) with exact reference-count ghost state and an atomic-discipline counter',
    level="proof",
    level_text="Per-operation delta contracts over a world of two reference-counted objects and arbitrary handles (null / o1 / o2, aliased or not, including self-assignment): every IntrusivePtr constructor, destructor and assignment changes each object's count by exactly (handles pointing at it afterwards) - (before), an object is marked destroyed exactly when its count reaches zero and never while a reference remains (every operation on an object requires it to be alive, so destroying it before the last use inside one operation fails a callee precondition), for all counts up to 10^6. refInc/refDec each perform exactly one atomic read-modify-write and refDec decides on that operation's own result. By induction over operations this is useCount == creator's reference + live handles after every history. Comparison operators <=> pointer equality.",
    level_note="Sequential contracts: the atomic counter is modelled with single-thread semantics plus a discipline check (one RMW per refInc/refDec); that this suffices under real concurrency is the usual atomic-counter argument and is NOT proved. `delete this` is modelled by a ghost dead flag (storage kept) so that later uses are detected rather than undefined. Two objects, two handles per operation; more are covered by symmetry / induction (stated, not mechanised).",
    assumptions=["std::atomic: sequentially consistent single-thread model + one-RMW discipline", "closed universe of payload classes (probe classes of the driver)"],
    unverified=["memory ordering / multi-threaded interleavings", "operator< on handles"],
)
