"""C10: FlatMap conforms to an insertion-ordered unique-key map (FlatMap<int,int>; ParameterizedObject not covered).

Sequence facts are stated at ghost indices: verif_gi / verif_gj are arbitrary (nondeterministic, unconstrained) positions, so
an obligation proved for them is proved for every position; assumed contracts (vector reallocation) are instantiated at the
same ghost indices, which is a sound weakening of 'for all positions'."""
import os
from unit import Unit

MAXCAP = "1099511627776ul"
OOR = "EXC_std_out_of_range"
V = "$0->values"
B, N = V + ".b", V + ".n"
SZ = "sizeof(pair_ii)"
NB = int(os.environ.get("VERIF_FLATMAP_NB", "6" if os.environ.get("VERIF_TIER_EFFECTIVE") == "thorough" else "4"))

HELPERS = """
pair_ii g_s_gi, g_s_gj;      /* ghost: the entries found at positions verif_gi / verif_gj on entry (when inside the map) */
pair_ii g_old[%d];           /* ghost (bounded checks): all entries on entry */
""" % NB


def EQ(a, b):
    return "(%s.first == %s.first && %s.second == %s.second)" % (a, b, a, b)


INV = "(%(V)s.n <= %(V)s.cap && %(V)s.cap <= %(M)s && ((%(V)s.cap == 0 && %(V)s.b == 0) || (%(V)s.cap > 0 && __CPROVER_rw_ok(%(V)s.b, %(V)s.cap * %(SZ)s) && __CPROVER_POINTER_OFFSET(%(V)s.b) == 0)))" % dict(V=V, M=MAXCAP, SZ=SZ)
UNIQ = "IMP(verif_gi < verif_gj && verif_gj < %s, %s[verif_gi].first != %s[verif_gj].first)" % (N, B, B)
SNAP = ["IMP(verif_gi < %s, %s)" % (N, EQ(B + "[verif_gi]", "g_s_gi")), "IMP(verif_gj < %s, %s)" % (N, EQ(B + "[verif_gj]", "g_s_gj"))]
KEYSEP = "!__CPROVER_same_object($1, %s)" % B


def map_harness(bound=None):
    """a well-formed map of arbitrary size and capacity (bound: capacity fixed to that constant, for the bounded checks)"""
    return """
  unsigned long in_n = nondet_ulong(), in_cap = %(C)s; __CPROVER_assume(in_n <= in_cap && in_cap <= %(M)s);
  o_@0.values.b = in_cap ? (pair_ii *)verif_malloc(in_cap * sizeof(pair_ii)) : 0; o_@0.values.n = in_n; o_@0.values.cap = in_cap;
  verif_gi = nondet_ulong(); verif_gj = nondet_ulong(); verif_hi = nondet_ulong(); verif_hj = nondet_ulong();
  if (verif_gi < in_n) g_s_gi = o_@0.values.b[verif_gi];
  if (verif_gj < in_n) g_s_gj = o_@0.values.b[verif_gj];
""" % dict(M=MAXCAP, C=(str(bound) + "ul") if bound else "nondet_ulong()")


def units():
    IDX = "(__CPROVER_POINTER_OFFSET(RET) / %s)" % SZ
    ptr_inv = ("(first == last || (__CPROVER_same_object(first, last) && __CPROVER_same_object(first, verif_first0) && __CPROVER_POINTER_OFFSET(verif_first0) <= __CPROVER_POINTER_OFFSET(first) && "
               "__CPROVER_POINTER_OFFSET(first) <= __CPROVER_POINTER_OFFSET(last) && (__CPROVER_POINTER_OFFSET(last) - __CPROVER_POINTER_OFFSET(first)) %% %s == 0 && "
               "(__CPROVER_POINTER_OFFSET(first) - __CPROVER_POINTER_OFFSET(verif_first0)) %% %s == 0))" % (SZ, SZ))
    find_if_loop = ("    __CPROVER_assigns(first)\n    __CPROVER_loop_invariant(%s)\n"
                    "    __CPROVER_loop_invariant(IMP(verif_gi < (unsigned long)(__CPROVER_POINTER_OFFSET(first) - __CPROVER_POINTER_OFFSET(verif_first0)) / %s, verif_first0[verif_gi].first != *pred.__cap0))\n"
                    "    __CPROVER_decreases(__CPROVER_POINTER_OFFSET(last) - __CPROVER_POINTER_OFFSET(first))" % (ptr_inv, SZ))
    U = Unit("c10_flatmap", "units/c10_flatmap.cpp", helpers=HELPERS, opts=dict(tracked_vec=True, model_loops={"find_if:1": find_if_loop}))
    base = dict(pre_call=map_harness(), ptr_requires=True)
    LOOK = {"lookup_returns_a_position_inside_the_map_or_end": "RET == %s + %s && %s <= %s" % (B, IDX, IDX, N),
            "lookup_result_holds_the_key": "IMP(%s < %s, %s[%s].first == *$1)" % (IDX, N, B, IDX),
            "lookup_returns_the_first_entry_with_the_key": "IMP(verif_gi < %s, %s[verif_gi].first != *$1)" % (IDX, B)}
    for nm in ("fm_lookup", "fm_lookup_const"):
        U.fn(nm, requires=[INV, KEYSEP], assigns=[], apply_loops=True, ensures=LOOK, **base)
    AT = {"at_throws_out_of_range_exactly_when_no_entry_has_the_key": "IMP(__verif_exc != 0, __verif_exc == %s && IMP(verif_gi < %s, %s[verif_gi].first != *$1)) && IMP(verif_gi < %s && %s[verif_gi].first == *$1, __verif_exc == 0)" % (OOR, N, B, N, B),
          "at_returns_the_value_slot_of_the_first_entry_with_the_key": "IMP(__verif_exc == 0, %s < %s && RET == &%s[%s].second && %s[%s].first == *$1 && IMP(verif_gi < %s, %s[verif_gi].first != *$1))" % (IDX, N, B, IDX, B, IDX, IDX, B)}
    for nm in ("fm_at", "fm_at_const"):
        U.fn(nm, requires=[INV, KEYSEP, "__verif_exc == 0"], assigns=["__verif_exc"], ensures=AT, **base)
    U.fn("fm_contains", requires=[INV, KEYSEP], assigns=[], ensures={
        "contains_iff_some_entry_has_the_key": "IMP(!RET && verif_gi < %s, %s[verif_gi].first != *$1) && IMP(verif_gi < %s && %s[verif_gi].first == *$1, RET)" % (N, B, N, B)}, **base)
    N0 = "__CPROVER_old(%s)" % N
    U.fn("fm_index", requires=[INV, KEYSEP, UNIQ, "__verif_exc == 0", "%s < %s" % (N, MAXCAP)] + SNAP, assigns=[V, "__CPROVER_object_whole(%s)" % B, "__verif_exc"], frees=[B], ensures={
        "fresh_or_same_storage": INV,
        "never_throws": "__verif_exc == 0",
        "size_grows_by_at_most_one": "%s == %s || %s == %s + 1" % (N, N0, N, N0),
        "returns_the_value_slot_of_an_entry_with_the_key": "%s < %s && RET == &%s[%s].second && %s[%s].first == *$1" % (IDX, N, B, IDX, B, IDX),
        "present_key_adds_nothing_and_changes_nothing": "IMP(verif_gi < %s && g_s_gi.first == *$1, %s == %s) && IMP(%s == %s && verif_gi < %s, %s)" % (N0, N, N0, N, N0, N, EQ(B + "[verif_gi]", "g_s_gi")),
        "absent_key_is_appended_last_value_initialised_and_earlier_entries_keep_their_positions":
            "IMP(%s == %s + 1, %s == %s && %s[%s].second == 0 && IMP(verif_gi < %s, %s && g_s_gi.first != *$1))" % (N, N0, IDX, N0, B, IDX, N0, EQ(B + "[verif_gi]", "g_s_gi")),
        "keys_stay_unique": UNIQ}, **base)
    ATI = {"at_index_returns_entry_i_exactly_for_i_below_size": "IMP($1 < %s, __verif_exc == 0 && RET == &%s[$1])" % (N, B), "at_index_throws_out_of_range_otherwise": "IMP($1 >= %s, __verif_exc == %s)" % (N, OOR)}
    for nm in ("fm_at_index", "fm_at_index_const"):
        U.fn(nm, requires=[INV, "__verif_exc == 0"], assigns=["__verif_exc"], ensures=ATI, **base)
    U.fn("fm_size", requires=[INV], assigns=[], ensures={"size_is_the_number_of_entries": "RET == %s" % N}, **base)
    U.fn("fm_empty", requires=[INV], assigns=[], ensures={"empty_iff_no_entries": "(RET != 0) == (%s == 0)" % N}, **base)
    U.fn("fm_clear", requires=[INV], assigns=[V], ensures={"clear_removes_every_entry": "%s == 0" % N, "storage_stays_well_formed": INV}, **base)
    for nm in ("fm_begin", "fm_cbegin", "fm_begin_const"):
        U.fn(nm, requires=[INV], assigns=[], ensures={"begin_is_entry_0": "RET == %s" % B}, **base)
    for nm in ("fm_end", "fm_cend", "fm_end_const"):
        U.fn(nm, requires=[INV], assigns=[], ensures={"end_is_one_past_the_last_entry": "RET == %s + %s" % (B, N)}, **base)
    # ---- erase, bounded stand-in: complete order-preserving-filter specification for maps of at most NB entries
    olds = "".join("  int in_k%d = nondet_int(); int in_v%d = nondet_int(); if (%d < in_n) { o_@0.values.b[%d].first = in_k%d; o_@0.values.b[%d].second = in_v%d; g_old[%d] = o_@0.values.b[%d]; }\n" % (k, k, k, k, k, k, k, k, k) for k in range(NB))
    ERASE_REPLAY = """
int main()
{
  const int ks[] = {%s}, vs[] = {%s};
  FlatMapii m;
  for (unsigned long i = 0; i < (unsigned long)IN_in_n && i < %d; i++) m.values.push_back(std::make_pair(ks[i], vs[i]));   /* storage filled directly */
  std::vector<pair_ii> expect;
  int key = IN_in_key;
  for (auto &e : m.values) if (e.first != key) expect.push_back(e);
  m.erase(key);
  bool ok = m.values == expect;
  printf("erase(%%d) on %%lu entries: %%s\\n", key, (unsigned long)IN_in_n, ok ? "order-preserving filter" : "NOT the order-preserving filter of the old entries");
  for (auto &e : m.values) printf("  (%%d,%%d)", e.first, e.second);
  printf("\\n  expected:");
  for (auto &e : expect) printf("  (%%d,%%d)", e.first, e.second);
  printf("\\nREPLAY RESULT: %%s\\n", ok ? "not reproduced" : "violation reproduced on real code");
  return ok ? 0 : 1;
}
""" % (", ".join("IN_in_k%d" % k for k in range(NB)), ", ".join("IN_in_v%d" % k for k in range(NB)), NB)
    OLDREQ = ["IMP(%d < %s, %s)" % (k, N, EQ("%s[%d]" % (B, k), "g_old[%d]" % k)) for k in range(NB)]
    def cnt(k):
        return "(" + " + ".join(["0"] + ["(%d < %s && g_old[%d].first == *$1)" % (m, N0, m) for m in range(k)]) + ")"
    ER = {"erase_removes_exactly_the_entries_with_the_key": "%s == %s - %s" % (N, N0, cnt(NB)), "storage_stays_well_formed": INV, "erase_never_throws": "__verif_exc == 0"}
    for k in range(NB):
        ER["entry_%d_survives_in_order_unless_it_has_the_key" % k] = "IMP(%d < %s && g_old[%d].first != *$1, %s)" % (k, N0, k, EQ("%s[%d - %s]" % (B, k, cnt(k)), "g_old[%d]" % k))
    U.fn("fm_erase", requires=[INV, KEYSEP, "%s <= %d" % (N, NB), "__verif_exc == 0"] + OLDREQ, assigns=[V, "__CPROVER_object_whole(%s)" % B, "__verif_exc"], frees=[B],
         pre_call=map_harness(bound=NB) + "  __CPROVER_assume(in_n <= %d);\n" % NB + olds, ptr_requires=True, unwind=NB + 2, replay_native=ERASE_REPLAY, ensures=ER)
    return [U]


META = dict(
    level="proof",
    level_text="FlatMap<int,int>'s lookup (both overloads), at (x2), operator[], contains, at_index (x2), size, empty, clear and the begin/end family are extracted from /repo and proved by CBMC function contracts for maps of ANY size (up to 2^40 entries): lookup returns the first entry with the key or end (loop contract on the std::find_if reference model), at throws std::out_of_range exactly when no entry has the key and otherwise returns the value slot of the first such entry, operator[] returns the slot of an entry with the key, leaves a present key's map unchanged, appends an absent key last with a value-initialised value while every earlier entry keeps its position and value, and keeps keys unique; at_index(i) is entry i in insertion order or out_of_range. Facts about all entries are proved at arbitrary ghost positions (verif_gi, verif_gj). erase is checked by a BOUNDED stand-in (maps of at most 4 entries quick / 6 thorough, loops unwound with unwinding assertions) against the complete specification 'the result is the order-preserving filter of the old entries'.",
    level_note="erase is BOUNDED (not a proof): std::stable_partition's reference model is unwound for maps of at most NB entries. std::vector is a value-tracking MODEL whose reallocation step is an assumed contract instantiated at the ghost positions; std::find_if/std::stable_partition/std::partition are reference models (C code). Only the FlatMap<int,int> instantiation; the key reference must not point into the map's own storage (precondition). ParameterizedObject (findParam/removeParam/getParam/query flags) is NOT verified: it needs std::string names, std::shared_ptr<Param> elements and utility::Any. Reverse iterators are not under contract. Histories are covered by induction over operations: every operation preserves the representation invariant (well-formed storage, unique keys) that the next one requires.",
    explanation="CBMC function contracts with ghost-index sequence specifications; loop contract on the find_if model; bounded unwinding for erase only.",
    assumptions=["std::vector value-tracking model (reallocation = assumed contract at ghost indices)", "std::find_if / std::stable_partition / std::partition reference models", "key reference does not alias the map's storage", "map holds fewer than 2^40 entries", "allocation never fails"],
    bounded=["fm_erase: maps of at most 4 (quick) / 6 (thorough) entries, loops unwound NB+2 times with unwinding assertions"],
    unverified=["ParameterizedObject", "reverse iterators", "other KEY/VALUE instantiations (std::string keys)", "reserve (no-op in the model)"],
)
