"""C10: FlatMap conforms to an insertion-ordered unique-key map (FlatMap<int,int>); ParameterizedObject typed reads / query flag.

Sequence facts are stated at ghost indices: verif_gi / verif_gj are arbitrary (nondeterministic, unconstrained) positions, so
an obligation proved for them is proved for every position; assumed contracts (vector reallocation) are instantiated at the
same ghost indices, which is a sound weakening of 'for all positions'."""
import os
from unit import Unit

MAXCAP = "1099511627776ul"
OOR = "EXC_std_out_of_range"
V = "$0->values"
B, N = V + ".b", V + ".n"
SZ = "sizeof(pair_ii)"
NB = int(os.environ.get("VERIF_FLATMAP_NB", "6" if os.environ.get("VERIF_TIER_EFFECTIVE") == "thorough" else "4"))

HELPERS = """
pair_ii g_s_gi, g_s_gj, g_s_hi, g_s_hj;      /* ghost: the entries found at positions verif_gi / gj / hi / hj on entry (when inside the map) */
pair_ii g_old[%d];           /* ghost (bounded checks): all entries on entry */
""" % NB


def EQ(a, b):
    return "(%s.first == %s.first && %s.second == %s.second)" % (a, b, a, b)


INV = "(%(V)s.n <= %(V)s.cap && %(V)s.cap <= %(M)s && ((%(V)s.cap == 0 && %(V)s.b == 0) || (%(V)s.cap > 0 && __CPROVER_rw_ok(%(V)s.b, %(V)s.cap * %(SZ)s) && __CPROVER_POINTER_OFFSET(%(V)s.b) == 0)))" % dict(V=V, M=MAXCAP, SZ=SZ)
UNIQ = "IMP(verif_gi < verif_gj && verif_gj < %s, %s[verif_gi].first != %s[verif_gj].first)" % (N, B, B)
SNAP = ["IMP(verif_gi < %s, %s)" % (N, EQ(B + "[verif_gi]", "g_s_gi")), "IMP(verif_gj < %s, %s)" % (N, EQ(B + "[verif_gj]", "g_s_gj"))]
KEYSEP = "!__CPROVER_same_object($1, %s)" % B


def map_harness(bound=None):
    """a well-formed map of arbitrary size and capacity (bound: capacity fixed to that constant, for the bounded checks)"""
    return """
  unsigned long in_n = nondet_ulong(), in_cap = %(C)s; __CPROVER_assume(in_n <= in_cap && in_cap <= %(M)s);
  o_@0.values.b = in_cap ? (pair_ii *)verif_malloc(in_cap * sizeof(pair_ii)) : 0; o_@0.values.n = in_n; o_@0.values.cap = in_cap;
  verif_gi = nondet_ulong(); verif_gj = nondet_ulong(); verif_hi = nondet_ulong(); verif_hj = nondet_ulong();
  if (verif_gi < in_n) g_s_gi = o_@0.values.b[verif_gi];
  if (verif_gj < in_n) g_s_gj = o_@0.values.b[verif_gj];
  if (verif_hi < in_n) g_s_hi = o_@0.values.b[verif_hi];
  if (verif_hj < in_n) g_s_hj = o_@0.values.b[verif_hj];
""" % dict(M=MAXCAP, C=(str(bound) + "ul") if bound else "nondet_ulong()")


def units():
    IDX = "(__CPROVER_POINTER_OFFSET(RET) / %s)" % SZ
    ptr_inv = ("(first == last || (__CPROVER_same_object(first, last) && __CPROVER_same_object(first, verif_first0) && __CPROVER_POINTER_OFFSET(verif_first0) <= __CPROVER_POINTER_OFFSET(first) && "
               "__CPROVER_POINTER_OFFSET(first) <= __CPROVER_POINTER_OFFSET(last) && (__CPROVER_POINTER_OFFSET(last) - __CPROVER_POINTER_OFFSET(first)) %% %s == 0 && "
               "(__CPROVER_POINTER_OFFSET(first) - __CPROVER_POINTER_OFFSET(verif_first0)) %% %s == 0))" % (SZ, SZ))
    find_if_loop = ("    __CPROVER_assigns(first)\n    __CPROVER_loop_invariant(%s)\n"
                    "    __CPROVER_loop_invariant(IMP(verif_gi < (unsigned long)(__CPROVER_POINTER_OFFSET(first) - __CPROVER_POINTER_OFFSET(verif_first0)) / %s, verif_first0[verif_gi].first != *pred.__cap0))\n"
                    "    __CPROVER_decreases(__CPROVER_POINTER_OFFSET(last) - __CPROVER_POINTER_OFFSET(first))" % (ptr_inv, SZ))
    K = "(*pred.__cap0)"
    KEEP = lambda x: "(%s.first != %s)" % (x, K)
    inv = ["i <= n && kw <= i && r <= i && kw + r == i"]
    for G in ("gi", "gj", "hi", "hj"):
        inv.append("IMP(verif_%s >= i && verif_%s < n, %s)" % (G, G, EQ("first[verif_%s]" % G, "verif_s_%s" % G)))
    for (G, H) in (("gi", "hi"), ("gj", "hj")):
        d, sr = "verif_sp_dest_" + G[1], "verif_sp_src_" + G[1]
        inv.append("IMP(verif_%s < i && %s, %s < kw && %s)" % (G, KEEP("verif_s_" + G), d, EQ("first[%s]" % d, "verif_s_" + G)))
        inv.append("IMP(verif_%s < kw, %s < i && %s >= verif_%s && %s)" % (G, sr, sr, G, KEEP("first[verif_%s]" % G)))
        inv.append("IMP(verif_%s < kw && verif_%s == %s, %s)" % (G, H, sr, EQ("first[verif_%s]" % G, "verif_s_" + H)))
    inv.append("IMP(verif_gi < verif_gj && verif_gj < i && %s && %s, verif_sp_dest_i < verif_sp_dest_j)" % (KEEP("verif_s_gi"), KEEP("verif_s_gj")))
    inv.append("IMP(verif_gi < verif_gj && verif_gj < kw, verif_sp_src_i < verif_sp_src_j)")
    inv.append("IMP(verif_gi < i && !%s, r >= 1)" % KEEP("verif_s_gi"))
    sp_loop1 = ("    __CPROVER_assigns(i, kw, r, __CPROVER_object_whole(first), __CPROVER_object_whole(tmp), verif_sp_dest_i, verif_sp_dest_j, verif_sp_src_i, verif_sp_src_j)\n"
                + "".join("    __CPROVER_loop_invariant(%s)\n" % x for x in inv) + "    __CPROVER_decreases(n - i)")
    sp_loop2 = "      __CPROVER_assigns(k, __CPROVER_object_from(first + kw))\n      __CPROVER_loop_invariant(k <= r)\n      __CPROVER_decreases(r - k)"
    U = Unit("c10_flatmap", "units/c10_flatmap.cpp", helpers=HELPERS, opts=dict(tracked_vec=True, model_loops={"find_if:1": find_if_loop, "stable_partition:1": sp_loop1, "stable_partition:2": sp_loop2}))
    base = dict(pre_call=map_harness(), ptr_requires=True)
    LOOK = {"lookup_returns_a_position_inside_the_map_or_end": "RET == %s + %s && %s <= %s" % (B, IDX, IDX, N),
            "lookup_result_holds_the_key": "IMP(%s < %s, %s[%s].first == *$1)" % (IDX, N, B, IDX),
            "lookup_returns_the_first_entry_with_the_key": "IMP(verif_gi < %s, %s[verif_gi].first != *$1)" % (IDX, B)}
    for nm in ("fm_lookup", "fm_lookup_const"):
        U.fn(nm, requires=[INV, KEYSEP], assigns=[], apply_loops=True, ensures=LOOK, **base)
    AT = {"at_throws_out_of_range_exactly_when_no_entry_has_the_key": "IMP(__verif_exc != 0, __verif_exc == %s && IMP(verif_gi < %s, %s[verif_gi].first != *$1)) && IMP(verif_gi < %s && %s[verif_gi].first == *$1, __verif_exc == 0)" % (OOR, N, B, N, B),
          "at_returns_the_value_slot_of_the_first_entry_with_the_key": "IMP(__verif_exc == 0, %s < %s && RET == &%s[%s].second && %s[%s].first == *$1 && IMP(verif_gi < %s, %s[verif_gi].first != *$1))" % (IDX, N, B, IDX, B, IDX, IDX, B)}
    for nm in ("fm_at", "fm_at_const"):
        U.fn(nm, requires=[INV, KEYSEP, "__verif_exc == 0"], assigns=["__verif_exc"], ensures=AT, **base)
    U.fn("fm_contains", requires=[INV, KEYSEP], assigns=[], ensures={
        "contains_iff_some_entry_has_the_key": "IMP(!RET && verif_gi < %s, %s[verif_gi].first != *$1) && IMP(verif_gi < %s && %s[verif_gi].first == *$1, RET)" % (N, B, N, B)}, **base)
    N0 = "__CPROVER_old(%s)" % N
    U.fn("fm_index", requires=[INV, KEYSEP, UNIQ, "__verif_exc == 0", "%s < %s" % (N, MAXCAP)] + SNAP, assigns=[V, "__CPROVER_object_whole(%s)" % B, "__verif_exc"], frees=[B], ensures={
        "fresh_or_same_storage": INV,
        "never_throws": "__verif_exc == 0",
        "size_grows_by_at_most_one": "%s == %s || %s == %s + 1" % (N, N0, N, N0),
        "returns_the_value_slot_of_an_entry_with_the_key": "%s < %s && RET == &%s[%s].second && %s[%s].first == *$1" % (IDX, N, B, IDX, B, IDX),
        "present_key_adds_nothing_and_changes_nothing": "IMP(verif_gi < %s && g_s_gi.first == *$1, %s == %s) && IMP(%s == %s && verif_gi < %s, %s)" % (N0, N, N0, N, N0, N, EQ(B + "[verif_gi]", "g_s_gi")),
        "absent_key_is_appended_last_value_initialised_and_earlier_entries_keep_their_positions":
            "IMP(%s == %s + 1, %s == %s && %s[%s].second == 0 && IMP(verif_gi < %s, %s && g_s_gi.first != *$1))" % (N, N0, IDX, N0, B, IDX, N0, EQ(B + "[verif_gi]", "g_s_gi")),
        "keys_stay_unique": UNIQ}, **base)
    ATI = {"at_index_returns_entry_i_exactly_for_i_below_size": "IMP($1 < %s, __verif_exc == 0 && RET == &%s[$1])" % (N, B), "at_index_throws_out_of_range_otherwise": "IMP($1 >= %s, __verif_exc == %s)" % (N, OOR)}
    for nm in ("fm_at_index", "fm_at_index_const"):
        U.fn(nm, requires=[INV, "__verif_exc == 0"], assigns=["__verif_exc"], ensures=ATI, **base)
    U.fn("fm_size", requires=[INV], assigns=[], ensures={"size_is_the_number_of_entries": "RET == %s" % N}, **base)
    U.fn("fm_empty", requires=[INV], assigns=[], ensures={"empty_iff_no_entries": "(RET != 0) == (%s == 0)" % N}, **base)
    U.fn("fm_clear", requires=[INV], assigns=[V], ensures={"clear_removes_every_entry": "%s == 0" % N, "storage_stays_well_formed": INV}, **base)
    for nm in ("fm_begin", "fm_cbegin", "fm_begin_const"):
        U.fn(nm, requires=[INV], assigns=[], ensures={"begin_is_entry_0": "RET == %s" % B}, **base)
    for nm in ("fm_end", "fm_cend", "fm_end_const"):
        U.fn(nm, requires=[INV], assigns=[], ensures={"end_is_one_past_the_last_entry": "RET == %s + %s" % (B, N)}, **base)
    # ---- erase, bounded stand-in: complete order-preserving-filter specification for maps of at most NB entries
    olds = "".join("  int in_k%d = nondet_int(); int in_v%d = nondet_int(); if (%d < in_n) { o_@0.values.b[%d].first = in_k%d; o_@0.values.b[%d].second = in_v%d; g_old[%d] = o_@0.values.b[%d]; }\n" % (k, k, k, k, k, k, k, k, k) for k in range(NB))
    ERASE_REPLAY = """
int main()
{
  const int ks[] = {%s}, vs[] = {%s};
  FlatMapii m;
  for (unsigned long i = 0; i < (unsigned long)IN_in_n && i < %d; i++) m.values.push_back(std::make_pair(ks[i], vs[i]));   /* storage filled directly */
  std::vector<pair_ii> expect;
  int key = IN_in_key;
  for (auto &e : m.values) if (e.first != key) expect.push_back(e);
  m.erase(key);
  bool ok = m.values == expect;
  printf("erase(%%d) on %%lu entries: %%s\\n", key, (unsigned long)IN_in_n, ok ? "order-preserving filter" : "NOT the order-preserving filter of the old entries");
  for (auto &e : m.values) printf("  (%%d,%%d)", e.first, e.second);
  printf("\\n  expected:");
  for (auto &e : expect) printf("  (%%d,%%d)", e.first, e.second);
  printf("\\nREPLAY RESULT: %%s\\n", ok ? "not reproduced" : "violation reproduced on real code");
  return ok ? 0 : 1;
}
""" % (", ".join("IN_in_k%d" % k for k in range(NB)), ", ".join("IN_in_v%d" % k for k in range(NB)), NB)
    OLDREQ = ["IMP(%d < %s, %s)" % (k, N, EQ("%s[%d]" % (B, k), "g_old[%d]" % k)) for k in range(NB)]
    def cnt(k):
        return "(" + " + ".join(["0"] + ["(%d < %s && g_old[%d].first == *$1)" % (m, N0, m) for m in range(k)]) + ")"
    ER = {"erase_removes_exactly_the_entries_with_the_key": "%s == %s - %s" % (N, N0, cnt(NB)), "storage_stays_well_formed": INV, "erase_never_throws": "__verif_exc == 0"}
    for k in range(NB):
        ER["entry_%d_survives_in_order_unless_it_has_the_key" % k] = "IMP(%d < %s && g_old[%d].first != *$1, %s)" % (k, N0, k, EQ("%s[%d - %s]" % (B, k, cnt(k)), "g_old[%d]" % k))
    SPG = ["verif_sp_dest_i", "verif_sp_dest_j", "verif_sp_src_i", "verif_sp_src_j", "verif_sp_kept"]
    KS = lambda x: "(%s.first != *$1)" % x
    SNAPH = ["IMP(verif_hi < %s, %s)" % (N, EQ(B + "[verif_hi]", "g_s_hi")), "IMP(verif_hj < %s, %s)" % (N, EQ(B + "[verif_hj]", "g_s_hj"))]
    UNIQH = "IMP(verif_hi < verif_hj && verif_hj < %s, %s[verif_hi].first != %s[verif_hj].first)" % (N, B, B)
    U.fn("fm_erase", requires=[INV, KEYSEP, UNIQH, "__verif_exc == 0"] + SNAP + SNAPH, assigns=[V, "__CPROVER_object_whole(%s)" % B, "__verif_exc"] + SPG, frees=[B], apply_loops=True,
         pre_call=map_harness(), ptr_requires=True, timeout=1500, solver=["--sat-solver", "cadical"], flags=["--unwind", "16", "--unwinding-assertions"], ensures={
        "storage_stays_well_formed": INV, "erase_never_throws": "__verif_exc == 0",
        "size_is_the_number_of_entries_kept": "%s == verif_sp_kept && %s <= %s" % (N, N, N0),
        "every_other_entry_survives": "IMP(verif_gi < %s && %s, verif_sp_dest_i < %s && %s)" % (N0, KS("g_s_gi"), N, EQ("%s[verif_sp_dest_i]" % B, "g_s_gi")),
        "survivors_keep_their_relative_order": "IMP(verif_gi < verif_gj && verif_gj < %s && %s && %s, verif_sp_dest_i < verif_sp_dest_j)" % (N0, KS("g_s_gi"), KS("g_s_gj")),
        "every_remaining_entry_is_an_old_entry_without_the_key": "IMP(verif_gi < %s && verif_hi == verif_sp_src_i, verif_hi < %s && %s && %s)" % (N, N0, EQ("%s[verif_gi]" % B, "g_s_hi"), KS("g_s_hi")),
        "remaining_entries_come_from_increasing_old_positions": "IMP(verif_gi < verif_gj && verif_gj < %s, verif_sp_src_i < verif_sp_src_j)" % N,
        "no_entry_with_the_key_remains": "IMP(verif_gi < %s, %s[verif_gi].first != *$1)" % (N, B),
        "an_entry_with_the_key_shrinks_the_map": "IMP(verif_gi < %s && !%s, %s < %s)" % (N0, KS("g_s_gi"), N, N0),
        "keys_stay_unique": "IMP(verif_gi < verif_gj && verif_gj < %s && verif_hi == verif_sp_src_i && verif_hj == verif_sp_src_j, %s[verif_gi].first != %s[verif_gj].first)" % (N, B, B)})
    U.fn("fm_erase", variant="bounded", requires=[INV, KEYSEP, "%s <= %d" % (N, NB), "__verif_exc == 0"] + OLDREQ, assigns=[V, "__CPROVER_object_whole(%s)" % B, "__verif_exc"] + SPG, frees=[B],
         pre_call=map_harness(bound=NB) + "  __CPROVER_assume(in_n <= %d);\n" % NB + olds, ptr_requires=True, unwind=NB + 2, replay_native=ERASE_REPLAY, ensures=ER)
    return [U, params_unit(), paramlist_unit()]


PSTUBS = """
/* ASSUMED interface stubs: findParam returns the parameter the harness chose (none, or one live Param of this object);
 * Any::is<T>() answers as the harness chose; get<T>() is only legal after is<T>() and yields the stored value. */
_Bool g_q0;   /* ghost: the query flag of the found parameter on entry */
Param *g_param; _Bool g_is_int, g_is_float; int g_int_val; float g_float_val;
unsigned g_find_calls; _Bool g_find_add; Any *g_assigned_to; int g_assigned_val; unsigned g_assign_calls;
Param *po_findParam(ParameterizedObject *self, std_basic_string_char *name, _Bool addIfNotExist) { g_find_calls++; g_find_add = addIfNotExist; return g_param; }
_Bool any_is_int(Any *self) { __CPROVER_assert(g_param != 0 && self == &g_param->data, "is<T>() is asked of the found parameter's value"); return g_is_int; }
_Bool any_is_float(Any *self) { __CPROVER_assert(g_param != 0 && self == &g_param->data, "is<T>() is asked of the found parameter's value"); return g_is_float; }
int *any_get_int(Any *self) { __CPROVER_assert(g_param != 0 && self == &g_param->data && g_is_int, "get<int>() only on a value that is<int>()"); return &g_int_val; }
float *any_get_float(Any *self) { __CPROVER_assert(g_param != 0 && self == &g_param->data && g_is_float, "get<float>() only on a value that is<float>()"); return &g_float_val; }
Any *any_assign_int(Any *self, int rhs) { g_assigned_to = self; g_assigned_val = rhs; g_assign_calls++; return self; }
"""


def paramlist_unit():
    """ParameterizedObject's parameter list: BOUNDED exact checks (at most 3 parameters with names of at most 2 characters) on bounded
    code models of std::string / std::vector and the exact reference-counting model of std::shared_ptr; utility::Any is opaque here."""
    PN = 3
    SP = "std_shared_ptr_ParameterizedObject_Param"
    helpers = """
Param *g_p[%(n)d]; verif_ctrl *g_c[%(n)d]; unsigned long g_n0;     /* ghost: the parameter list on entry */
std_basic_string_char g_name[%(n)d];                                /* ghost: the parameters' names on entry (a removed parameter is freed) */
static _Bool str_is(std_basic_string_char *a, std_basic_string_char *name) { unsigned long i; if (a->n != name->n) return 0; for (i = 0; i < name->n && i < 4; i++) if (a->b[i] != name->b[i]) return 0; return 1; }
static _Bool name_is(Param *p, std_basic_string_char *name) { unsigned long i; if (p->name.n != name->n) return 0; for (i = 0; i < name->n && i < 4; i++) if (p->name.b[i] != name->b[i]) return 0; return 1; }
/* position of the FIRST parameter with that name in the list on entry, or -1 */
static long first_old(std_basic_string_char *name) { long k; for (k = 0; k < (long)g_n0 && k < %(n)d; k++) if (str_is(&g_name[k], name)) return k; return -1; }
static _Bool list_same(ParameterizedObject *o) { unsigned long k; if (o->paramList.n != g_n0) return 0; for (k = 0; k < g_n0 && k < %(n)d; k++) if (o->paramList.b[k].p != g_p[k] || o->paramList.b[k].c != g_c[k]) return 0; return 1; }
static _Bool prefix_same(ParameterizedObject *o, unsigned long m) { unsigned long k; for (k = 0; k < m && k < %(n)d; k++) if (o->paramList.b[k].p != g_p[k] || o->paramList.b[k].c != g_c[k]) return 0; return 1; }
static _Bool is_old(Param *p) { unsigned long k; for (k = 0; k < g_n0 && k < %(n)d; k++) if (g_p[k] == p) return 1; return 0; }
static _Bool removed_at(ParameterizedObject *o, long idx) { unsigned long k; if (o->paramList.n + 1 != g_n0) return 0; for (k = 0; k + 1 < g_n0 && k < %(n)d; k++) if (o->paramList.b[k].p != g_p[(long)k < idx ? k : k + 1]) return 0; return 1; }
static _Bool all_unqueried(void) { unsigned long k; for (k = 0; k < g_n0 && k < %(n)d; k++) if (g_p[k]->query != 0) return 0; return 1; }
""" % dict(n=PN)
    L = Unit("c10_paramlist", "units/c10_paramlist.cpp", helpers=helpers, opts=dict(tracked_vec=True, tracked_str=True, bounded_str=4, bounded_vec=PN + 1, opaque_extra=r"std::unique_ptr<"))
    L.stub("utility::Any inside Param", "opaque in this unit (its unique_ptr member is not modelled): construction/destruction of the parameter's value are no-ops here; the typed reads are covered by unit c10_params, Any itself by C09")
    pre = "  unsigned long in_n = nondet_ulong(); __CPROVER_assume(in_n <= %d); o_@0.paramList.n = in_n; o_@0.paramList.cap = %d; g_n0 = in_n;\n" % (PN, PN + 1)
    for k in range(PN):
        pre += ("  { Param *pp = (Param *)verif_malloc(sizeof(Param)); verif_ctrl *cc = (verif_ctrl *)verif_malloc(sizeof(verif_ctrl)); cc->cnt = 1; unsigned long in_l%(k)d = nondet_ulong(); __CPROVER_assume(in_l%(k)d <= 2);"
                " pp->name.n = in_l%(k)d; pp->name.cap = 4; char in_c%(k)d0 = nondet_char(), in_c%(k)d1 = nondet_char(); pp->name.b[0] = in_c%(k)d0; pp->name.b[1] = in_c%(k)d1; pp->query = nondet__Bool();"
                " g_p[%(k)d] = pp; g_c[%(k)d] = cc; g_name[%(k)d] = pp->name; o_@0.paramList.b[%(k)d].p = pp; o_@0.paramList.b[%(k)d].c = cc; }\n" % dict(k=k))
    pre += "  unsigned long in_ln = nondet_ulong(); __CPROVER_assume(in_ln <= 2); o_@1.n = in_ln; o_@1.cap = 4; char in_d0 = nondet_char(), in_d1 = nondet_char(); o_@1.b[0] = in_d0; o_@1.b[1] = in_d1;\n"
    REQ = ["g_n0 <= %d && list_same($0)" % PN, "__verif_exc == 0"]
    for k in range(PN):
        REQ.append("__CPROVER_rw_ok(g_p[%d], sizeof(Param)) && __CPROVER_rw_ok(g_c[%d], sizeof(verif_ctrl)) && g_c[%d]->cnt == 1 && g_p[%d]->name.n <= 2 && name_is(g_p[%d], &g_name[%d])" % (k, k, k, k, k, k))
    acc = dict(unwind=PN + 4, timeout=600, solver=["--sat-solver", "cadical"], noalias=True)
    FIND_REPLAY = """
int main()
{
  const char cn[3][3] = {{IN_in_c00, IN_in_c01, 0}, {IN_in_c10, IN_in_c11, 0}, {IN_in_c20, IN_in_c21, 0}};
  const unsigned long ln[3] = {IN_in_l0, IN_in_l1, IN_in_l2};
  const char dn[3] = {IN_in_d0, IN_in_d1, 0};
  struct PO : rkcommon::utility::ParameterizedObject { using ParameterizedObject::findParam; using ParameterizedObject::params_begin; using ParameterizedObject::params_end; } o;
  std::vector<std::string> names; std::vector<Param *> ptrs;
  for (unsigned long k = 0; k < (unsigned long)IN_in_n && k < 3; k++) { names.push_back(std::string(cn[k], ln[k] < 2 ? ln[k] : 2)); o.paramList.push_back(std::make_shared<Param>(names.back())); ptrs.push_back(o.paramList.back().get()); }
  std::string name(dn, (unsigned long)IN_in_ln < 2 ? (unsigned long)IN_in_ln : 2);
  long first = -1; for (unsigned long k = 0; k < names.size(); k++) if (first < 0 && names[k] == name) first = (long)k;
  bool ok = true;
  %(body)s
  printf("%(what)s(\\"%%s\\") on %%lu parameter(s), first match at %%ld: %%s\\n", name.c_str(), (unsigned long)names.size(), first, ok ? "as specified" : "NOT as specified");
  printf("REPLAY RESULT: %%s\\n", ok ? "not reproduced" : "violation reproduced on real code");
  return ok ? 0 : 1;
}
"""
    find_body = """bool add = IN_in_addIfNotExist; Param *r = o.findParam(name, add);
  if (first >= 0) ok = r == ptrs[first] && o.paramList.size() == ptrs.size();
  else if (!add) ok = r == nullptr && o.paramList.size() == ptrs.size();
  else ok = o.paramList.size() == ptrs.size() + 1 && r == o.paramList.back().get() && r && r->name == name && !r->query;
  for (unsigned long k = 0; ok && k < ptrs.size(); k++) ok = o.paramList[k].get() == ptrs[k];"""
    rem_body = """o.removeParam(name);
  if (first < 0) { ok = o.paramList.size() == ptrs.size(); for (unsigned long k = 0; ok && k < ptrs.size(); k++) ok = o.paramList[k].get() == ptrs[k]; }
  else { ok = o.paramList.size() + 1 == ptrs.size(); for (unsigned long k = 0; ok && k + 1 < ptrs.size(); k++) ok = o.paramList[k].get() == ptrs[(long)k < first ? k : k + 1]; }"""
    L.fn("pl_findParam", pre_call=pre, requires=REQ + ["$1->n <= 2"], assigns=["$0->paramList", "__verif_exc"], replay_native=FIND_REPLAY % dict(body=find_body, what="findParam"), ensures={
        "never_throws": "__verif_exc == 0",
        "an_existing_name_returns_the_first_parameter_with_it_and_changes_nothing": "IMP(first_old($1) >= 0, RET == g_p[first_old($1) >= 0 && first_old($1) < %d ? first_old($1) : 0] && list_same($0))" % PN,
        "an_absent_name_without_add_returns_null_and_changes_nothing": "IMP(first_old($1) < 0 && !$2, RET == 0 && list_same($0))",
        "an_absent_name_with_add_appends_one_fresh_unqueried_parameter_with_that_name":
            "IMP(first_old($1) < 0 && $2, $0->paramList.n == g_n0 + 1 && prefix_same($0, g_n0) && RET != 0 && !is_old(RET) && RET == $0->paramList.b[g_n0 < %d ? g_n0 : 0].p && name_is(RET, $1) && RET->query == 0 && $0->paramList.b[g_n0 < %d ? g_n0 : 0].c->cnt == 1)" % (PN + 1, PN + 1)}, **acc)
    FREES = ["g_p[%d]" % k for k in range(PN)] + ["g_c[%d]" % k for k in range(PN)]
    L.fn("pl_removeParam", pre_call=pre, requires=REQ + ["$1->n <= 2"], assigns=["$0->paramList", "__verif_exc"] + ["__CPROVER_object_whole(g_c[%d])" % k for k in range(PN)] + ["__CPROVER_object_whole(g_p[%d])" % k for k in range(PN)], frees=FREES,
         replay_native=FIND_REPLAY % dict(body=rem_body, what="removeParam"), ensures={
        "never_throws": "__verif_exc == 0",
        "an_absent_name_changes_nothing": "IMP(first_old($1) < 0, list_same($0))",
        "the_first_parameter_with_the_name_is_removed_and_the_others_keep_their_order": "IMP(first_old($1) >= 0, removed_at($0, first_old($1)))"}, **acc)
    pre0 = pre[:pre.index("  unsigned long in_ln")]
    L.fn("pl_resetAll", pre_call=pre0, requires=REQ, assigns=["__verif_exc"] + ["g_p[%d]->query" % k for k in range(PN)], ensures={
        "every_parameter_is_unqueried_afterwards_and_the_list_is_unchanged": "__verif_exc == 0 && all_unqueried() && list_same($0)"}, **acc)
    return L


def params_unit():
    P = Unit("c10_params", "units/c10_params.cpp", stubs=PSTUBS,
             opts=dict(opaque_std=True, opaque_extra=r"std::unique_ptr<", stub_bodies=["po_findParam", "any_is_int", "any_is_float", "any_get_int", "any_get_float", "any_assign_int"]))
    P.stub("ParameterizedObject::findParam / Any::is<T> / Any::get<T> / Any::operator=(T)", "ASSUMED interface stubs in this unit (lookup by name and the type-erased value are not verified here): the typed-read and query-flag logic of getParam/hasParam/setParam is what is proved")
    pre = """
  static Param the_param;
  _Bool in_q0 = nondet__Bool(); the_param.query = in_q0; g_q0 = the_param.query;
  _Bool in_present = nondet__Bool(); g_param = in_present ? &the_param : (Param *)0;
  _Bool in_is_int = nondet__Bool(); _Bool in_is_float = nondet__Bool(); g_is_int = in_is_int; g_is_float = in_is_float; __CPROVER_assume(!(g_is_int && g_is_float));
  int in_int_val = nondet_int(); float in_float_val = nondet_float(); g_int_val = in_int_val; g_float_val = in_float_val;
  g_find_calls = 0; g_find_add = 0; g_assign_calls = 0; g_assigned_to = 0;
"""
    GET_REPLAY = """
int main()
{
  ParameterizedObject o;
  bool present = IN_in_present, is_int = IN_in_is_int, is_float = IN_in_is_float, q0 = IN_in_q0;
  if (present) {
    if (is_int) o.setParam<int>("p", (int)IN_in_int_val); else if (is_float) o.setParam<float>("p", 1.5f); else o.setParam<double>("p", 2.5);
    o.findParam("p")->query = q0;
  }
  %(T)s dflt = (%(T)s)7, got = o.getParam<%(T)s>("p", dflt);
  bool exact = present && %(isv)s;
  bool ok = exact ? (o.findParam("p")->query == true && got == %(val)s) : (got == dflt && (!present || o.findParam("p")->query == q0));
  printf("getParam<%(T)s> on a %%s parameter (query flag %%d before): returned %%g, flag after %%d -> %%s\\n", !present ? "missing" : is_int ? "int" : is_float ? "float" : "double", (int)q0, (double)got,
         present ? (int)o.findParam("p")->query : -1, ok ? "as specified" : "NOT as specified");
  printf("REPLAY RESULT: %%s\\n", ok ? "not reproduced" : "violation reproduced on real code");
  return ok ? 0 : 1;
}
"""
    GA = ["g_find_calls", "g_find_add", "g_assigned_to", "g_assigned_val", "g_assign_calls", "__verif_exc"]
    REQ = ["g_param == 0 || __CPROVER_rw_ok(g_param, sizeof(*g_param))", "g_find_calls == 0 && g_assign_calls == 0", "!(g_is_int && g_is_float)", "__verif_exc == 0"]
    Q0 = "__CPROVER_old(g_param != 0 ? g_param->query : 0)"
    for (nm, isv, val, eq) in (("po_getParam_int", "g_is_int", "g_int_val", lambda a, b: "%s == %s" % (a, b)), ("po_getParam_float", "g_is_float", "g_float_val", lambda a, b: "FEQ(%s, %s)" % (a, b))):
        P.fn(nm, pre_call=pre, requires=REQ + ["IMP(g_param != 0, g_param->query == g_q0)"], assigns=GA + ["g_param->query"],
             replay_native=GET_REPLAY % (dict(T="int", isv="is_int", val="(int)IN_in_int_val") if nm.endswith("int") else dict(T="float", isv="is_float", val="1.5f")), ensures={
            "looks_the_name_up_once_without_creating_it": "g_find_calls == 1 && g_find_add == 0",
            "absent_parameter_yields_the_default": "IMP(g_param == 0, %s)" % eq("RET", "$2"),
            "wrong_type_yields_the_default_and_is_not_marked_queried": "IMP(g_param != 0 && !%s, %s && g_param->query == g_q0)" % (isv, eq("RET", "$2")),
            "exact_type_returns_the_value_and_marks_it_queried": "IMP(g_param != 0 && %s, %s && g_param->query == 1)" % (isv, eq("RET", val)),
            "never_throws": "__verif_exc == 0"})
    P.fn("po_hasParam", pre_call=pre, requires=REQ + ["IMP(g_param != 0, g_param->query == g_q0)"], assigns=GA, ensures={
        "hasParam_is_presence_and_creates_nothing": "RET == (g_param != 0) && g_find_calls == 1 && g_find_add == 0",
        "hasParam_does_not_mark_queried": "IMP(g_param != 0, g_param->query == g_q0)"})
    P.fn("po_setParam_int", pre_call=pre + "  __CPROVER_assume(g_param != 0);\n", requires=REQ + ["g_param != 0", "g_param->query == g_q0"], assigns=GA, ensures={
        "setParam_creates_if_missing_and_stores_the_value_in_that_parameter": "g_find_calls == 1 && g_find_add == 1 && g_assign_calls == 1 && g_assigned_to == &g_param->data && g_assigned_val == *$2",
        "setParam_does_not_mark_queried": "g_param->query == g_q0"})
    return P


META = dict(
    technique='CBMC 6.11 function + loop contracts (dfcc) with ghost-index sequence specifications (FlatMap, unbounded); interface stubs (typed reads); bounded unwinding against exact specifications for the parameter list and a replayable erase variant',
    level="proof",
    level_text="FlatMap<int,int>'s lookup (both overloads), at (x2), operator[], contains, at_index (x2), size, empty, clear and the begin/end family are extracted from /repo and proved by CBMC function contracts for maps of ANY size (up to 2^40 entries): lookup returns the first entry with the key or end (loop contract on the std::find_if reference model), at throws std::out_of_range exactly when no entry has the key and otherwise returns the value slot of the first such entry, operator[] returns the slot of an entry with the key, leaves a present key's map unchanged, appends an absent key last with a value-initialised value while every earlier entry keeps its position and value, and keeps keys unique; at_index(i) is entry i in insertion order or out_of_range. Facts about all entries are proved at arbitrary ghost positions (verif_gi, verif_gj). erase is proved for maps of ANY size with loop contracts on a ghost-instrumented reference model of std::stable_partition: every entry without the key survives (at the recorded destination), survivors keep their relative order, every remaining entry is an old entry without the key (angelic ghost source), sources increase, no entry with the key remains, the size is the number kept, keys stay unique; the same operation is ALSO checked, for replayable counterexamples, by an exact bounded variant (maps of at most 4 entries quick / 6 thorough, loops unwound) against 'the result is the order-preserving filter of the old entries'.",
    level_note="fm_erase#bounded is a bounded stand-in kept for native replay; the proof of erase is the unbounded fm_erase (265 s, CaDiCaL). std::vector is a value-tracking MODEL whose reallocation step is an assumed contract instantiated at the ghost positions; std::find_if/std::stable_partition/std::partition are reference models (C code). Only the FlatMap<int,int> instantiation; the key reference must not point into the map's own storage (precondition). ParameterizedObject: the typed-read / query-flag logic of getParam<int|float>, hasParam and setParam<int> IS proved (unit c10_params) against interface stubs for findParam and utility::Any (is<T>/get<T>/operator=): a missing or wrongly typed parameter yields the default and leaves the query flag alone, an exactly typed one returns the value and marks it queried, setParam asks findParam to create and does not mark queried. findParam (first match / add-if-missing appends one fresh unqueried parameter / null), removeParam (removes the first match, the others keep their order, nothing else changes) and resetAllParamQueryStatus are checked by BOUNDED exact contracts (unit c10_paramlist: at most 3 parameters with names of at most 2 characters; bounded code models of std::string and std::vector, exact reference counting for std::shared_ptr; counterexamples replay natively). Reverse iterators are not under contract. Histories are covered by induction over operations: every operation preserves the representation invariant (well-formed storage, unique keys) that the next one requires.",
    explanation="CBMC function contracts with ghost-index sequence specifications; loop contracts on the find_if and (ghost-instrumented) stable_partition models; an additional bounded exact variant of erase for replay.",
    assumptions=["std::vector value-tracking model (reallocation = assumed contract at ghost indices)", "std::find_if / std::stable_partition / std::partition reference models", "key reference does not alias the map's storage", "map holds fewer than 2^40 entries", "allocation never fails"],
    bounded=["ParameterizedObject::findParam / removeParam / resetAllParamQueryStatus: at most 3 parameters, names of at most 2 characters, unwind 7", "fm_erase#bounded (additional exact variant for replay): maps of at most 4 (quick) / 6 (thorough) entries, loops unwound NB+2 times with unwinding assertions"],
    unverified=["utility::Any behind getParam (stubbed here; partially covered by C09)", "reverse iterators", "other KEY/VALUE instantiations (std::string keys)", "reserve (no-op in the model)"],
)
