"""C01: parallel loops run every index exactly once (sequential core: wrappers, block arithmetic, loop text)."""
from unit import Unit
from cxx2c import X, parse_type, Ty

PROBES = ["fni_call", "fnu8_call", "fnsz_call", "fnb_call", "fnp_call"]
STUBS = """
/* probe callbacks: count the invocations that concern an ARBITRARY ghost index g_k (g_kp for element pointers), so that
 * 'exactly once for every index, and for nothing else' needs no quantifier; every invocation outside [0,n) is an error */
long g_k, g_n;
unsigned long g_hits, g_calls;
int *g_kp, *g_lo;
void fni_call(FnI *f, int i) { __CPROVER_assert(i >= 0 && i < g_n, "CALLBACK invoked for an index outside [0,n)"); g_hits += (i == g_k); g_calls++; }
void fnu8_call(FnU8 *f, unsigned char i) { __CPROVER_assert(i < g_n, "CALLBACK invoked for an index outside [0,n)"); g_hits += (i == g_k); g_calls++; }
void fnsz_call(FnSz *f, unsigned long i) { __CPROVER_assert(i < (unsigned long)g_n, "CALLBACK invoked for an index outside [0,n)"); g_hits += ((long)i == g_k); g_calls++; }
void fnb_call(FnB *f, int b, int e)
{
  __CPROVER_assert(0 <= b && b < e && e <= g_n, "BLOCK callback receives a non-empty block inside [0,n)");
  __CPROVER_assert(e - b <= 16, "BLOCK no block is larger than the block size");
  g_hits += (b <= g_k && g_k < e); g_calls++;
}
void fnp_call(FnP *f, int *x)
{
  __CPROVER_assert(__CPROVER_same_object(x, g_lo) && __CPROVER_POINTER_OFFSET(x) >= __CPROVER_POINTER_OFFSET(g_lo) && (__CPROVER_POINTER_OFFSET(x) - __CPROVER_POINTER_OFFSET(g_lo)) / 4 < g_n, "CALLBACK invoked for an element outside [begin,end)");
  g_hits += (x == g_kp); g_calls++;
}
"""
TBB_STUBS = """
/* ASSUMED model of tbb::parallel_for(first, last, body): the body runs once for every index in [first,last) (here: serially) */
void verif_tbb_for_FnI(int first, int last, FnI *f)
{ for (int i = first; i < last; i++) __CPROVER_assigns(i, g_hits, g_calls) __CPROVER_loop_invariant(first <= i && (i <= last || last < first) && g_calls == __CPROVER_loop_entry(g_calls) + (i - first) && g_hits == __CPROVER_loop_entry(g_hits) + (g_k >= first && g_k < i)) __CPROVER_decreases(last - i) { fni_call(f, i); } }
void verif_tbb_for_FnSz(unsigned long first, unsigned long last, FnSz *f)
{ for (unsigned long i = first; i < last; i++) __CPROVER_assigns(i, g_hits, g_calls) __CPROVER_loop_invariant(first <= i && (i <= last || last < first) && g_calls == __CPROVER_loop_entry(g_calls) + (i - first) && g_hits == __CPROVER_loop_entry(g_hits) + (g_k >= 0 && (unsigned long)g_k >= first && (unsigned long)g_k < i)) __CPROVER_decreases(last - i) { fnsz_call(f, i); } }
"""
G = ["g_hits", "g_calls"]
PRE = ["g_hits == 0 && g_calls == 0"]
INIT = "  g_hits = 0; g_calls = 0; g_k = nondet_long(); g_n = (long)in_%s;\n"
ONCE = lambda n: "g_hits == ((g_k >= 0 && g_k < (long)%s) ? 1 : 0)" % n
TOTAL = lambda n: "g_calls == ((long)%s > 0 ? (unsigned long)%s : 0ul)" % (n, n)


def loop_i(n, idx="taskIndex", signed=True):
    lo = "%s >= 0 && " % idx if signed else ""
    neg = " || %s < 0" % n if signed else ""
    return {1: dict(assigns=[idx] + G, invariant=["%s(%s <= %s%s)" % (lo, idx, n, neg), "g_calls == (unsigned long)%s" % idx, "g_hits == ((g_k >= 0 && g_k < (long)%s) ? 1 : 0)" % idx],
                    decreases="%s - %s" % (n, idx))}


def tbb_model(tr, fid, info, e, args, obj):
    fty = tr.ety(args[2])
    name = {"FnI": "verif_tbb_for_FnI", "FnSz": "verif_tbb_for_FnSz"}.get(tr.record_cname(fty.name) if fty.kind == "rec" else "")
    if name is None:
        from astload import ExtractionBreak
        n = args[2]
        while n.get("kind") in ("ImplicitCastExpr", "ParenExpr", "ExprWithCleanups", "MaterializeTemporaryExpr", "CXXBindTemporaryExpr", "CXXFunctionalCastExpr", "CXXConstructExpr") and n.get("inner"):
            n = n["inner"][0]
        it = tr.ety(args[0]).noref()
        if n.get("kind") == "LambdaExpr" and it.kind == "builtin":
            # a wrapper lambda handed to TBB: the same ASSUMED executor (every index of [first,last) once), running the lambda's own
            # call operator as extracted from /repo
            callop = tr.ast.E[n["id"]]["callop"]
            ccall = tr.request(callop)
            CL = tr.record_cname(fty.name)
            T = tr.ctype(it)
            ex = "verif_tbb_exec_" + ccall
            tr.stdlib.text["tbbexec:" + ccall] = (
                "extern long g_k; extern unsigned long g_hits, g_calls;\n"
                "void %s(%s first, %s last, %s *cl)\n{ for (%s i = first; i < last; i++) __CPROVER_assigns(i, g_hits, g_calls) "
                "__CPROVER_loop_invariant(first <= i && (i <= last || last < first) && g_calls == __CPROVER_loop_entry(g_calls) + (unsigned long)(i - first) && "
                "g_hits == __CPROVER_loop_entry(g_hits) + (g_k >= 0 && (%s)g_k >= first && (%s)g_k < i && (long)(%s)g_k == g_k)) __CPROVER_decreases(last - i) { %s(cl, i); } }\n"
                % (ex, T, T, CL, T, T, T, T, ccall))
            tr.rule("tbb::parallel_for over a wrapper lambda -> assumed executor model")
            tr.cur.calls[ex] = True
            tr.cur.calls[ccall] = True
            return X("call", ex, [tr.rv(args[0]), tr.rv(args[1]), tr.bind_ref(args[2])], ty=parse_type("void"))
        raise ExtractionBreak("tbb::parallel_for over '%s' has no model in this unit" % fty.key())
    tr.rule("tbb::parallel_for -> assumed executor model")
    tr.cur.calls[name] = True
    return X("call", name, [tr.rv(args[0]), tr.rv(args[1]), tr.bind_ref(args[2])], ty=parse_type("void"))


def units():
    us = []
    # ------------------------------------------------------------ serial debug backend (no tasking macro) = loop text of the OpenMP backend
    U = Unit("c01_debug", "units/c01_parallel.cpp", stubs=STUBS, opts=dict(stub_bodies=PROBES))
    for p in PROBES:
        U.stub(p, "probe callback counting invocations for an arbitrary ghost index; asserts every invocation lies inside [0,n)")
    U.fn("pf_serial_for_i32", pre_call=INIT % "nTasks", requires=PRE + ["g_n == (long)$0"], assigns=G, loops=loop_i("nTasks"),
         ensures={"every_index_exactly_once_and_nothing_else": ONCE("$0"), "count_le_zero_invokes_nothing__total_is_n": TOTAL("$0")})
    U.fn("pf_serial_for_u8", pre_call=INIT % "nTasks", requires=PRE + ["g_n == (long)$0"], assigns=G, loops=loop_i("nTasks", signed=False),
         ensures={"every_index_exactly_once_and_nothing_else": ONCE("$0"), "total_is_n": TOTAL("$0")})
    U.fn("pf_impl_i32", pre_call=INIT % "nTasks", requires=PRE + ["g_n == (long)$0"], assigns=G, loops=loop_i("nTasks"),
         ensures={"every_index_exactly_once_and_nothing_else": ONCE("$0"), "count_le_zero_invokes_nothing__total_is_n": TOTAL("$0")})
    U.fn("pf_impl_sz", pre_call=INIT % "nTasks", requires=PRE + ["g_n == (long)$0", "$0 <= 4611686018427387904ul"], assigns=G, loops=loop_i("nTasks", signed=False),
         ensures={"every_index_exactly_once_and_nothing_else": ONCE("$0"), "total_is_n": TOTAL("$0")})
    U.fn("pf_parallel_for_i32", pre_call=INIT % "nTasks", requires=PRE + ["g_n == (long)$0"], assigns=G,
         ensures={"every_index_exactly_once_and_nothing_else": ONCE("$0"), "count_le_zero_invokes_nothing__total_is_n": TOTAL("$0")})
    U.fn("pf_parallel_for_sz", pre_call=INIT % "nTasks", requires=PRE + ["g_n == (long)$0", "$0 <= 4611686018427387904ul"], assigns=G,
         ensures={"every_index_exactly_once_and_nothing_else": ONCE("$0"), "total_is_n": TOTAL("$0")})
    # ---- parallel_in_blocks_of<16>: closure, its executor loop, the wrapper
    LAM = "pf_blocks16_i32__lambda1"
    N = "(*$0->__cap0)"
    BLK_HIT = lambda b: "((long)%s * 16 <= g_k && g_k < ((long)%s * 16 + 16 < (long)%s ? (long)%s * 16 + 16 : (long)%s))" % (b, b, N, b, N)
    lam_state = """
  int the_n = nondet_int(); FnB the_f; o_self.__cap0 = &the_n; o_self.__cap1 = &the_f;
  g_hits = nondet_unsigned_long(); g_calls = nondet_unsigned_long(); g_k = nondet_long(); g_n = the_n;
  __CPROVER_assume(g_hits <= 1000 && g_calls <= 1000000000ul);
"""
    U.fn(LAM + "_op_call__i32_c", pre_call=lam_state, assigns=G,
         requires=["__CPROVER_r_ok($0->__cap0, sizeof(int)) && __CPROVER_r_ok($0->__cap1, sizeof(FnB))", "g_n == (long)%s" % N, "$1 >= 0 && (long)$1 * 16 < (long)%s" % N],
         ensures={"block_covers_exactly_the_indices_of_its_block": "g_hits == OLD(g_hits) + (%s ? 1 : 0)" % BLK_HIT("$1"), "one_callback_per_block": "g_calls == OLD(g_calls) + 1"})
    NN = "(*$1->__cap0)"
    NB = lambda n: "((long)%s <= 0 ? 0l : ((long)%s + 15) / 16)" % (n, n)
    COVER = lambda upto, n: "((g_k >= 0 && g_k < ((long)%s * 16 < (long)%s ? (long)%s * 16 : (long)%s)) ? 1 : 0)" % (upto, n, upto, n)
    exec_state = """
  int the_n = nondet_int(); FnB the_f; o_fcn.__cap0 = &the_n; o_fcn.__cap1 = &the_f;
  g_hits = 0; g_calls = 0; g_k = nondet_long(); g_n = the_n;
"""
    exec_req = PRE + ["__CPROVER_r_ok($1->__cap0, sizeof(int)) && __CPROVER_r_ok($1->__cap1, sizeof(FnB))", "g_n == (long)%s" % NN, "((long)%s <= 0 && $0 <= 0) || ((long)%s > 0 && (long)$0 == %s)" % (NN, NN, NB(NN))]
    exec_ens = {"blocks_exactly_partition_0_n": "g_hits == ((g_k >= 0 && g_k < (long)%s) ? 1 : 0)" % NN, "one_callback_per_block": "g_calls == (unsigned long)%s" % NB(NN)}
    U.fn("detail_parallel_for_impl__i32_" + LAM, pre_call=exec_state, requires=exec_req, assigns=G, ensures=exec_ens,
         loops={1: dict(assigns=["taskIndex"] + G, invariant=["taskIndex >= 0 && taskIndex <= nTasks", "g_calls == (unsigned long)taskIndex", "g_hits == %s" % COVER("taskIndex", "(*fcn->__cap0)")],
                        decreases="nTasks - taskIndex")})
    U.fn("parallel_for__i32_" + LAM, pre_call=exec_state, requires=exec_req, assigns=G, ensures=exec_ens)
    U.fn("pf_blocks16_i32", pre_call=INIT % "nTasks", requires=PRE + ["g_n == (long)$0"], assigns=G,
         ensures={"blocks_exactly_partition_0_n__every_index_in_exactly_one_block": ONCE("$0"), "count_le_zero_invokes_nothing": "IMP($0 <= 0, g_calls == 0)"})
    us.append(U)
    # ------------------------------------------------------------ TBB backend: the wrapper hands (0, n, fcn) to tbb::parallel_for
    T = Unit("c01_tbb", "units/c01_parallel.cpp", defines=["RKCOMMON_TASKING_TBB"], stubs=STUBS + TBB_STUBS,
             opts=dict(stub_bodies=PROBES, models={"tbb::detail::d1::parallel_for": tbb_model}, only=["pf_impl_i32", "pf_impl_sz", "pf_parallel_for_i32", "pf_parallel_for_sz"] + PROBES))
    T.stub("tbb::parallel_for", "ASSUMED: runs the body exactly once for every index in [first,last) and returns after all of them (the property itself, for the TBB runtime)")
    for nm, req in (("pf_impl_i32", []), ("pf_impl_sz", ["$0 <= 4611686018427387904ul"]), ("pf_parallel_for_i32", []), ("pf_parallel_for_sz", ["$0 <= 4611686018427387904ul"])):
        T.fn(nm, pre_call=INIT % "nTasks", requires=PRE + ["g_n == (long)$0"] + req, assigns=G, apply_loops=nm.startswith("pf_impl"),
             ensures={"tbb_is_handed_exactly_the_range_0_n": ONCE("$0"), "total_is_n": TOTAL("$0")})
    us.append(T)
    return us


META = dict(
    technique="CBMC 6.11 function contracts (goto-instrument --dfcc, loop contracts) on C extracted mechanically from clang's AST of /repo; TBB parallel_for as an interface model",
    level="proof",
    level_text="Sequential core of the parallel loops, extracted from /repo for the serial-debug backend (whose loop text is also the OpenMP backend's loop) and for the TBB wrapper: with probe callbacks that count invocations for an arbitrary ghost index and assert every invocation lies in [0,n), serial_for / parallel_for / parallel_for_impl are proved by loop contracts (any iteration count) to invoke the callback exactly once for every index in [0,n), for nothing else, and not at all for n <= 0, for int, unsigned char and size_t indices; parallel_in_blocks_of<16> is proved, through the closure's own contract and a loop contract on its executor, to call the block callback with non-empty blocks of at most 16 indices that exactly partition [0,n); parallel_foreach's closure and count are extracted with it. The TBB wrapper is proved to hand exactly (0, n, fcn) to tbb::parallel_for.",
    level_note="NOT proved (contracts are sequential): the TBB and OpenMP runtimes themselves (assumed to run each index once and join), visibility of effects at the join under real threads, nesting, the internal enkiTS backend (parallel_for_internal, task splitting, lock-free pipe) -- all listed as assumptions. ",
    assumptions=["tbb::parallel_for / OpenMP runtime: each index exactly once, joined before return (assumed)", "probe callbacks commute (order of invocations irrelevant)"],
    unverified=["internal (enkiTS) backend", "memory visibility at the join", "nested parallel loops", "parallel_foreach over non-pointer iterators"],
)
