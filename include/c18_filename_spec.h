/* Specification functions for C18 / FileName, written from the property statement ("FileName decomposes as path()+base()
 * with base() == name() plus '.'+ext() taken from the last component only, and dropExt/setExt/addExt/operator+ recompose
 * accordingly"), over a small value type.  Plain C99 that is also valid C++: the same text is used inside the CBMC
 * contracts and in the native replay program. */
#ifndef C18_FILENAME_SPEC_H
#define C18_FILENAME_SPEC_H
#ifndef RS_CAP
#define RS_CAP 16
#endif
typedef struct { char c[RS_CAP]; unsigned long n; } rs;
static rs rs_empty(void) { rs r; unsigned long i; r.n = 0; for (i = 0; i < RS_CAP; i++) r.c[i] = 0; return r; }
static rs rs_make(const char *p, unsigned long n) { rs r = rs_empty(); unsigned long i; for (i = 0; i < n && i < RS_CAP; i++) r.c[i] = p[i]; r.n = n; return r; }
static long rs_last(rs s, char ch) { long i; for (i = (long)s.n - 1; i >= 0; i--) if (s.c[i] == ch) return i; return -1; }
static rs rs_slice(rs s, unsigned long a, unsigned long b) { rs r = rs_empty(); unsigned long i; if (b > s.n) b = s.n; if (a > b) a = b; for (i = a; i < b; i++) r.c[i - a] = s.c[i]; r.n = b - a; return r; }
static rs rs_cat(rs a, rs b) { rs r = a; unsigned long i; for (i = 0; i < b.n; i++) if (a.n + i < RS_CAP) r.c[a.n + i] = b.c[i]; r.n = a.n + b.n; return r; }
static rs rs_char(char ch) { rs r = rs_empty(); r.c[0] = ch; r.n = 1; return r; }
/* what the FileName constructors do: both separators become '/', trailing separators are dropped */
static rs rs_norm(rs s) { unsigned long i; for (i = 0; i < s.n && i < RS_CAP; i++) if (s.c[i] == '\\') s.c[i] = '/'; while (s.n > 0 && s.n <= RS_CAP && s.c[s.n - 1] == '/') { s.c[s.n - 1] = 0; s.n--; } return s; }
static int rs_same(rs a, const char *p, unsigned long n) { unsigned long i; if (a.n != n) return 0; for (i = 0; i < n && i < RS_CAP; i++) if (a.c[i] != p[i]) return 0; return 1; }
static long rs_sep(rs s) { return rs_last(s, '/'); }
static long rs_dot(rs s) { long d = rs_last(s, '.'), p = rs_sep(s); return d > p ? d : -1; }   /* the dot of the LAST component only */
static rs spec_path(rs s) { long p = rs_sep(s); return p < 0 ? rs_empty() : rs_slice(s, 0, (unsigned long)p + 1); }
static rs spec_base(rs s) { return rs_slice(s, (unsigned long)(rs_sep(s) + 1), s.n); }
static rs spec_name(rs s) { long d = rs_dot(s); return rs_slice(s, (unsigned long)(rs_sep(s) + 1), d < 0 ? s.n : (unsigned long)d); }
static rs spec_ext(rs s) { long d = rs_dot(s); return d < 0 ? rs_empty() : rs_slice(s, (unsigned long)d + 1, s.n); }
static rs spec_dropExt(rs s) { long d = rs_dot(s); return rs_norm(d < 0 ? s : rs_slice(s, 0, (unsigned long)d)); }
static rs spec_setExt(rs s, rs e) { long d = rs_dot(s); return rs_norm(rs_cat(d < 0 ? s : rs_slice(s, 0, (unsigned long)d), e)); }
static rs spec_addExt(rs s, rs e) { return rs_norm(rs_cat(s, e)); }
static rs spec_plus(rs s, rs o) { return s.n == 0 ? o : rs_norm(rs_cat(rs_cat(s, rs_char('/')), o)); }
#endif
