/* Prelude of every generated C unit.  Part of the trusted base: reference
 * models of the handful of std:: functions rkcommon's leaf code calls.
 * Under CBMC (VERIF_CBMC defined) contracts are live; natively they vanish. */
#ifndef VERIF_PRELUDE_H
#define VERIF_PRELUDE_H
#ifndef VERIF_CBMC
#define __CPROVER_requires(x)
#define __CPROVER_ensures(x)
#define __CPROVER_assigns(...)
#define __CPROVER_frees(...)
#define __CPROVER_loop_invariant(x)
#define __CPROVER_decreases(x)
#ifndef VERIF_REPLAY
#define __CPROVER_assert(c, m) ((void)0)
#define __CPROVER_assume(c) ((void)0)
#endif
#else
typedef unsigned long size_t;
#endif
#ifdef VERIF_CBMC
/* same floating-point value: identical bits, or both NaN */
#define FEQ(x, y) (__CPROVER_equal(x, y) || ((x) != (x) && (y) != (y)))
#define NOOVF_PLUS(a, b) (!__CPROVER_overflow_plus(a, b))
#define NOOVF_MINUS(a, b) (!__CPROVER_overflow_minus(a, b))
#define NOOVF_MULT(a, b) (!__CPROVER_overflow_mult(a, b))
#else
#define FEQ(x, y) ({ __typeof__(x) x__ = (x); __typeof__(y) y__ = (y); (sizeof(x__) == sizeof(y__) && __builtin_memcmp(&x__, &y__, sizeof(x__)) == 0) || (x__ != x__ && y__ != y__); })
#define NOOVF_PLUS(a, b) ({ __typeof__((a) + (b)) r__; !__builtin_add_overflow(a, b, &r__); })
#define NOOVF_MINUS(a, b) ({ __typeof__((a) - (b)) r__; !__builtin_sub_overflow(a, b, &r__); })
#define NOOVF_MULT(a, b) ({ __typeof__((a) * (b)) r__; !__builtin_mul_overflow(a, b, &r__); })
#endif
#define IMP(a, b) (!(a) || (b))
#define IFF(a, b) (((a) != 0) == ((b) != 0))

#define VERIF_MINMAX(T, S)                                                        \
  static inline const T *verif_std_min_##S(const T *a, const T *b)                \
  {                                                                               \
    return (*b < *a) ? b : a;                                                     \
  }                                                                               \
  static inline const T *verif_std_max_##S(const T *a, const T *b)                \
  {                                                                               \
    return (*a < *b) ? b : a;                                                     \
  }
VERIF_MINMAX(char, char)
VERIF_MINMAX(signed char, schar)
VERIF_MINMAX(unsigned char, uchar)
VERIF_MINMAX(short, short)
VERIF_MINMAX(unsigned short, ushort)
VERIF_MINMAX(int, int)
VERIF_MINMAX(unsigned int, uint)
VERIF_MINMAX(long, long)
VERIF_MINMAX(unsigned long, ulong)
VERIF_MINMAX(long long, llong)
VERIF_MINMAX(unsigned long long, ullong)
VERIF_MINMAX(float, float)
VERIF_MINMAX(double, double)

static inline int verif_abs_i(int x) { return x < 0 ? -x : x; }
static inline long verif_abs_l(long x) { return x < 0 ? -x : x; }
static inline long long verif_abs_ll(long long x) { return x < 0 ? -x : x; }


/* commutative operations (add, mul) are abstracted as h(a,b) | h(b,a) with h uninterpreted: symmetric by construction
 * (a harmless operand swap is not an alarm) and sound (the machine operation is the instance h = op). */
/* scalar arithmetic as uninterpreted functions (units with opts uf_arith / uf_float): a sound abstraction --
 * what is proved for every interpretation of these symbols holds for the machine operations */
#ifdef VERIF_CBMC
static inline unsigned verif_bits_f32(float x) { union { float f; unsigned u; } v; v.f = x; return v.u; }
static inline unsigned long verif_bits_f64(double x) { union { double f; unsigned long u; } v; v.f = x; return v.u; }
static inline _Bool verif_signbit_f32(float x) { return (verif_bits_f32(x) >> 31) != 0; }
static inline _Bool verif_signbit_f64(double x) { return (verif_bits_f64(x) >> 63) != 0; }
int __CPROVER_uninterpreted_add_i32(int, int);
static inline int verif_add_i32(int a, int b) { return __CPROVER_uninterpreted_add_i32(a, b) | __CPROVER_uninterpreted_add_i32(b, a); }
unsigned int __CPROVER_uninterpreted_add_u32(unsigned int, unsigned int);
static inline unsigned int verif_add_u32(unsigned int a, unsigned int b) { return __CPROVER_uninterpreted_add_u32(a, b) | __CPROVER_uninterpreted_add_u32(b, a); }
long __CPROVER_uninterpreted_add_i64(long, long);
static inline long verif_add_i64(long a, long b) { return __CPROVER_uninterpreted_add_i64(a, b) | __CPROVER_uninterpreted_add_i64(b, a); }
unsigned long __CPROVER_uninterpreted_add_u64(unsigned long, unsigned long);
static inline unsigned long verif_add_u64(unsigned long a, unsigned long b) { return __CPROVER_uninterpreted_add_u64(a, b) | __CPROVER_uninterpreted_add_u64(b, a); }
float __CPROVER_uninterpreted_add_f32(float, float);
static inline float verif_add_f32(float a, float b) { union { float f; unsigned u; } x__, y__, r__; x__.f = __CPROVER_uninterpreted_add_f32(a, b); y__.f = __CPROVER_uninterpreted_add_f32(b, a); r__.u = x__.u | y__.u; return r__.f; }
double __CPROVER_uninterpreted_add_f64(double, double);
static inline double verif_add_f64(double a, double b) { union { double f; unsigned long u; } x__, y__, r__; x__.f = __CPROVER_uninterpreted_add_f64(a, b); y__.f = __CPROVER_uninterpreted_add_f64(b, a); r__.u = x__.u | y__.u; return r__.f; }
int __CPROVER_uninterpreted_sub_i32(int, int);
#define verif_sub_i32(a, b) __CPROVER_uninterpreted_sub_i32(a, b)
unsigned int __CPROVER_uninterpreted_sub_u32(unsigned int, unsigned int);
#define verif_sub_u32(a, b) __CPROVER_uninterpreted_sub_u32(a, b)
long __CPROVER_uninterpreted_sub_i64(long, long);
#define verif_sub_i64(a, b) __CPROVER_uninterpreted_sub_i64(a, b)
unsigned long __CPROVER_uninterpreted_sub_u64(unsigned long, unsigned long);
#define verif_sub_u64(a, b) __CPROVER_uninterpreted_sub_u64(a, b)
float __CPROVER_uninterpreted_sub_f32(float, float);
#define verif_sub_f32(a, b) __CPROVER_uninterpreted_sub_f32(a, b)
double __CPROVER_uninterpreted_sub_f64(double, double);
#define verif_sub_f64(a, b) __CPROVER_uninterpreted_sub_f64(a, b)
int __CPROVER_uninterpreted_mul_i32(int, int);
static inline int verif_mul_i32(int a, int b) { return __CPROVER_uninterpreted_mul_i32(a, b) | __CPROVER_uninterpreted_mul_i32(b, a); }
unsigned int __CPROVER_uninterpreted_mul_u32(unsigned int, unsigned int);
static inline unsigned int verif_mul_u32(unsigned int a, unsigned int b) { return __CPROVER_uninterpreted_mul_u32(a, b) | __CPROVER_uninterpreted_mul_u32(b, a); }
long __CPROVER_uninterpreted_mul_i64(long, long);
static inline long verif_mul_i64(long a, long b) { return __CPROVER_uninterpreted_mul_i64(a, b) | __CPROVER_uninterpreted_mul_i64(b, a); }
unsigned long __CPROVER_uninterpreted_mul_u64(unsigned long, unsigned long);
static inline unsigned long verif_mul_u64(unsigned long a, unsigned long b) { return __CPROVER_uninterpreted_mul_u64(a, b) | __CPROVER_uninterpreted_mul_u64(b, a); }
float __CPROVER_uninterpreted_mul_f32(float, float);
static inline float verif_mul_f32(float a, float b) { union { float f; unsigned u; } x__, y__, r__; x__.f = __CPROVER_uninterpreted_mul_f32(a, b); y__.f = __CPROVER_uninterpreted_mul_f32(b, a); r__.u = x__.u | y__.u; return r__.f; }
double __CPROVER_uninterpreted_mul_f64(double, double);
static inline double verif_mul_f64(double a, double b) { union { double f; unsigned long u; } x__, y__, r__; x__.f = __CPROVER_uninterpreted_mul_f64(a, b); y__.f = __CPROVER_uninterpreted_mul_f64(b, a); r__.u = x__.u | y__.u; return r__.f; }
int __CPROVER_uninterpreted_div_i32(int, int);
#define verif_div_i32(a, b) __CPROVER_uninterpreted_div_i32(a, b)
unsigned int __CPROVER_uninterpreted_div_u32(unsigned int, unsigned int);
#define verif_div_u32(a, b) __CPROVER_uninterpreted_div_u32(a, b)
long __CPROVER_uninterpreted_div_i64(long, long);
#define verif_div_i64(a, b) __CPROVER_uninterpreted_div_i64(a, b)
unsigned long __CPROVER_uninterpreted_div_u64(unsigned long, unsigned long);
#define verif_div_u64(a, b) __CPROVER_uninterpreted_div_u64(a, b)
float __CPROVER_uninterpreted_div_f32(float, float);
#define verif_div_f32(a, b) __CPROVER_uninterpreted_div_f32(a, b)
double __CPROVER_uninterpreted_div_f64(double, double);
#define verif_div_f64(a, b) __CPROVER_uninterpreted_div_f64(a, b)
int __CPROVER_uninterpreted_mod_i32(int, int);
#define verif_mod_i32(a, b) __CPROVER_uninterpreted_mod_i32(a, b)
unsigned int __CPROVER_uninterpreted_mod_u32(unsigned int, unsigned int);
#define verif_mod_u32(a, b) __CPROVER_uninterpreted_mod_u32(a, b)
long __CPROVER_uninterpreted_mod_i64(long, long);
#define verif_mod_i64(a, b) __CPROVER_uninterpreted_mod_i64(a, b)
unsigned long __CPROVER_uninterpreted_mod_u64(unsigned long, unsigned long);
#define verif_mod_u64(a, b) __CPROVER_uninterpreted_mod_u64(a, b)
#else
#define verif_add_i32(a, b) ((int)((int)(a) + (int)(b)))
#define verif_add_u32(a, b) ((unsigned int)((unsigned int)(a) + (unsigned int)(b)))
#define verif_add_i64(a, b) ((long)((long)(a) + (long)(b)))
#define verif_add_u64(a, b) ((unsigned long)((unsigned long)(a) + (unsigned long)(b)))
#define verif_add_f32(a, b) ((float)((float)(a) + (float)(b)))
#define verif_add_f64(a, b) ((double)((double)(a) + (double)(b)))
#define verif_sub_i32(a, b) ((int)((int)(a) - (int)(b)))
#define verif_sub_u32(a, b) ((unsigned int)((unsigned int)(a) - (unsigned int)(b)))
#define verif_sub_i64(a, b) ((long)((long)(a) - (long)(b)))
#define verif_sub_u64(a, b) ((unsigned long)((unsigned long)(a) - (unsigned long)(b)))
#define verif_sub_f32(a, b) ((float)((float)(a) - (float)(b)))
#define verif_sub_f64(a, b) ((double)((double)(a) - (double)(b)))
#define verif_mul_i32(a, b) ((int)((int)(a) * (int)(b)))
#define verif_mul_u32(a, b) ((unsigned int)((unsigned int)(a) * (unsigned int)(b)))
#define verif_mul_i64(a, b) ((long)((long)(a) * (long)(b)))
#define verif_mul_u64(a, b) ((unsigned long)((unsigned long)(a) * (unsigned long)(b)))
#define verif_mul_f32(a, b) ((float)((float)(a) * (float)(b)))
#define verif_mul_f64(a, b) ((double)((double)(a) * (double)(b)))
#define verif_div_i32(a, b) ((int)((int)(a) / (int)(b)))
#define verif_div_u32(a, b) ((unsigned int)((unsigned int)(a) / (unsigned int)(b)))
#define verif_div_i64(a, b) ((long)((long)(a) / (long)(b)))
#define verif_div_u64(a, b) ((unsigned long)((unsigned long)(a) / (unsigned long)(b)))
#define verif_div_f32(a, b) ((float)((float)(a) / (float)(b)))
#define verif_div_f64(a, b) ((double)((double)(a) / (double)(b)))
#define verif_mod_i32(a, b) ((int)((int)(a) % (int)(b)))
#define verif_mod_u32(a, b) ((unsigned int)((unsigned int)(a) % (unsigned int)(b)))
#define verif_mod_i64(a, b) ((long)((long)(a) % (long)(b)))
#define verif_mod_u64(a, b) ((unsigned long)((unsigned long)(a) % (unsigned long)(b)))
#endif

/* libm: uninterpreted function symbols under CBMC (assumed: deterministic functions of their arguments, nothing else);
 * round/floor/ceil/trunc use CBMC's own C-library models */
#ifdef VERIF_CBMC
float __CPROVER_uninterpreted_sqrtf(float);
#define verif_sqrtf(x) __CPROVER_uninterpreted_sqrtf(x)
double __CPROVER_uninterpreted_sqrt(double);
#define verif_sqrt(x) __CPROVER_uninterpreted_sqrt(x)
float __CPROVER_uninterpreted_sinf(float);
#define verif_sinf(x) __CPROVER_uninterpreted_sinf(x)
double __CPROVER_uninterpreted_sin(double);
#define verif_sin(x) __CPROVER_uninterpreted_sin(x)
float __CPROVER_uninterpreted_cosf(float);
#define verif_cosf(x) __CPROVER_uninterpreted_cosf(x)
double __CPROVER_uninterpreted_cos(double);
#define verif_cos(x) __CPROVER_uninterpreted_cos(x)
float __CPROVER_uninterpreted_tanf(float);
#define verif_tanf(x) __CPROVER_uninterpreted_tanf(x)
double __CPROVER_uninterpreted_tan(double);
#define verif_tan(x) __CPROVER_uninterpreted_tan(x)
float __CPROVER_uninterpreted_acosf(float);
#define verif_acosf(x) __CPROVER_uninterpreted_acosf(x)
double __CPROVER_uninterpreted_acos(double);
#define verif_acos(x) __CPROVER_uninterpreted_acos(x)
float __CPROVER_uninterpreted_asinf(float);
#define verif_asinf(x) __CPROVER_uninterpreted_asinf(x)
double __CPROVER_uninterpreted_asin(double);
#define verif_asin(x) __CPROVER_uninterpreted_asin(x)
float __CPROVER_uninterpreted_atanf(float);
#define verif_atanf(x) __CPROVER_uninterpreted_atanf(x)
double __CPROVER_uninterpreted_atan(double);
#define verif_atan(x) __CPROVER_uninterpreted_atan(x)
float __CPROVER_uninterpreted_expf(float);
#define verif_expf(x) __CPROVER_uninterpreted_expf(x)
double __CPROVER_uninterpreted_exp(double);
#define verif_exp(x) __CPROVER_uninterpreted_exp(x)
float __CPROVER_uninterpreted_logf(float);
#define verif_logf(x) __CPROVER_uninterpreted_logf(x)
double __CPROVER_uninterpreted_log(double);
#define verif_log(x) __CPROVER_uninterpreted_log(x)
float __CPROVER_uninterpreted_powf(float, float);
#define verif_powf(x, y) __CPROVER_uninterpreted_powf(x, y)
double __CPROVER_uninterpreted_pow(double, double);
#define verif_pow(x, y) __CPROVER_uninterpreted_pow(x, y)
float __CPROVER_uninterpreted_fmodf(float, float);
#define verif_fmodf(x, y) __CPROVER_uninterpreted_fmodf(x, y)
double __CPROVER_uninterpreted_fmod(double, double);
#define verif_fmod(x, y) __CPROVER_uninterpreted_fmod(x, y)
float __CPROVER_uninterpreted_atan2f(float, float);
#define verif_atan2f(x, y) __CPROVER_uninterpreted_atan2f(x, y)
double __CPROVER_uninterpreted_atan2(double, double);
#define verif_atan2(x, y) __CPROVER_uninterpreted_atan2(x, y)
float roundf(float);
double round(double);
#define verif_roundf(x) roundf(x)
#define verif_round(x) round(x)
float floorf(float);
double floor(double);
#define verif_floorf(x) floorf(x)
#define verif_floor(x) floor(x)
float ceilf(float);
double ceil(double);
#define verif_ceilf(x) ceilf(x)
#define verif_ceil(x) ceil(x)
float truncf(float);
double trunc(double);
#define verif_truncf(x) truncf(x)
#define verif_trunc(x) trunc(x)
/* makes goto-instrument --add-library link CBMC's models even when they are only used inside contract clauses */
static inline void verif_lib_anchor(void) { float f__ = roundf(0.5f) + floorf(0.5f) + ceilf(0.5f) + truncf(0.5f); double d__ = round(0.5) + floor(0.5) + ceil(0.5) + trunc(0.5); (void)f__; (void)d__; }
#else
#define verif_lib_anchor() ((void)0)
#define verif_sqrtf(x) __builtin_sqrtf(x)
#define verif_sqrt(x) __builtin_sqrt(x)
#define verif_sinf(x) __builtin_sinf(x)
#define verif_sin(x) __builtin_sin(x)
#define verif_cosf(x) __builtin_cosf(x)
#define verif_cos(x) __builtin_cos(x)
#define verif_tanf(x) __builtin_tanf(x)
#define verif_tan(x) __builtin_tan(x)
#define verif_acosf(x) __builtin_acosf(x)
#define verif_acos(x) __builtin_acos(x)
#define verif_asinf(x) __builtin_asinf(x)
#define verif_asin(x) __builtin_asin(x)
#define verif_atanf(x) __builtin_atanf(x)
#define verif_atan(x) __builtin_atan(x)
#define verif_expf(x) __builtin_expf(x)
#define verif_exp(x) __builtin_exp(x)
#define verif_logf(x) __builtin_logf(x)
#define verif_log(x) __builtin_log(x)
#define verif_roundf(x) __builtin_roundf(x)
#define verif_round(x) __builtin_round(x)
#define verif_floorf(x) __builtin_floorf(x)
#define verif_floor(x) __builtin_floor(x)
#define verif_ceilf(x) __builtin_ceilf(x)
#define verif_ceil(x) __builtin_ceil(x)
#define verif_truncf(x) __builtin_truncf(x)
#define verif_trunc(x) __builtin_trunc(x)
#define verif_powf(x, y) __builtin_powf(x, y)
#define verif_pow(x, y) __builtin_pow(x, y)
#define verif_fmodf(x, y) __builtin_fmodf(x, y)
#define verif_fmod(x, y) __builtin_fmod(x, y)
#define verif_atan2f(x, y) __builtin_atan2f(x, y)
#define verif_atan2(x, y) __builtin_atan2(x, y)
#endif

/* std model support */
#ifndef VERIF_REPLAY
extern unsigned long verif_sp_dest_i, verif_sp_dest_j, verif_sp_src_i, verif_sp_src_j, verif_sp_kept; /* ghost bookkeeping of the std::stable_partition model */
extern unsigned long verif_mm; /* ghost: position at which the last std::mismatch / std::equal model stopped */
extern unsigned long verif_gi, verif_gj, verif_hi, verif_hj; /* ghost indices: contracts over sequences are stated at these arbitrary positions */
extern unsigned long verif_atomic_ops; /* ghost: number of atomic accesses performed (atomic discipline) */
#endif
typedef struct verif_ctrl { long cnt; } verif_ctrl;
#ifdef VERIF_CBMC
void *malloc(size_t);
void free(void *);
/* allocation never fails (assumption listed in the evidence) */
static inline void *verif_malloc(size_t n) { void *p = malloc(n); __CPROVER_assume(p != 0); return p; }
/* iterator-range members of an opaque std::string (assign / append (first, last)): the standard requires [first, last) to be a valid range */
static inline void verif_std_valid_range(const char *first, const char *last)
{
  __CPROVER_assert(__CPROVER_same_object(first, last) && __CPROVER_POINTER_OFFSET(first) <= __CPROVER_POINTER_OFFSET(last), "STD [first, last) handed to a std::string range operation is a valid range");
}
#else
#include <stdlib.h>
#define verif_malloc(n) malloc(n)
#define verif_std_valid_range(a, b) ((void)0)
#endif

/* exceptions: class tag of the exception in flight (0 = none) */
#ifndef VERIF_REPLAY
extern int __verif_exc;
#endif
#endif
