/* Prelude of every generated C unit.  Part of the trusted base: reference
 * models of the handful of std:: functions rkcommon's leaf code calls.
 * Under CBMC (VERIF_CBMC defined) contracts are live; natively they vanish. */
#ifndef VERIF_PRELUDE_H
#define VERIF_PRELUDE_H
#ifndef VERIF_CBMC
#define __CPROVER_requires(x)
#define __CPROVER_ensures(x)
#define __CPROVER_assigns(...)
#define __CPROVER_frees(...)
#define __CPROVER_loop_invariant(x)
#define __CPROVER_decreases(x)
#define __CPROVER_assert(c, m) ((void)0)
#define __CPROVER_assume(c) ((void)0)
#endif
typedef unsigned long size_t;
#ifdef VERIF_CBMC
/* same floating-point value: identical bits, or both NaN */
#define FEQ(x, y) (__CPROVER_equal(x, y) || ((x) != (x) && (y) != (y)))
#define NOOVF_PLUS(a, b) (!__CPROVER_overflow_plus(a, b))
#define NOOVF_MINUS(a, b) (!__CPROVER_overflow_minus(a, b))
#define NOOVF_MULT(a, b) (!__CPROVER_overflow_mult(a, b))
#else
#define FEQ(x, y) ({ __typeof__(x) x__ = (x); __typeof__(y) y__ = (y); (sizeof(x__) == sizeof(y__) && __builtin_memcmp(&x__, &y__, sizeof(x__)) == 0) || (x__ != x__ && y__ != y__); })
#define NOOVF_PLUS(a, b) ({ __typeof__((a) + (b)) r__; !__builtin_add_overflow(a, b, &r__); })
#define NOOVF_MINUS(a, b) ({ __typeof__((a) - (b)) r__; !__builtin_sub_overflow(a, b, &r__); })
#define NOOVF_MULT(a, b) ({ __typeof__((a) * (b)) r__; !__builtin_mul_overflow(a, b, &r__); })
#endif
#define IMP(a, b) (!(a) || (b))
#define IFF(a, b) (((a) != 0) == ((b) != 0))

#define VERIF_MINMAX(T, S)                                                        \
  static inline const T *verif_std_min_##S(const T *a, const T *b)                \
  {                                                                               \
    return (*b < *a) ? b : a;                                                     \
  }                                                                               \
  static inline const T *verif_std_max_##S(const T *a, const T *b)                \
  {                                                                               \
    return (*a < *b) ? b : a;                                                     \
  }
VERIF_MINMAX(char, char)
VERIF_MINMAX(signed char, schar)
VERIF_MINMAX(unsigned char, uchar)
VERIF_MINMAX(short, short)
VERIF_MINMAX(unsigned short, ushort)
VERIF_MINMAX(int, int)
VERIF_MINMAX(unsigned int, uint)
VERIF_MINMAX(long, long)
VERIF_MINMAX(unsigned long, ulong)
VERIF_MINMAX(long long, llong)
VERIF_MINMAX(unsigned long long, ullong)
VERIF_MINMAX(float, float)
VERIF_MINMAX(double, double)

static inline int verif_abs_i(int x) { return x < 0 ? -x : x; }
static inline long verif_abs_l(long x) { return x < 0 ? -x : x; }
static inline long long verif_abs_ll(long long x) { return x < 0 ? -x : x; }


/* scalar arithmetic as uninterpreted functions (units with opts uf_arith / uf_float): a sound abstraction --
 * what is proved for every interpretation of these symbols holds for the machine operations */
#ifdef VERIF_CBMC
int __CPROVER_uninterpreted_add_i32(int, int);
#define verif_add_i32(a, b) __CPROVER_uninterpreted_add_i32(a, b)
unsigned int __CPROVER_uninterpreted_add_u32(unsigned int, unsigned int);
#define verif_add_u32(a, b) __CPROVER_uninterpreted_add_u32(a, b)
long __CPROVER_uninterpreted_add_i64(long, long);
#define verif_add_i64(a, b) __CPROVER_uninterpreted_add_i64(a, b)
unsigned long __CPROVER_uninterpreted_add_u64(unsigned long, unsigned long);
#define verif_add_u64(a, b) __CPROVER_uninterpreted_add_u64(a, b)
float __CPROVER_uninterpreted_add_f32(float, float);
#define verif_add_f32(a, b) __CPROVER_uninterpreted_add_f32(a, b)
double __CPROVER_uninterpreted_add_f64(double, double);
#define verif_add_f64(a, b) __CPROVER_uninterpreted_add_f64(a, b)
int __CPROVER_uninterpreted_sub_i32(int, int);
#define verif_sub_i32(a, b) __CPROVER_uninterpreted_sub_i32(a, b)
unsigned int __CPROVER_uninterpreted_sub_u32(unsigned int, unsigned int);
#define verif_sub_u32(a, b) __CPROVER_uninterpreted_sub_u32(a, b)
long __CPROVER_uninterpreted_sub_i64(long, long);
#define verif_sub_i64(a, b) __CPROVER_uninterpreted_sub_i64(a, b)
unsigned long __CPROVER_uninterpreted_sub_u64(unsigned long, unsigned long);
#define verif_sub_u64(a, b) __CPROVER_uninterpreted_sub_u64(a, b)
float __CPROVER_uninterpreted_sub_f32(float, float);
#define verif_sub_f32(a, b) __CPROVER_uninterpreted_sub_f32(a, b)
double __CPROVER_uninterpreted_sub_f64(double, double);
#define verif_sub_f64(a, b) __CPROVER_uninterpreted_sub_f64(a, b)
int __CPROVER_uninterpreted_mul_i32(int, int);
#define verif_mul_i32(a, b) __CPROVER_uninterpreted_mul_i32(a, b)
unsigned int __CPROVER_uninterpreted_mul_u32(unsigned int, unsigned int);
#define verif_mul_u32(a, b) __CPROVER_uninterpreted_mul_u32(a, b)
long __CPROVER_uninterpreted_mul_i64(long, long);
#define verif_mul_i64(a, b) __CPROVER_uninterpreted_mul_i64(a, b)
unsigned long __CPROVER_uninterpreted_mul_u64(unsigned long, unsigned long);
#define verif_mul_u64(a, b) __CPROVER_uninterpreted_mul_u64(a, b)
float __CPROVER_uninterpreted_mul_f32(float, float);
#define verif_mul_f32(a, b) __CPROVER_uninterpreted_mul_f32(a, b)
double __CPROVER_uninterpreted_mul_f64(double, double);
#define verif_mul_f64(a, b) __CPROVER_uninterpreted_mul_f64(a, b)
int __CPROVER_uninterpreted_div_i32(int, int);
#define verif_div_i32(a, b) __CPROVER_uninterpreted_div_i32(a, b)
unsigned int __CPROVER_uninterpreted_div_u32(unsigned int, unsigned int);
#define verif_div_u32(a, b) __CPROVER_uninterpreted_div_u32(a, b)
long __CPROVER_uninterpreted_div_i64(long, long);
#define verif_div_i64(a, b) __CPROVER_uninterpreted_div_i64(a, b)
unsigned long __CPROVER_uninterpreted_div_u64(unsigned long, unsigned long);
#define verif_div_u64(a, b) __CPROVER_uninterpreted_div_u64(a, b)
float __CPROVER_uninterpreted_div_f32(float, float);
#define verif_div_f32(a, b) __CPROVER_uninterpreted_div_f32(a, b)
double __CPROVER_uninterpreted_div_f64(double, double);
#define verif_div_f64(a, b) __CPROVER_uninterpreted_div_f64(a, b)
int __CPROVER_uninterpreted_mod_i32(int, int);
#define verif_mod_i32(a, b) __CPROVER_uninterpreted_mod_i32(a, b)
unsigned int __CPROVER_uninterpreted_mod_u32(unsigned int, unsigned int);
#define verif_mod_u32(a, b) __CPROVER_uninterpreted_mod_u32(a, b)
long __CPROVER_uninterpreted_mod_i64(long, long);
#define verif_mod_i64(a, b) __CPROVER_uninterpreted_mod_i64(a, b)
unsigned long __CPROVER_uninterpreted_mod_u64(unsigned long, unsigned long);
#define verif_mod_u64(a, b) __CPROVER_uninterpreted_mod_u64(a, b)
#else
#define verif_add_i32(a, b) ((int)((int)(a) + (int)(b)))
#define verif_add_u32(a, b) ((unsigned int)((unsigned int)(a) + (unsigned int)(b)))
#define verif_add_i64(a, b) ((long)((long)(a) + (long)(b)))
#define verif_add_u64(a, b) ((unsigned long)((unsigned long)(a) + (unsigned long)(b)))
#define verif_add_f32(a, b) ((float)((float)(a) + (float)(b)))
#define verif_add_f64(a, b) ((double)((double)(a) + (double)(b)))
#define verif_sub_i32(a, b) ((int)((int)(a) - (int)(b)))
#define verif_sub_u32(a, b) ((unsigned int)((unsigned int)(a) - (unsigned int)(b)))
#define verif_sub_i64(a, b) ((long)((long)(a) - (long)(b)))
#define verif_sub_u64(a, b) ((unsigned long)((unsigned long)(a) - (unsigned long)(b)))
#define verif_sub_f32(a, b) ((float)((float)(a) - (float)(b)))
#define verif_sub_f64(a, b) ((double)((double)(a) - (double)(b)))
#define verif_mul_i32(a, b) ((int)((int)(a) * (int)(b)))
#define verif_mul_u32(a, b) ((unsigned int)((unsigned int)(a) * (unsigned int)(b)))
#define verif_mul_i64(a, b) ((long)((long)(a) * (long)(b)))
#define verif_mul_u64(a, b) ((unsigned long)((unsigned long)(a) * (unsigned long)(b)))
#define verif_mul_f32(a, b) ((float)((float)(a) * (float)(b)))
#define verif_mul_f64(a, b) ((double)((double)(a) * (double)(b)))
#define verif_div_i32(a, b) ((int)((int)(a) / (int)(b)))
#define verif_div_u32(a, b) ((unsigned int)((unsigned int)(a) / (unsigned int)(b)))
#define verif_div_i64(a, b) ((long)((long)(a) / (long)(b)))
#define verif_div_u64(a, b) ((unsigned long)((unsigned long)(a) / (unsigned long)(b)))
#define verif_div_f32(a, b) ((float)((float)(a) / (float)(b)))
#define verif_div_f64(a, b) ((double)((double)(a) / (double)(b)))
#define verif_mod_i32(a, b) ((int)((int)(a) % (int)(b)))
#define verif_mod_u32(a, b) ((unsigned int)((unsigned int)(a) % (unsigned int)(b)))
#define verif_mod_i64(a, b) ((long)((long)(a) % (long)(b)))
#define verif_mod_u64(a, b) ((unsigned long)((unsigned long)(a) % (unsigned long)(b)))
#endif

/* libm: uninterpreted, assumed contracts only */
float verif_sqrtf(float x);
double verif_sqrt(double x);
float verif_sinf(float x);
double verif_sin(double x);
float verif_cosf(float x);
double verif_cos(double x);
float verif_tanf(float x);
double verif_tan(double x);
float verif_acosf(float x);
double verif_acos(double x);
float verif_powf(float x, float y);
double verif_pow(double x, double y);
float verif_roundf(float x);
double verif_round(double x);
float verif_floorf(float x);
double verif_floor(double x);
float verif_fmodf(float x, float y);
double verif_fmod(double x, double y);

/* exceptions: class tag of the exception in flight (0 = none) */
extern int __verif_exc;
#endif
