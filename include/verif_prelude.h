/* Prelude of every generated C unit.  Part of the trusted base: reference
 * models of the handful of std:: functions rkcommon's leaf code calls.
 * Under CBMC (VERIF_CBMC defined) contracts are live; natively they vanish. */
#ifndef VERIF_PRELUDE_H
#define VERIF_PRELUDE_H
#ifndef VERIF_CBMC
#define __CPROVER_requires(x)
#define __CPROVER_ensures(x)
#define __CPROVER_assigns(...)
#define __CPROVER_frees(...)
#define __CPROVER_loop_invariant(x)
#define __CPROVER_decreases(x)
#define __CPROVER_assert(c, m) ((void)0)
#define __CPROVER_assume(c) ((void)0)
#endif
typedef unsigned long size_t;
#define IMP(a, b) (!(a) || (b))
#define IFF(a, b) (((a) != 0) == ((b) != 0))

#define VERIF_MINMAX(T, S)                                                        \
  static inline const T *verif_std_min_##S(const T *a, const T *b)                \
  {                                                                               \
    return (*b < *a) ? b : a;                                                     \
  }                                                                               \
  static inline const T *verif_std_max_##S(const T *a, const T *b)                \
  {                                                                               \
    return (*a < *b) ? b : a;                                                     \
  }
VERIF_MINMAX(char, char)
VERIF_MINMAX(signed char, schar)
VERIF_MINMAX(unsigned char, uchar)
VERIF_MINMAX(short, short)
VERIF_MINMAX(unsigned short, ushort)
VERIF_MINMAX(int, int)
VERIF_MINMAX(unsigned int, uint)
VERIF_MINMAX(long, long)
VERIF_MINMAX(unsigned long, ulong)
VERIF_MINMAX(long long, llong)
VERIF_MINMAX(unsigned long long, ullong)
VERIF_MINMAX(float, float)
VERIF_MINMAX(double, double)

static inline int verif_abs_i(int x) { return x < 0 ? -x : x; }
static inline long verif_abs_l(long x) { return x < 0 ? -x : x; }
static inline long long verif_abs_ll(long long x) { return x < 0 ? -x : x; }

/* libm: uninterpreted, assumed contracts only */
float verif_sqrtf(float x);
double verif_sqrt(double x);
float verif_sinf(float x);
double verif_sin(double x);
float verif_cosf(float x);
double verif_cos(double x);
float verif_tanf(float x);
double verif_tan(double x);
float verif_acosf(float x);
double verif_acos(double x);
float verif_powf(float x, float y);
double verif_pow(double x, double y);
float verif_roundf(float x);
double verif_round(double x);
float verif_floorf(float x);
double verif_floor(double x);
float verif_fmodf(float x, float y);
double verif_fmod(double x, double y);

/* exceptions: class tag of the exception in flight (0 = none) */
extern int __verif_exc;
#endif
