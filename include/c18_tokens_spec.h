/* Specification functions for C18 / split + tokenize, written from the property statement ("splitting then re-joining a
 * string on its delimiter(s) reproduces the non-delimiter content in order, with every non-empty token - including
 * one-character tokens - kept").  Plain C99 that is also valid C++: used inside the CBMC contracts and in the native replay.
 * The includer defines TS_CAP (string capacity), TS_MAXTOK, and the accessors TS_PTR(v,k) / TS_LEN(v,k) of element k of
 * the token container v. */
#ifndef C18_TOKENS_SPEC_H
#define C18_TOKENS_SPEC_H
typedef struct { char c[TS_CAP]; unsigned long n; } ts;
typedef struct { ts t[TS_MAXTOK]; unsigned long n; } toks;
static int ts_isdelim(const char *set, unsigned long m, char ch) { unsigned long j; for (j = 0; j < m; j++) if (set[j] == ch) return 1; return 0; }
/* the maximal runs of non-delimiter characters of s, in order; with keep, a token that does not start the string carries
 * the delimiter character in front of it */
static toks spec_tokens(const char *s, unsigned long n, const char *set, unsigned long m, int keep)
{
  toks r; unsigned long i = 0, k, a; r.n = 0;
  for (k = 0; k < TS_MAXTOK; k++) { r.t[k].n = 0; for (a = 0; a < TS_CAP; a++) r.t[k].c[a] = 0; }
  while (i < n)
  {
    if (ts_isdelim(set, m, s[i])) { i++; continue; }
    unsigned long start = i;
    while (i < n && !ts_isdelim(set, m, s[i])) i++;
    if (keep && start != 0) start--;
    if (r.n < TS_MAXTOK) { for (a = start; a < i; a++) if (a - start < TS_CAP) r.t[r.n].c[a - start] = s[a]; r.t[r.n].n = i - start; }
    r.n++;
  }
  return r;
}
#define TOKS_SAME(res, want, v, cnt) do { unsigned long k_, a_; res = ((want).n == (cnt)); for (k_ = 0; k_ < (want).n && k_ < TS_MAXTOK && res; k_++) { if ((want).t[k_].n != TS_LEN(v, k_)) res = 0; else for (a_ = 0; a_ < (want).t[k_].n && a_ < TS_CAP; a_++) if ((want).t[k_].c[a_] != TS_PTR(v, k_)[a_]) res = 0; } } while (0)
#endif
