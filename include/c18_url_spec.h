/* Specification functions for C18 / PseudoURL, written from the documented format
 *     <type>://<filename>[:name=value]*
 * and the property statement ("a pseudo-URL assembled from a type, a file name and name=value pairs parses back into exactly
 * those parts with the last duplicate winning").  Uses ts/toks/spec_tokens of c18_tokens_spec.h (include that first). */
#ifndef C18_URL_SPEC_H
#define C18_URL_SPEC_H
typedef struct { ts type, file; ts name[TS_MAXTOK], value[TS_MAXTOK]; unsigned long nparams; } urlspec;
static ts ts_sub(const char *s, unsigned long a, unsigned long b) { ts r; unsigned long i; for (i = 0; i < TS_CAP; i++) r.c[i] = 0; r.n = 0; if (a > b) a = b; for (i = a; i < b; i++) if (i - a < TS_CAP) r.c[i - a] = s[i]; r.n = b - a; return r; }
static urlspec spec_url(const char *s, unsigned long n)
{
  urlspec u; unsigned long i, k, start = 0; int found = 0;
  static const char colon = ':';
  /* the type is everything before the FIRST "://" (none: empty type, the whole string is the remainder) */
  for (i = 0; i + 3 <= n && !found; i++) if (s[i] == ':' && s[i + 1] == '/' && s[i + 2] == '/') { found = 1; start = i + 3; u.type = ts_sub(s, 0, i); }
  if (!found) u.type = ts_sub(s, 0, 0);
  /* the remainder is a ':'-separated list of non-empty components: file name first, then the parameters */
  toks c = spec_tokens(s + start, n - start, &colon, 1, 0);
  u.file = ts_sub(s, 0, 0); u.nparams = 0;
  for (k = 0; k < TS_MAXTOK; k++) { u.name[k] = ts_sub(s, 0, 0); u.value[k] = ts_sub(s, 0, 0); }
  if (c.n == 0) return u;
  u.file = c.t[0];
  for (k = 1; k < c.n && k < TS_MAXTOK; k++)
  {
    unsigned long eq = c.t[k].n; int has = 0;
    for (i = 0; i < c.t[k].n && i < TS_CAP && !has; i++) if (c.t[k].c[i] == '=') { has = 1; eq = i; }   /* FIRST '=' splits name from value */
    u.name[k - 1] = ts_sub(c.t[k].c, 0, eq);
    u.value[k - 1] = has ? ts_sub(c.t[k].c, eq + 1, c.t[k].n) : ts_sub(c.t[k].c, 0, 0);
    u.nparams++;
  }
  return u;
}
static int ts_eq_buf(ts a, const char *p, unsigned long n) { unsigned long i; if (a.n != n) return 0; for (i = 0; i < n && i < TS_CAP; i++) if (a.c[i] != p[i]) return 0; return 1; }
#endif
